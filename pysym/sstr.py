"""Symbolic Python strings for pysym: a `str` subclass of CONCRETE length whose code points are int shadows (SInt) or ints.

The length of a symbolic input string is chosen by forking (bounded by the harness); every comparison of characters is a branch of
the engine, so the real code's control flow over the string contents is explored per path and Z3 decides the final assertion for
all code points.  Every `str` method that is not modelled raises Unsupported (the path is reported inconclusive): nothing ever
falls through to the C implementation, which would read the placeholder contents.

C functions that take strings are shimmed by the harness (module namespaces): int(), str(), len() work as is (len is the concrete
length), re.* see strshim.ReShim.
"""
from __future__ import annotations

import hashlib
import sys
import unicodedata

import z3

from . import engine as E
from .engine import SInt

MAXCP = 0x2FFFF   # Z3's character sort (z3 4.13): code points 0 .. 0x2FFFF; larger Python code points are outside the model
CW = 18


def _ranges(pred):
    out = []
    start = None
    for c in range(MAXCP + 2):
        ok = c <= MAXCP and pred(chr(c))
        if ok and start is None:
            start = c
        elif not ok and start is not None:
            out.append((start, c - 1))
            start = None
    return out


_CLASS = {}


def char_class(name):
    """ranges of code points (<= MAXCP) in a Python character class, computed from this interpreter's unicodedata"""
    if name not in _CLASS:
        pred = {"digit": str.isdigit, "decimal": str.isdecimal, "numeric": str.isnumeric, "space": str.isspace, "alpha": str.isalpha,
                "alnum": str.isalnum}[name]
        _CLASS[name] = _ranges(pred)
    return _CLASS[name]


def cterm(c):
    """W-bit term of a character (SInt or int)"""
    return E.term(c)


def in_ranges(c, ranges):
    t = cterm(c)
    return z3.Or(*[z3.And(t >= lo, t <= hi) if lo != hi else t == lo for lo, hi in ranges]) if ranges else z3.BoolVal(False)


def lift(s):
    if isinstance(s, SStr):
        return s
    if isinstance(s, str):
        return SStr([ord(ch) for ch in s])
    raise TypeError(f"expected str, got {type(s).__name__}")


def sym_chars(s):
    return any(isinstance(c, SInt) for c in s.cs)


def chars_eq(a, b):
    """formula: the equal-length character sequences are equal"""
    conj = []
    for x, y in zip(a, b):
        if isinstance(x, SInt) or isinstance(y, SInt):
            conj.append(cterm(x) == cterm(y))
        elif x != y:
            return z3.BoolVal(False)
    return z3.And(*conj) if conj else z3.BoolVal(True)


def _idx(i, what="index"):
    """concrete value of an index (forks over the values of a shadow)"""
    if isinstance(i, SInt):
        E.need_fit(i)
        return E.ENG.concretize(i.t, signed=True)
    if isinstance(i, bool) or not isinstance(i, int):
        raise TypeError(f"string {what} must be an integer")
    return i


def _clamp(i, n, default):
    """Python slice-bound clamping of a possibly symbolic bound to 0..n; forks only over the n+1 outcomes"""
    if i is None:
        return default
    if isinstance(i, SInt):
        E.need_fit(i)
        t = i.t
        if E.ENG.branch(t >= n):
            return n
        if E.ENG.branch(t >= 0):
            for k in range(n):
                if E.ENG.branch(t == k):
                    return k
            raise E.PathAbort("unreachable")
        if E.ENG.branch(t <= -n):
            return 0
        for k in range(1, n):
            if E.ENG.branch(t == -k):
                return n - k
        raise E.PathAbort("unreachable")
    if not isinstance(i, int):
        raise TypeError("slice indices must be integers")
    if i < 0:
        i += n
        return max(i, 0)
    return min(i, n)


class SStr(str):
    def __new__(cls, chars):
        chars = tuple(chars)
        o = str.__new__(cls, "�" * len(chars))
        o.cs = chars
        return o

    # ---- construction helpers
    @staticmethod
    def symbolic(name, n, maxcp=MAXCP):
        """n fresh symbolic code points name_0 .. name_{n-1} (returns the shadow and the z3 constants)"""
        consts = [z3.BitVec(f"{name}_{i}", CW) for i in range(n)]
        return SStr([SInt.unsigned(c) for c in consts]), consts

    def seq(s):
        """Z3 sequence term (String sort) of the contents"""
        if not s.cs:
            return z3.Empty(z3.StringSort())
        units = []
        for c in s.cs:
            if isinstance(c, SInt):
                units.append(z3.Unit(z3.CharFromBv(z3.Extract(CW - 1, 0, c.t))))
            else:
                units.append(z3.Unit(z3.CharVal(c)))
        return units[0] if len(units) == 1 else z3.Concat(*units)

    def digest(s):
        h = hashlib.blake2b(digest_size=12)
        for c in s.cs:
            h.update(c.t.sexpr().encode() if isinstance(c, SInt) else b"#%d" % c)
            h.update(b";")
        return b"\xfdSYMS" + h.digest()

    # ---- basic protocol
    def __len__(s):
        return len(s.cs)

    def __bool__(s):
        return len(s.cs) > 0

    def __hash__(s):
        return hash(s.digest())

    def __str__(s):
        return s

    def __repr__(s):
        return "SStr(" + ",".join("?" if isinstance(c, SInt) else repr(chr(c)) for c in s.cs) + ")"

    def __format__(s, spec):
        return "<symstr>"

    def __reduce__(s):
        raise E.Unsupported("pickling a symbolic string")

    def __iter__(s):
        for c in s.cs:
            yield SStr([c])

    def __getitem__(s, i):
        n = len(s.cs)
        if isinstance(i, slice):
            if i.step not in (None, 1):
                raise E.Unsupported("string slice with a step")
            a = _clamp(i.start, n, 0)
            b = _clamp(i.stop, n, n)
            return SStr(s.cs[a:b])
        k = _idx(i)
        if k < -n or k >= n:
            raise IndexError("string index out of range")
        return SStr([s.cs[k]])

    def __add__(s, o):
        if not isinstance(o, str):
            return NotImplemented
        return SStr(s.cs + lift(o).cs)

    def __radd__(s, o):
        if not isinstance(o, str):
            return NotImplemented
        return SStr(lift(o).cs + s.cs)

    def __mul__(s, k):
        k = _idx(k, "repeat count")
        return SStr(s.cs * max(k, 0))

    __rmul__ = __mul__

    def __eq__(s, o):
        if not isinstance(o, str):
            return NotImplemented
        o = lift(o)
        if len(o.cs) != len(s.cs):
            return False
        return E.ENG.branch(chars_eq(s.cs, o.cs))

    def __ne__(s, o):
        r = s.__eq__(o)
        return r if r is NotImplemented else not r

    def _order(s, o):
        raise E.Unsupported("ordering of symbolic strings")

    __lt__ = __le__ = __gt__ = __ge__ = _order

    # ---- searching
    def _match_at(s, sub, p):
        return chars_eq(s.cs[p:p + len(sub.cs)], sub.cs)

    def _find(s, sub, start, end):
        m = len(sub.cs)
        for p in range(start, end - m + 1):
            if E.ENG.branch(s._match_at(sub, p)):
                return p
        return -1

    def find(s, sub, start=None, end=None):
        sub = lift(sub)
        n = len(s.cs)
        a, b = _clamp(start, n, 0), _clamp(end, n, n)
        if start is not None and not isinstance(start, SInt) and start > n:
            return -1       # CPython: find('', start > len) == -1
        if isinstance(start, SInt) and a == n and E.ENG.branch(start.t > n):
            return -1
        return s._find(sub, a, b)

    def index(s, sub, start=None, end=None):
        r = s.find(sub, start, end)
        if r < 0:
            raise ValueError("substring not found")
        return r

    def rfind(s, sub, start=None, end=None):
        sub = lift(sub)
        n = len(s.cs)
        a, b = _clamp(start, n, 0), _clamp(end, n, n)
        if start is not None and not isinstance(start, SInt) and start > n:
            return -1
        for p in range(b - len(sub.cs), a - 1, -1):
            if E.ENG.branch(s._match_at(sub, p)):
                return p
        return -1

    def rindex(s, sub, start=None, end=None):
        r = s.rfind(sub, start, end)
        if r < 0:
            raise ValueError("substring not found")
        return r

    def __contains__(s, sub):
        if not isinstance(sub, str):
            raise TypeError("'in <string>' requires string as left operand")
        return s._find(lift(sub), 0, len(s.cs)) >= 0

    def count(s, sub, start=None, end=None):
        sub = lift(sub)
        n = len(s.cs)
        a, b = _clamp(start, n, 0), _clamp(end, n, n)
        m = len(sub.cs)
        if m == 0:
            return b - a + 1 if a <= b else 0
        k, p = 0, a
        while p + m <= b:
            if E.ENG.branch(s._match_at(sub, p)):
                k += 1
                p += m
            else:
                p += 1
        return k

    def startswith(s, prefix, start=None, end=None):
        if isinstance(prefix, tuple):
            return any(s.startswith(p, start, end) for p in prefix)
        prefix = lift(prefix)
        n = len(s.cs)
        a, b = _clamp(start, n, 0), _clamp(end, n, n)
        m = len(prefix.cs)
        if a + m > b:
            return False
        return E.ENG.branch(s._match_at(prefix, a))

    def endswith(s, suffix, start=None, end=None):
        if isinstance(suffix, tuple):
            return any(s.endswith(p, start, end) for p in suffix)
        suffix = lift(suffix)
        n = len(s.cs)
        a, b = _clamp(start, n, 0), _clamp(end, n, n)
        m = len(suffix.cs)
        if b - m < a:
            return False
        return E.ENG.branch(s._match_at(suffix, b - m))

    def removeprefix(s, p):
        p = lift(p)
        return SStr(s.cs[len(p.cs):]) if s.startswith(p) else s

    def removesuffix(s, p):
        p = lift(p)
        return SStr(s.cs[:len(s.cs) - len(p.cs)]) if p.cs and s.endswith(p) else s

    def replace(s, old, new, count=-1):
        old, new = lift(old), lift(new)
        count = _idx(count, "count")
        n, m = len(s.cs), len(old.cs)
        if count < 0:
            count = sys.maxsize
        out = []
        if m == 0:
            # CPython: new is inserted before every character and at the end, at most count times
            k = 0
            for i in range(n):
                if k < count:
                    out.extend(new.cs)
                    k += 1
                out.append(s.cs[i])
            if k < count:
                out.extend(new.cs)
            return SStr(out)
        p, k = 0, 0
        while p < n:
            if k < count and p + m <= n and E.ENG.branch(s._match_at(old, p)):
                out.extend(new.cs)
                p += m
                k += 1
            else:
                out.append(s.cs[p])
                p += 1
        return SStr(out)

    def join(s, it):
        parts = [lift(x) for x in it]
        out = []
        for i, p in enumerate(parts):
            if i:
                out.extend(s.cs)
            out.extend(p.cs)
        return SStr(out)

    def partition(s, sep):
        sep = lift(sep)
        if not sep.cs:
            raise ValueError("empty separator")
        p = s._find(sep, 0, len(s.cs))
        if p < 0:
            return s, SStr([]), SStr([])
        return SStr(s.cs[:p]), sep, SStr(s.cs[p + len(sep.cs):])

    # ---- classification
    def _all(s, ranges, empty=False):
        if not s.cs:
            return empty
        for c in s.cs:
            if isinstance(c, SInt):
                if not E.ENG.branch(in_ranges(c, ranges)):
                    return False
            elif not any(lo <= c <= hi for lo, hi in ranges):
                return False
        return True

    def isdigit(s):
        return s._all(char_class("digit"))

    def isdecimal(s):
        return s._all(char_class("decimal"))

    def isnumeric(s):
        return s._all(char_class("numeric"))

    def isspace(s):
        return s._all(char_class("space"))

    def isalpha(s):
        return s._all(char_class("alpha"))

    def isalnum(s):
        return s._all(char_class("alnum"))

    def isascii(s):
        return s._all([(0, 127)], empty=True)

    def _strip(s, chars, left, right):
        if chars is not None:
            raise E.Unsupported("strip with a character set")
        sp = char_class("space")
        cs = list(s.cs)
        a, b = 0, len(cs)
        if left:
            while a < b and SStr([cs[a]])._all(sp):
                a += 1
        if right:
            while b > a and SStr([cs[b - 1]])._all(sp):
                b -= 1
        return SStr(cs[a:b])

    def strip(s, chars=None):
        return s._strip(chars, True, True)

    def lstrip(s, chars=None):
        return s._strip(chars, True, False)

    def rstrip(s, chars=None):
        return s._strip(chars, False, True)

    def encode(s, *a, **kw):
        raise E.Unsupported("encode() of a symbolic string")


def _unsupported(name):
    def f(self, *a, **kw):
        raise E.Unsupported(f"str.{name} of a symbolic string")

    f.__name__ = name
    return f


for _n in dir(str):
    if _n in SStr.__dict__ or _n in ("__class__", "__new__", "__init__", "__init_subclass__", "__subclasshook__", "__getattribute__", "__setattr__",
                                       "__delattr__", "__dir__", "__doc__", "__sizeof__", "__reduce_ex__", "__getnewargs__", "__getstate__"):
        continue
    if callable(getattr(str, _n)):
        setattr(SStr, _n, _unsupported(_n))

SStr.__name__ = "str"
SStr.__qualname__ = "str"


# ---------------------------------------------------------------------------------------------------------
# models of C functions on strings


def parse_int(s):
    """int(s) for a string shadow (base 10): optional surrounding whitespace, optional sign, decimal digits (any Unicode Nd) with single
    underscores between digits.  Raises ValueError like CPython."""
    s = lift(s)
    t = s.strip()
    cs = list(t.cs)

    def bad():
        return ValueError("invalid literal for int() with base 10: <symbolic>")

    if not cs:
        raise bad()
    neg = False
    c0 = cs[0]
    if _is_char(c0, ord("-")):
        neg = True
        cs = cs[1:]
    elif _is_char(c0, ord("+")):
        cs = cs[1:]
    if not cs:
        raise bad()
    val = 0
    prev_us = True   # an underscore may not lead
    for c in cs:
        if _is_char(c, ord("_")):
            if prev_us:
                raise bad()
            prev_us = True
            continue
        d = _digit_value(c)
        if d is None:
            raise bad()
        val = val * 10 + d
        prev_us = False
    if prev_us:
        raise bad()
    return -val if neg else val


def _is_char(c, k):
    if isinstance(c, SInt):
        return E.ENG.branch(c.t == k)
    return c == k


_DEC_BLOCKS = None


def _decimal_blocks():
    """start code points of the runs of ten consecutive decimal digits 0..9"""
    global _DEC_BLOCKS
    if _DEC_BLOCKS is None:
        out = []
        for lo, hi in char_class("decimal"):
            c = lo
            while c <= hi:
                if unicodedata.decimal(chr(c)) != 0:
                    raise RuntimeError("decimal block does not start at zero")
                out.append(c)
                c += 10
        _DEC_BLOCKS = out
    return _DEC_BLOCKS


def _digit_value(c):
    """decimal value of a character (int or shadow), None if it is not a decimal digit"""
    if not isinstance(c, SInt):
        ch = chr(c)
        return unicodedata.decimal(ch) if ch.isdecimal() else None
    if E.ENG.branch(z3.And(c.t >= 48, c.t <= 57)):
        return SInt(c.t - 48, None, (0, 9))
    if not E.ENG.branch(in_ranges(c, char_class("decimal"))):
        return None
    # a non-ASCII decimal digit: its value is the offset in its run of ten (one term, no fork per run)
    t = c.t - c.t
    for b in _decimal_blocks():
        if b != 48:
            t = z3.If(z3.And(c.t >= b, c.t <= b + 9), c.t - b, t)
    return SInt(t, None, (0, 9))


def int_to_str(v, max_digits=4):
    """str(v) for an int shadow; values with more than max_digits digits are outside the model (path abandoned)"""
    if not isinstance(v, SInt):
        return lift(str(v))
    E.need_fit(v)
    t = v.t
    neg = E.ENG.branch(t < 0)
    a = -t if neg else t
    nd = None
    for k in range(1, max_digits + 1):
        if E.ENG.branch(a < 10 ** k):
            nd = k
            break
    if nd is None:
        raise E.PathAbort(f"str(int) with more than {max_digits} digits is outside the string model")
    digs = []
    nb = max(10 ** nd - 1, 1).bit_length() + 1    # a < 10^nd on this path: the digit arithmetic fits a narrow word
    lo = z3.Extract(nb - 1, 0, a)
    for k in range(nd - 1, -1, -1):
        d = z3.URem(z3.UDiv(lo, z3.BitVecVal(10 ** k, nb)), z3.BitVecVal(10, nb))
        digs.append(SInt(z3.ZeroExt(a.size() - nb, d) + 48, None, (48, 57)))
    return SStr(([45] if neg else []) + digs)
