"""pysym engine: symbolic shadows of Python int/float/bool that run through real Python code.

SInt(int) / SFloat(float) carry a Z3 term.  Data-dependent branches fork; forking is by replay (a path is a
list of decisions) or, for code that is not replay-deterministic, by os.fork() (ForkEngine).

See DESIGN.md section 3.1.  All exceptions used for path steering derive from BaseException so that the code
under test cannot swallow them with `except Exception`.
"""
from __future__ import annotations

import hashlib
import os
import pickle
import time

import z3


class PathAbort(BaseException):
    """the current path is infeasible"""


class SolverUnknown(BaseException):
    """the branch solver answered unknown: the path is inconclusive"""


class ReplayDivergence(BaseException):
    """a replay met a different branch than the recorded one: the code under test is not deterministic"""


class Unsupported(BaseException):
    """an operation on a shadow value that the engine does not model"""


class Deadline(BaseException):
    """the obligation's wall budget is used up (raised at a safe point: a branch)"""


FORMAT_MODE = ["opaque"]   # "opaque": format(shadow) == "<sym>"; "concretize": fork over the values
DEADLINE = [None]   # absolute time.time() after which branch()/concretize() raise Deadline


class Stats:
    def __init__(self):
        self.checks = 0
        self.solver_s = 0.0
        self.unknown = 0


STATS = Stats()


class Engine:
    """Fork-by-replay with one incremental solver whose frames follow the path condition (trie walk)."""

    fork_mode = False

    def __init__(self, timeout_ms=30000):
        self.timeout_ms = timeout_ms
        self._mk_solver()
        self.decisions = []
        self.pos = 0
        self.pc = []
        self.obligations = []
        self.model = None
        self.W = 64
        self.resources = []

    def _mk_solver(self):
        self.solver = z3.Solver()
        self.solver.set("timeout", self.timeout_ms)
        self.frames = []

    def reset(self, prefix=()):
        self.decisions = list(prefix)
        self.pos = 0
        self.pc = []
        self.obligations = []
        self.resources = []   # (what, term): quantities whose size drives memory/time (unbounded shift amounts)

    # ---- solver frames
    def _sync(self, f):
        i = len(self.pc)
        if i < len(self.frames) and self.frames[i].eq(f):
            pass
        else:
            while len(self.frames) > i:
                self.solver.pop()
                self.frames.pop()
            self.solver.push()
            self.solver.add(f)
            self.frames.append(f)
            self.model = None
        self.pc.append(f)

    def _trim(self):
        while len(self.frames) > len(self.pc):
            self.solver.pop()
            self.frames.pop()
            self.model = None

    def assume(self, f):
        if isinstance(f, bool):
            f = z3.BoolVal(f)
        self._sync(f)

    def _check(self, extra=None):
        self._trim()
        STATS.checks += 1
        t0 = time.time()
        r = self.solver.check(extra) if extra is not None else self.solver.check()
        STATS.solver_s += time.time() - t0
        if r == z3.unknown:
            STATS.unknown += 1
            raise SolverUnknown(self.solver.reason_unknown())
        return r == z3.sat

    def feasible(self):
        return self._check()

    def get_model(self):
        self._trim()
        if self.model is None:
            if not self._check():
                raise PathAbort("infeasible")
            self.model = self.solver.model()
        return self.model

    # ---- decisions
    @staticmethod
    def _dig(t):
        return t.hash()

    def _same(self, t, recorded):
        """a replay met a syntactically different term at a recorded decision: z3.simplify orders the arguments of commutative
        operators by internal ids, which depend on the creation history of terms, so the same condition can come back in another
        shape.  The replay is still aligned iff the two terms are equivalent under the path condition so far."""
        if recorded is None or t.sort() != recorded.sort():
            return False
        try:
            return not self._check(t != recorded)
        except SolverUnknown:
            return False

    def concretize(self, t, signed=True):
        """fork over the feasible concrete values of bit-vector term t; returns a Python int.
        Candidate values are recorded in the decision list so that replays are deterministic."""
        t = z3.simplify(t)
        while True:
            if z3.is_bv_value(t):
                return t.as_signed_long() if signed else t.as_long()
            if self.pos < len(self.decisions):
                kind, v, d, dg, rt = self.decisions[self.pos]
                self.pos += 1
                if kind not in ("c", "cf") or (dg != self._dig(t) and not self._same(t, rt)):
                    raise ReplayDivergence(f"concretize at {self.pos - 1}: {kind}")
                vv = z3.BitVecVal(v, t.size())
                self.assume(t == vv if d else t != vv)
                if d:
                    return vv.as_signed_long() if signed else vv.as_long()
                continue
            m = self.get_model()
            vv = m.eval(t, model_completion=True)
            kind = "c" if self._check(t != vv) else "cf"
            self.decisions.append((kind, vv.as_long(), True, self._dig(t), t))
            self.pos += 1
            self.assume(t == vv)
            return vv.as_signed_long() if signed else vv.as_long()

    def branch(self, cond):
        if isinstance(cond, bool):
            return cond
        cond = z3.simplify(cond)
        if z3.is_true(cond):
            return True
        if z3.is_false(cond):
            return False
        if DEADLINE[0] is not None and time.time() > DEADLINE[0]:
            raise Deadline()
        if self.pos < len(self.decisions):
            kind, _, d, dg, rt = self.decisions[self.pos]
            self.pos += 1
            if kind not in ("b", "bf") or (dg != self._dig(cond) and not self._same(cond, rt)):
                raise ReplayDivergence(f"branch at {self.pos - 1}: {kind}")
            self.assume(cond if d else z3.Not(cond))
            return d
        self._trim()
        side = None
        if self.model is not None:
            v = self.model.eval(cond, model_completion=True)
            if z3.is_true(v):
                side = True
            elif z3.is_false(v):
                side = False
        if side is None:
            m = self.get_model()
            v = m.eval(cond, model_completion=True)
            side = bool(z3.is_true(v))
        other = z3.Not(cond) if side else cond
        if self._check(other):
            self.decisions.append(("b", None, True, self._dig(cond), cond))
            self.pos += 1
            self.assume(cond)
            return True
        self.decisions.append(("bf", None, side, self._dig(cond), cond))
        self.pos += 1
        self.assume(cond if side else z3.Not(cond))
        return side

    def choose(self, n, label=None):
        """nondeterministic choice among range(n) (harness-level; forks)."""
        for i in range(n - 1):
            b = z3.Bool(f"__choice_{label}_{len(self.pc)}_{i}")
            if self.branch(b):
                return i
        return n - 1


class ForkEngine(Engine):
    """At a two-sided branch the process forks; the child takes the other side.  No replay."""

    fork_mode = True

    def __init__(self, out_fd, timeout_ms=30000):
        self.timeout_ms = timeout_ms
        self.solver = z3.Solver()
        self.solver.set("timeout", timeout_ms)
        self.pc = []
        self.obligations = []
        self.out_fd = out_fd
        self.model = None
        self.decisions = []
        self.pos = 0
        self.W = 64
        self.nforks = 0
        self.resources = []

    def assume(self, f):
        if isinstance(f, bool):
            f = z3.BoolVal(f)
        self.pc.append(f)
        self.solver.add(f)
        self.model = None

    def _trim(self):
        pass

    def _check(self, extra=None):
        STATS.checks += 1
        t0 = time.time()
        r = self.solver.check(extra) if extra is not None else self.solver.check()
        STATS.solver_s += time.time() - t0
        if r == z3.unknown:
            STATS.unknown += 1
            raise SolverUnknown(self.solver.reason_unknown())
        return r == z3.sat

    def get_model(self):
        if self.model is None:
            if not self._check():
                raise PathAbort("infeasible")
            self.model = self.solver.model()
        return self.model

    def branch(self, cond):
        if isinstance(cond, bool):
            return cond
        cond = z3.simplify(cond)
        if z3.is_true(cond):
            return True
        if z3.is_false(cond):
            return False
        if DEADLINE[0] is not None and time.time() > DEADLINE[0]:
            raise Deadline()
        t = self._check(cond)
        f = self._check(z3.Not(cond))
        if t and f:
            self.nforks += 1
            pid = os.fork()
            if pid == 0:
                self.assume(z3.Not(cond))
                return False
            os.waitpid(pid, 0)
            self.assume(cond)
            return True
        if t:
            self.assume(cond)
            return True
        if f:
            self.assume(z3.Not(cond))
            return False
        raise PathAbort("infeasible")

    def concretize(self, t, signed=True):
        t = z3.simplify(t)
        while True:
            if z3.is_bv_value(t):
                return t.as_signed_long() if signed else t.as_long()
            v = self.get_model().eval(t, model_completion=True)
            if self.branch(t == v):
                return v.as_signed_long() if signed else v.as_long()


ENG = Engine()


def set_engine(e):
    global ENG
    ENG = e


def set_width(w):
    ENG.W = w


def W():
    return ENG.W


# ---------------------------------------------------------------------------------------------------------
# symbolic int


_BVV_CACHE = {}
_TRUE = z3.BoolVal(True)
_FALSE = z3.BoolVal(False)


def term(x):
    if isinstance(x, SInt):
        return x.t
    if isinstance(x, int):
        k = (int(x), ENG.W)
        t = _BVV_CACHE.get(k)
        if t is None:
            if len(_BVV_CACHE) > 200000:
                _BVV_CACHE.clear()
            t = _BVV_CACHE[k] = z3.BitVecVal(k[0], k[1])
        return t
    raise TypeError(type(x))


def fits(x):
    """formula: the mathematical value of x equals the W-bit signed reading of its term (lazy, cached)"""
    if isinstance(x, SInt):
        f = x._fits
        if callable(f):
            f = x._fits = z3.simplify(f())
        return f
    w = ENG.W
    return _TRUE if -(1 << (w - 1)) <= x < (1 << (w - 1)) else _FALSE


def need_fit(*xs):
    for x in xs:
        if isinstance(x, SInt) and x._fits is _TRUE:
            continue
        f = fits(x)
        if not z3.is_true(f):
            ENG.obligations.append(f)


class SBool:
    """lazy symbolic Boolean (harness-side only: code under test always sees real bool)."""

    def __init__(self, t):
        self.t = t

    def __bool__(self):
        return ENG.branch(self.t)



def _bnd(x):
    """(lo, hi) of a fitting operand with known bounds, else None"""
    if isinstance(x, SInt):
        return x.b if x._fits is _TRUE else None
    x = int(x)
    return (x, x)


def _bl(v):
    return (1 << max(v, 0).bit_length()) - 1


class SInt(int):
    """int subclass carrying a signed W-bit Z3 term.  `fits` says: the mathematical value equals the W-bit
    signed reading (ring operations are exact modulo 2^W even when it is false)."""


    def __new__(cls, t, fits_=None, bounds=None):
        o = int.__new__(cls, 0)
        w = ENG.W
        if t.size() != w:
            raise Unsupported(f"SInt term of width {t.size()} != model width {w}")
        o.t = z3.simplify(t)
        # bounds: conservative integer interval of the mathematical value (only derived from fitting operands);
        # an interval inside the W-bit signed range proves `fits` without building a formula
        if bounds is not None and -(1 << (w - 1)) <= bounds[0] and bounds[1] < (1 << (w - 1)):
            o.b = bounds
            o._fits = _TRUE
        else:
            o.b = None
            o._fits = _TRUE if fits_ is None else fits_   # formula or thunk (evaluated on demand)
        return o

    @property
    def fits(s):
        return fits(s)

    @staticmethod
    def unsigned(t):
        """shadow of the unsigned value of an n-bit term (n < W)"""
        return SInt(z3.ZeroExt(ENG.W - t.size(), t), None, (0, (1 << t.size()) - 1))

    @staticmethod
    def signed(t):
        n = t.size()
        return SInt(z3.SignExt(ENG.W - n, t), None, (-(1 << (n - 1)), (1 << (n - 1)) - 1))

    def low(s, n):
        return z3.simplify(z3.Extract(n - 1, 0, s.t))

    # ring ops
    def __add__(s, o):
        if not isinstance(o, int):
            return NotImplemented
        a, b = term(s), term(o)
        bs, bo = _bnd(s), _bnd(o)
        return SInt(a + b, lambda: z3.And(fits(s), fits(o), z3.BVAddNoOverflow(a, b, True), z3.BVAddNoUnderflow(a, b)),
                    (bs[0] + bo[0], bs[1] + bo[1]) if bs and bo else None)

    __radd__ = __add__

    def __sub__(s, o):
        if not isinstance(o, int):
            return NotImplemented
        a, b = term(s), term(o)
        bs, bo = _bnd(s), _bnd(o)
        return SInt(a - b, lambda: z3.And(fits(s), fits(o), z3.BVSubNoOverflow(a, b), z3.BVSubNoUnderflow(a, b, True)),
                    (bs[0] - bo[1], bs[1] - bo[0]) if bs and bo else None)

    def __rsub__(s, o):
        if not isinstance(o, int):
            return NotImplemented
        a, b = term(o), term(s)
        bs, bo = _bnd(o), _bnd(s)
        return SInt(a - b, lambda: z3.And(fits(s), fits(o), z3.BVSubNoOverflow(a, b), z3.BVSubNoUnderflow(a, b, True)),
                    (bs[0] - bo[1], bs[1] - bo[0]) if bs and bo else None)

    def __mul__(s, o):
        if not isinstance(o, int):
            return NotImplemented
        a, b = term(s), term(o)
        bs, bo = _bnd(s), _bnd(o)
        bb = None
        if bs and bo:
            ps = [bs[0] * bo[0], bs[0] * bo[1], bs[1] * bo[0], bs[1] * bo[1]]
            bb = (min(ps), max(ps))
        return SInt(a * b, lambda: z3.And(fits(s), fits(o), z3.BVMulNoOverflow(a, b, True), z3.BVMulNoUnderflow(a, b)), bb)

    __rmul__ = __mul__

    def __neg__(s):
        return 0 - s

    def __pos__(s):
        return s

    def __invert__(s):
        bs = _bnd(s)
        return SInt(~term(s), lambda: fits(s), (-bs[1] - 1, -bs[0] - 1) if bs else None)

    def __and__(s, o):
        if not isinstance(o, int):
            return NotImplemented
        a, b = term(s), term(o)
        bs, bo = _bnd(s), _bnd(o)
        bb = None
        if bs and bs[0] >= 0 and bo and bo[0] >= 0:
            bb = (0, min(bs[1], bo[1]))
        elif bs and bs[0] >= 0:
            bb = (0, bs[1])
        elif bo and bo[0] >= 0:
            bb = (0, bo[1])
        return SInt(a & b, lambda: z3.Or(z3.And(fits(s), fits(o)), z3.And(fits(s), a >= 0), z3.And(fits(o), b >= 0)), bb)

    __rand__ = __and__

    def __or__(s, o):
        if not isinstance(o, int):
            return NotImplemented
        bs, bo = _bnd(s), _bnd(o)
        bb = (0, _bl(max(bs[1], bo[1]))) if bs and bo and bs[0] >= 0 and bo[0] >= 0 else None
        return SInt(term(s) | term(o), lambda: z3.And(fits(s), fits(o)), bb)

    __ror__ = __or__

    def __xor__(s, o):
        if not isinstance(o, int):
            return NotImplemented
        bs, bo = _bnd(s), _bnd(o)
        bb = (0, _bl(max(bs[1], bo[1]))) if bs and bo and bs[0] >= 0 and bo[0] >= 0 else None
        return SInt(term(s) ^ term(o), lambda: z3.And(fits(s), fits(o)), bb)

    __rxor__ = __xor__

    @staticmethod
    def _shl(a, k, fa, fk):
        r = a << k
        w = ENG.W
        ba, bk = _bnd(fa), _bnd(fk)
        bb = None
        if ba and bk and 0 <= bk[1] <= 4 * w:
            ps = [ba[0] << bk[0], ba[0] << bk[1], ba[1] << bk[0], ba[1] << bk[1]]
            bb = (min(ps), max(ps))
        return SInt(r, lambda: z3.And(fits(fa), fits(fk), z3.ULT(k, w), (r >> k) == a), bb)

    def __lshift__(s, o):
        if not isinstance(o, int):
            return NotImplemented
        need_fit(o)
        if ENG.branch(term(o) < 0):
            raise ValueError("negative shift count")
        ENG.resources.append(("shift amount", term(o)))
        return SInt._shl(term(s), term(o), s, o)

    def __rlshift__(s, o):
        if not isinstance(o, int):
            return NotImplemented
        need_fit(s)
        if ENG.branch(term(s) < 0):
            raise ValueError("negative shift count")
        ENG.resources.append(("shift amount", term(s)))
        return SInt._shl(term(o), term(s), o, s)

    @staticmethod
    def _shr(a, k, ba=None):
        w = ENG.W
        bb = (min(ba[0], 0), max(ba[1], 0)) if ba else None
        return SInt(z3.If(z3.UGE(k, w), z3.If(a < 0, term(-1), term(0)), a >> k), None, bb)

    def __rshift__(s, o):
        if not isinstance(o, int):
            return NotImplemented
        need_fit(s, o)
        if ENG.branch(term(o) < 0):
            raise ValueError("negative shift count")
        return SInt._shr(term(s), term(o), _bnd(s))

    def __rrshift__(s, o):
        if not isinstance(o, int):
            return NotImplemented
        need_fit(s, o)
        if ENG.branch(term(s) < 0):
            raise ValueError("negative shift count")
        return SInt._shr(term(o), term(s), _bnd(o))

    @staticmethod
    def _divmod(a, b):
        q = a / b
        r = z3.SRem(a, b)
        adj = z3.And(r != 0, (r < 0) != (b < 0))
        return z3.If(adj, q - 1, q), z3.If(adj, r + b, r)

    def __floordiv__(s, o):
        if not isinstance(o, int):
            return NotImplemented
        need_fit(s, o)
        if ENG.branch(term(o) == 0):
            raise ZeroDivisionError("integer division or modulo by zero")
        bs, bo = _bnd(s), _bnd(o)
        bb = (0, bs[1]) if bs and bo and bs[0] >= 0 and bo[0] > 0 else None
        return SInt(SInt._divmod(term(s), term(o))[0], None, bb)

    def __rfloordiv__(s, o):
        if not isinstance(o, int):
            return NotImplemented
        need_fit(s, o)
        if ENG.branch(term(s) == 0):
            raise ZeroDivisionError("integer division or modulo by zero")
        return SInt(SInt._divmod(term(o), term(s))[0])

    def __mod__(s, o):
        if not isinstance(o, int):
            return NotImplemented
        need_fit(s, o)
        if ENG.branch(term(o) == 0):
            raise ZeroDivisionError("integer modulo by zero")
        bo = _bnd(o)
        bb = (0, bo[1] - 1) if bo and bo[0] > 0 else None
        return SInt(SInt._divmod(term(s), term(o))[1], None, bb)

    def __rmod__(s, o):
        if not isinstance(o, int):
            return NotImplemented
        need_fit(s, o)
        if ENG.branch(term(s) == 0):
            raise ZeroDivisionError("integer modulo by zero")
        return SInt(SInt._divmod(term(o), term(s))[1])

    def __divmod__(s, o):
        return s // o, s % o

    def __rdivmod__(s, o):
        return o // s, o % s

    def __truediv__(s, o):
        # true division leaves the integers: concretise (fork over the values; only reached at tiny widths)
        if isinstance(o, SFloat):
            raise Unsupported("symbolic int / symbolic float")
        return s.concrete() / (o.concrete() if isinstance(o, SInt) else o)

    def __rtruediv__(s, o):
        if isinstance(o, SFloat):
            raise Unsupported("symbolic float / symbolic int")
        return (o.concrete() if isinstance(o, SInt) else o) / s.concrete()

    def __pow__(s, o, mod=None):
        if isinstance(o, SInt):
            o = ENG.concretize(term(o))
        if mod is not None or o < 0:
            raise Unsupported("pow")
        r = 1
        for _ in range(o):
            r = r * s
        return r

    def __rpow__(s, o, mod=None):
        # base ** symbolic exponent: concretise the exponent (small where it happens)
        e = ENG.concretize(term(s))
        need_fit(s)
        return pow(o, e, mod) if mod is not None else o**e

    def _cmp(s, o, f):
        if isinstance(o, float):
            raise Unsupported('compare symbolic int with float')
        if not isinstance(o, int):
            return NotImplemented
        need_fit(s, o)
        return ENG.branch(f(term(s), term(o)))

    def __eq__(s, o):
        return s._cmp(o, lambda a, b: a == b)

    def __ne__(s, o):
        return s._cmp(o, lambda a, b: a != b)

    def __lt__(s, o):
        return s._cmp(o, lambda a, b: a < b)

    def __le__(s, o):
        return s._cmp(o, lambda a, b: a <= b)

    def __gt__(s, o):
        return s._cmp(o, lambda a, b: a > b)

    def __ge__(s, o):
        return s._cmp(o, lambda a, b: a >= b)

    def __bool__(s):
        need_fit(s)
        return ENG.branch(term(s) != 0)

    def concrete(s):
        need_fit(s)
        return ENG.concretize(term(s))

    def __hash__(s):
        return hash(s.concrete())

    def __index__(s):
        return s.concrete()

    def __int__(s):
        return s

    def __trunc__(s):
        return s

    def __float__(s):
        raise Unsupported("float(symbolic int)")

    def __abs__(s):
        need_fit(s)
        return SInt(z3.If(term(s) < 0, -term(s), term(s)))

    def __repr__(s):
        return f"SInt({s.t})"

    __str__ = __repr__

    def __format__(s, spec):
        # strings built from a symbolic int feed hashes (StridedInterval.__hash__) -> exact container semantics need
        # the concrete digits: fork over the values.  Harness-side printing uses the opaque mode.
        if FORMAT_MODE[0] == "concretize":
            return format(s.concrete(), spec)
        return "<sym>"

    def bit_length(s):
        return 200

    def to_bytes(s, length=1, byteorder="big", *, signed=False):
        # serialisation for claripy's structural hash: a digest of the term (identical terms = same constant)
        return b"\xfeSYM" + hashlib.blake2b(s.t.sexpr().encode(), digest_size=12).digest() + b"\xfe"

    def __reduce__(s):
        key = len(_REGISTRY)
        _REGISTRY.append(s)
        return (_lookup, (key,))

    def __copy__(s):
        return s

    def __deepcopy__(s, memo):
        return s


SInt.__name__ = "int"
SInt.__qualname__ = "int"

_REGISTRY = []


def _lookup(key):
    return _REGISTRY[key]


def is_sym(x):
    return isinstance(x, (SInt, SFloat))


# ---------------------------------------------------------------------------------------------------------
# symbolic float (IEEE double, CPython semantics: RNE)

F64 = z3.Float64()
F32 = z3.Float32()
_RNE = z3.RNE()


def fterm(x):
    if isinstance(x, SFloat):
        return x.t
    if isinstance(x, float):
        return z3.FPVal(x, F64)
    if isinstance(x, SInt):
        need_fit(x)
        return z3.fpSignedToFP(_RNE, x.t, F64)
    if isinstance(x, int):
        return z3.FPVal(float(x), F64)
    raise TypeError(type(x))


def fnarrow(x):
    """the narrower FP term t if x is (to_fp RNE t) widening t exactly, else None.  Comparisons, classification, negation and
    absolute value commute with the widening (lemmas discharged on every run by the harness that uses float shadows), so they are
    expressed on t: the queries stay in the narrow sort."""
    if z3.is_app(x) and x.decl().kind() == z3.Z3_OP_FPA_TO_FP and x.num_args() == 2 and z3.is_fp(x.arg(1)):
        t = x.arg(1)
        if t.sort().ebits() <= x.sort().ebits() and t.sort().sbits() <= x.sort().sbits():
            return t
    return None


def _fpair(s, o):
    a, b = fterm(s), fterm(o)
    na, nb = fnarrow(a), fnarrow(b)
    if na is not None and nb is not None and na.sort() == nb.sort():
        return na, nb
    return a, b


def _fwide(t, like):
    return z3.fpFPToFP(_RNE, t, like.sort())


class SFloat(float):
    def __new__(cls, t):
        o = float.__new__(cls, 0.0)
        o.t = t
        return o

    def __add__(s, o):
        return SFloat(z3.fpAdd(_RNE, fterm(s), fterm(o)))

    def __radd__(s, o):
        return SFloat(z3.fpAdd(_RNE, fterm(o), fterm(s)))

    def __sub__(s, o):
        return SFloat(z3.fpSub(_RNE, fterm(s), fterm(o)))

    def __rsub__(s, o):
        return SFloat(z3.fpSub(_RNE, fterm(o), fterm(s)))

    def __mul__(s, o):
        return SFloat(z3.fpMul(_RNE, fterm(s), fterm(o)))

    def __rmul__(s, o):
        return SFloat(z3.fpMul(_RNE, fterm(o), fterm(s)))

    def __truediv__(s, o):
        if ENG.branch(z3.fpIsZero(fterm(o))):
            raise ZeroDivisionError("float division by zero")
        return SFloat(z3.fpDiv(_RNE, fterm(s), fterm(o)))

    def __rtruediv__(s, o):
        if ENG.branch(z3.fpIsZero(fterm(s))):
            raise ZeroDivisionError("float division by zero")
        return SFloat(z3.fpDiv(_RNE, fterm(o), fterm(s)))

    def __neg__(s):
        n = fnarrow(fterm(s))
        return SFloat(_fwide(z3.fpNeg(n), fterm(s)) if n is not None else z3.fpNeg(fterm(s)))

    def __pos__(s):
        return s

    def __abs__(s):
        n = fnarrow(fterm(s))
        return SFloat(_fwide(z3.fpAbs(n), fterm(s)) if n is not None else z3.fpAbs(fterm(s)))

    def __eq__(s, o):
        return ENG.branch(z3.fpEQ(*_fpair(s, o)))

    def __ne__(s, o):
        return ENG.branch(z3.Not(z3.fpEQ(*_fpair(s, o))))

    def __lt__(s, o):
        return ENG.branch(z3.fpLT(*_fpair(s, o)))

    def __le__(s, o):
        return ENG.branch(z3.fpLEQ(*_fpair(s, o)))

    def __gt__(s, o):
        return ENG.branch(z3.fpGT(*_fpair(s, o)))

    def __ge__(s, o):
        return ENG.branch(z3.fpGEQ(*_fpair(s, o)))

    def __bool__(s):
        return ENG.branch(z3.Not(z3.fpIsZero(fterm(s))))

    def __hash__(s):
        return id(s)

    def __float__(s):
        return s

    def __int__(s):
        raise Unsupported("int(symbolic float)")

    __trunc__ = __int__

    def __str__(s):
        return _SignStr(s)

    def __repr__(s):
        return f"SFloat({s.t})"

    def __format__(s, spec):
        return "<symf>"

    def __reduce__(s):
        key = len(_REGISTRY)
        _REGISTRY.append(s)
        return (_lookup, (key,))


SFloat.__name__ = "float"
SFloat.__qualname__ = "float"


class _SignStr(str):
    """str(x) of a symbolic float; only [0] == '-' is supported (sign test; 'nan' never starts with '-')."""

    def __new__(cls, f):
        o = str.__new__(cls, "?")
        o.f = f
        return o

    def __getitem__(s, i):
        if i != 0:
            raise Unsupported("str(symbolic float)[i]")
        return _SignChar(s.f)


class _SignChar(str):
    def __new__(cls, f):
        o = str.__new__(cls, "?")
        o.f = f
        return o

    def __eq__(s, o):
        if o != "-":
            raise Unsupported("str(symbolic float)[0] == " + repr(o))
        return ENG.branch(z3.And(z3.fpIsNegative(fterm(s.f)), z3.Not(z3.fpIsNaN(fterm(s.f)))))

    __hash__ = str.__hash__


# ---------------------------------------------------------------------------------------------------------
# exploration


class Path:
    __slots__ = ("pc", "obligations", "kind", "result", "decisions", "resources")

    def __init__(self, pc, obligations, kind, result, decisions, resources=()):
        self.resources = list(resources)
        self.pc = pc
        self.obligations = obligations
        self.kind = kind  # "ok" | "exc" | "unknown" | "unsupported" | "diverged"
        self.result = result
        self.decisions = decisions


class Exploration:
    """iterate over paths of fn(); afterwards .complete tells whether the path space was exhausted"""

    def __init__(self, fn, max_paths=2000, max_seconds=None, engine=None):
        self.fn = fn
        self.max_paths = max_paths
        self.max_seconds = max_seconds
        self.complete = False
        self.paths = 0
        self.aborted = 0
        self.inconclusive = []  # reasons

    def __iter__(self):
        eng = ENG
        stack = [[]]
        t0 = time.time()
        while stack:
            if self.paths >= self.max_paths:
                self.inconclusive.append(f"path budget {self.max_paths} exhausted")
                return
            if self.max_seconds is not None and time.time() - t0 > self.max_seconds:
                self.inconclusive.append(f"time budget {self.max_seconds}s exhausted after {self.paths} paths")
                return
            prefix = stack.pop()
            eng.reset(prefix)
            try:
                res = ("ok", self.fn())
            except PathAbort:
                # the siblings of the decisions this path made before it was abandoned are still to be explored
                self.aborted += 1
                self._push_siblings(stack, prefix, eng)
                continue
            except Deadline:
                self.inconclusive.append(f"wall budget exhausted after {self.paths} paths")
                return
            except SolverUnknown as e:
                res = ("unknown", e)
                self.inconclusive.append("branch solver unknown")
            except Unsupported as e:
                res = ("unsupported", e)
                self.inconclusive.append(f"unsupported: {e}")
            except ReplayDivergence as e:
                res = ("diverged", e)
                self.inconclusive.append(f"replay diverged: {e}")
            except RecursionError as e:
                res = ("exc", e)
            except Exception as e:  # noqa: BLE001
                res = ("exc", e)
            self.paths += 1
            self._push_siblings(stack, prefix, eng)
            yield Path(list(eng.pc), list(eng.obligations), res[0], res[1], list(eng.decisions), eng.resources)
        self.complete = True

    @staticmethod
    def _push_siblings(stack, prefix, eng):
        for i in range(len(prefix), len(eng.decisions)):
            k, v, d, dg, rt = eng.decisions[i]
            if k in ("bf", "cf"):
                continue
            stack.append(eng.decisions[:i] + [(k, v, False, dg, rt)])


def explore(fn, max_paths=2000, max_seconds=None):
    return Exploration(fn, max_paths, max_seconds)


def explore_fork(fn, finish, timeout_ms=30000, width=64, max_seconds=600):
    """fork-mode exploration (no re-execution: at a two-sided branch the process forks, depth-first).
    fn(): run under test; finish(path) -> picklable summary, executed in the leaf process.
    Returns (list of summaries, complete: bool)."""
    import select
    import signal

    global ENG
    r, w = os.pipe()
    root = os.fork()
    if root == 0:
        code = 0
        try:
            os.setpgid(0, 0)   # own process group: the whole exploration tree can be killed at once
            os.close(r)
            signal.alarm(0)
            eng = ForkEngine(w, timeout_ms)
            eng.W = width
            ENG = eng
            DEADLINE[0] = time.time() + max_seconds
            try:
                res = ("ok", fn())
            except PathAbort:
                os._exit(0)
            except Deadline:
                res = None
                data = pickle.dumps({"deadline": True})
                os.write(w, len(data).to_bytes(4, "little") + data)
                os._exit(0)
            except SolverUnknown as e:
                res = ("unknown", str(e))
            except Unsupported as e:
                res = ("unsupported", str(e))
            except Exception as e:  # noqa: BLE001
                res = ("exc", e)
            DEADLINE[0] = None
            out = finish(Path(list(ENG.pc), list(ENG.obligations), res[0], res[1], [], ENG.resources))
            data = pickle.dumps(out)
            os.write(w, len(data).to_bytes(4, "little") + data)
        except BaseException as e:  # noqa: BLE001
            try:
                import traceback

                data = pickle.dumps({"harness_error": "".join(traceback.format_exception(e))[-1500:]})
                os.write(w, len(data).to_bytes(4, "little") + data)
            except BaseException:  # noqa: BLE001
                code = 3
        finally:
            os._exit(code)
    os.close(w)
    buf = b""
    t0 = time.time()
    complete = True
    while True:
        rl, _, _ = select.select([r], [], [], 1.0)
        if rl:
            chunk = os.read(r, 1 << 16)
            if not chunk:
                break
            buf += chunk
        if time.time() - t0 > max_seconds + 20:
            complete = False
            try:
                os.killpg(root, signal.SIGKILL)
            except Exception:  # noqa: BLE001
                try:
                    os.kill(root, signal.SIGKILL)
                except Exception:  # noqa: BLE001
                    pass
            break
    os.close(r)
    try:
        os.waitpid(root, 0)
    except ChildProcessError:
        pass
    outs = []
    i = 0
    while i + 4 <= len(buf):
        n = int.from_bytes(buf[i : i + 4], "little")
        if i + 4 + n > len(buf):
            break
        o = pickle.loads(buf[i + 4 : i + 4 + n])
        if isinstance(o, dict) and o.get("deadline"):
            complete = False
        else:
            outs.append(o)
        i += 4 + n
    return outs, complete


# ---------------------------------------------------------------------------------------------------------
# helpers for harnesses


def new_solver(pc=(), timeout_ms=30000):
    s = z3.Solver()
    s.set("timeout", timeout_ms)
    for f in pc:
        s.add(f)
    return s


def check_sat(s, *extra):
    """returns 'sat' | 'unsat' | 'unknown' and accounts time"""
    STATS.checks += 1
    t0 = time.time()
    r = s.check(*extra)
    STATS.solver_s += time.time() - t0
    if r == z3.unknown:
        STATS.unknown += 1
    return str(r)


def model_dict(m, consts):
    out = {}
    for c in consts:
        v = m.eval(c, model_completion=True)
        if z3.is_bv_value(v):
            out[str(c)] = v.as_long()
        elif z3.is_true(v):
            out[str(c)] = True
        elif z3.is_false(v):
            out[str(c)] = False
        else:
            out[str(c)] = str(v)
    return out
