"""Glue between pysym shadows and claripy: symbolic constants inside real claripy ASTs, hash-cons faithful.

DESIGN.md section 3.2.  Nothing in /repo is modified; all substitutions are run-time attribute replacements in
the harness process.
"""
from __future__ import annotations

import sys

import z3

from . import engine as E
from .engine import SInt

import claripy
import claripy.ast.bv as cbv

_orig_BVV = cbv.BVV
KNOWN = {}  # size -> list of (value, node) created on the current path
_installed = False


def mk(t, n=None):
    """shadow int for the unsigned value of the n-bit Z3 term t"""
    return SInt.unsigned(t)


def reset_caches():
    """evaluation caches keyed by AST hash are path-dependent once constants are symbolic: clear per run"""
    asim = sys.modules["claripy.algorithm.simplify"]
    ite = sys.modules["claripy.algorithm.ite_relocation"]
    for b in claripy.backends.all_backends:
        b.downsize()
        for attr in ("_true_cache", "_false_cache"):
            c = getattr(b, attr, None)
            if c is not None:
                c.clear()
    asim.simplification_cache.clear()
    ite.excavated_cache.clear()
    ite.burrowed_cache.clear()
    KNOWN.clear()
    # ASTs that survive from an earlier run remember which backends failed on them (Base._errored); the shortcut that memory
    # enables skips code that forked in the first run, so a replay would take fewer decisions than the run it replays
    for a in list(claripy.ast.base.Base._hash_cache.values()):
        if a._errored:
            a._errored.clear()


def BVV(value, size=None, **kwargs):
    """claripy.BVV with identity == value-equality for symbolic constants (forks on equality with every
    constant of the same size already created on this path)."""
    if kwargs or value is None or not isinstance(value, int) or size is None or isinstance(size, SInt):
        return _orig_BVV(value, size, **kwargs)
    lst = KNOWN.setdefault(size, [])
    mask = (1 << size) - 1
    if isinstance(value, SInt):
        value = value & mask
        t = E.term(value)
        if z3.is_bv_value(t):
            value = t.as_long()
    else:
        value &= mask
    sym = isinstance(value, SInt)
    if not sym and not any(isinstance(kv, SInt) for kv, _ in lst):
        node = _orig_BVV(value, size)
        for kv, _ in lst:
            if kv == value:
                return node
        lst.append((value, node))
        return node
    for kv, node in lst:
        if kv is value or (kv == value):  # symbolic == forks
            return node
    if sym:
        # bypass the (value,size) memo (a WeakValueDictionary: its GC callback would compare shadows with ==)
        node = cbv.BV("BVV", (value, size), length=size)
    else:
        node = _orig_BVV(value, size)
    lst.append((value, node))
    return node


def has_sym(expr):
    for leaf in expr.leaf_asts():
        if leaf.op == "BVV" and isinstance(leaf.args[0], SInt):
            return True
        if leaf.op == "FPV" and isinstance(leaf.args[0], E.SFloat):
            return True
    return False


def install(stub_simplify=True):
    global _installed
    if _installed:
        return
    _installed = True
    import claripy.ast as cast_
    import claripy.frontend.frontend as ff

    for mod in (cbv, claripy, ff, cast_):
        if hasattr(mod, "BVV"):
            mod.BVV = BVV
    z3b = claripy.backends.z3
    orig = z3b._op_expr["BVV"]

    def z3_BVV(ast):
        v = ast.args[0]
        if isinstance(v, SInt):
            return z3.Extract(ast.args[1] - 1, 0, E.term(v))
        return orig(ast)

    z3b._op_expr["BVV"] = z3_BVV
    z3b._cache_objects = False

    if stub_simplify:
        cls = type(z3b)
        orig_s = cls.simplify

        def simplify(self, expr):
            # identity is one of the answers the real simplifier may give; a symbolic constant cannot cross
            # libz3.  (Must not raise BackendError: BackendAny would fall through to the VSA backend.)
            if isinstance(expr, claripy.ast.Base) and has_sym(expr):
                return expr
            return orig_s(self, expr)

        cls.simplify = simplify


def z3conv(expr):
    """claripy's own translation to Z3 (system under test), tolerant of symbolic constants"""
    return claripy.backends.z3.convert(expr)


def node_value_term(node):
    """Z3 term (n bits) of a BVV leaf"""
    v, n = node.args
    if isinstance(v, SInt):
        return v.low(n)
    return z3.BitVecVal(v, n)
