#!/bin/bash
# Offline setup: verifies the toolchain the checks need (the repository's own interpreter with z3 and claripy from /repo).
# Nothing is installed: every engine is part of /verif (pysym, harness) and runs on /venv/bin/python.
set -e
cd "$(dirname "$0")"
/venv/bin/python -c "import z3, sys; sys.path.insert(0, '/repo'); import claripy; print('z3', z3.get_version_string(), 'claripy', claripy.__file__)"
mkdir -p evidence replays
echo setup ok
