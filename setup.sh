#!/bin/bash
# Offline setup: verifies the toolchain the checks need; creates the CrossHair overlay venv used by C03.
set -e
cd "$(dirname "$0")"
/venv/bin/python -c "import z3, sys; sys.path.insert(0, '/repo'); import claripy; print('z3', z3.get_version_string(), 'claripy', claripy.__file__)"
if [ ! -x .venv/bin/crosshair ]; then
  /venv/bin/python -m venv .venv >/dev/null 2>&1 || true
  if [ -x .venv/bin/python ]; then
    SP=$(.venv/bin/python -c "import site; print(site.getsitepackages()[0])")
    printf '/venv/lib/python3.12/site-packages\n/repo\n' > "$SP/verif_overlay.pth"
    PIP_NO_INDEX=1 .venv/bin/python -m pip install -q --no-index --find-links /opt/veriftools/wheels crosshair-tool >/dev/null 2>&1 || echo "note: crosshair overlay not installed (C03 leg 1 will report inconclusive)"
  fi
fi
mkdir -p evidence replays
echo setup ok
