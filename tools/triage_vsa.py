#!/venv/bin/python
"""Triage tool (NOT a check): enumerates, natively and exhaustively at tiny widths, the well-formed operand
tuples on which a strided-interval operation is unsound or raises, and writes them to
/verif/known_vsa_tables.json.  The C21/C22 checks exclude exactly these operand tuples (known findings, identified
by the specific inputs that fail) and verify everything else with the solver.

usage: PYTHONPATH=/verif:/repo /venv/bin/python tools/triage_vsa.py [C21|C22] [--only glob]
"""
from __future__ import annotations

import fnmatch
import json
import multiprocessing as mp
import os
import sys
import time

ROOT = os.path.dirname(os.path.dirname(os.path.abspath(__file__)))
sys.path.insert(0, ROOT)
sys.path.insert(0, "/repo")

from harness.p_vsa import key_of, py_members, wf_triples  # noqa: E402


def sgn(v, n):
    return v - (1 << n) if v >> (n - 1) else v


def pyref(op, n):
    m = (1 << n) - 1

    def sdiv(x, y):
        a, b = sgn(x, n), sgn(y, n)
        q = abs(a) // abs(b)
        if (a < 0) != (b < 0):
            q = -q
        return q & m

    def ashr(x, y):
        return (sgn(x, n) >> min(y, n)) & m

    T = {
        "add": lambda x, y: (x + y) & m, "sub": lambda x, y: (x - y) & m, "mul": lambda x, y: (x * y) & m,
        "udiv": lambda x, y: x // y, "sdiv": sdiv, "mod": lambda x, y: x % y,
        "and": lambda x, y: x & y, "or": lambda x, y: x | y, "xor": lambda x, y: x ^ y,
        "shl": lambda x, y: (x << y) & m if y < n else 0, "lshr": lambda x, y: x >> y if y < n else 0, "ashr": ashr,
        "concat": lambda x, y: (x << n) | y,
        "ULT": lambda x, y: x < y, "ULE": lambda x, y: x <= y, "UGT": lambda x, y: x > y, "UGE": lambda x, y: x >= y,
        "SLT": lambda x, y: sgn(x, n) < sgn(y, n), "SLE": lambda x, y: sgn(x, n) <= sgn(y, n),
        "SGT": lambda x, y: sgn(x, n) > sgn(y, n), "SGE": lambda x, y: sgn(x, n) >= sgn(y, n), "eq": lambda x, y: x == y,
        "neg": lambda x: (-x) & m, "negm": lambda x: (-x) & m, "not": lambda x: (~x) & m,
    }
    return T[op]


def triage(args):
    oid, params = args
    from claripy.backends.backend_vsa.bool_result import BoolResult
    from claripy.backends.backend_vsa.strided_interval import StridedInterval as SI
    from harness import p_vsa

    n, kind, op = params["n"], params["kind"], params["op"]
    tri = wf_triples(n)
    mem = {t: py_members(n, *t) for t in tri}
    mk = lambda t: SI(bits=n, stride=t[0], lower_bound=t[1], upper_bound=t[2])  # noqa: E731
    mask = (1 << n) - 1

    def rmem(r):
        if r.is_empty:
            return set()
        return py_members(r.bits, r.stride, r.lower_bound, r.upper_bound)

    bad = []
    example = None
    total = 0
    nexc = 0

    def note(key, why):
        nonlocal example
        bad.append(key)
        if example is None:
            example = why

    if kind in ("bin", "cmp", "join") and op != "lub3":
        ref = pyref(op, n) if kind != "join" else None
        for a in tri:
            for b in tri:
                if kind == "bin" and op in ("udiv", "sdiv", "mod") and mem[b] == {0}:
                    continue  # no admissible member pair at all
                total += 1
                key = key_of(n, a, b)
                try:
                    A_, B_ = mk(a), mk(b)
                    if kind == "bin":
                        r = p_vsa.BIN[op][0](A_, B_)
                    elif kind == "cmp":
                        r = getattr(A_, op)(B_)
                    else:
                        r = {"union": lambda: A_.union(B_), "lub": lambda: SI.least_upper_bound(A_, B_),
                             "widen": lambda: A_.widen(B_), "intersection": lambda: A_.intersection(B_)}[op]()
                except Exception as e:  # noqa: BLE001
                    nexc += 1
                    note(key, f"{op} n={n} a={a} b={b} raises {type(e).__name__}: {str(e)[:60]}")
                    continue
                if kind == "bin":
                    rm = rmem(r)
                    ok = r.bits == (2 * n if op == "concat" else n)
                    if ok:
                        for x in mem[a]:
                            for y in mem[b]:
                                if op in ("udiv", "sdiv", "mod") and y == 0:
                                    continue
                                if ref(x, y) not in rm:
                                    ok = False
                                    break
                            if not ok:
                                break
                    if not ok:
                        note(key, f"{op} n={n} a={a} b={b}: {op}({x},{y})={ref(x, y)} not in {r!r}")
                elif kind == "cmp":
                    truths = {ref(x, y) for x in mem[a] for y in mem[b]}
                    claimed = set()
                    if BoolResult.has_true(r):
                        claimed.add(True)
                    if BoolResult.has_false(r):
                        claimed.add(False)
                    if not truths <= claimed:
                        note(key, f"{op} n={n} a={a} b={b}: answers {sorted(claimed)} but {sorted(truths)} occur")
                else:
                    rm = rmem(r)
                    need = (mem[a] & mem[b]) if op == "intersection" else (mem[a] | mem[b])
                    if not need <= rm or r.bits != n:
                        note(key, f"{op} n={n} a={a} b={b}: result {r!r} misses {sorted(need - rm)[:4]}")
    elif kind == "join":  # lub3 handled above? no: three operands
        pass
    if kind == "join" and op == "lub3":
        bad.clear()
        total = 0
        for a in tri:
            for b in tri:
                for c in tri:
                    total += 1
                    key = key_of(n, a, b, c)
                    try:
                        r = SI.least_upper_bound(mk(a), mk(b), mk(c))
                    except Exception as e:  # noqa: BLE001
                        nexc += 1
                        note(key, f"lub3 n={n} a={a} b={b} c={c} raises {type(e).__name__}")
                        continue
                    need = mem[a] | mem[b] | mem[c]
                    if not need <= rmem(r):
                        note(key, f"lub3 n={n} a={a} b={b} c={c}: result {r!r} misses {sorted(need - rmem(r))[:4]}")
    if kind in ("un", "ext", "query"):
        P = params
        for a in tri:
            total += 1
            key = key_of(n, a)
            try:
                A_ = mk(a)
                if kind == "un":
                    r = p_vsa.UN[op][0](A_)
                    exp = {pyref(op, n)(x) for x in mem[a]}
                    ok = r.bits == n and exp <= rmem(r)
                elif kind == "ext":
                    if op == "zext":
                        r = A_.zero_extend(n + P["k"])
                        exp = set(mem[a])
                        w = n + P["k"]
                    elif op == "sext":
                        r = A_.sign_extend(n + P["k"])
                        w = n + P["k"]
                        exp = {sgn(x, n) & ((1 << w) - 1) for x in mem[a]}
                    else:
                        r = A_.extract(P["hi"], P["lo"])
                        w = P["hi"] - P["lo"] + 1
                        exp = {(x >> P["lo"]) & ((1 << w) - 1) for x in mem[a]}
                    ok = r.bits == w and exp <= rmem(r)
                else:
                    ok = True
                    M = mem[a]
                    if op in ("eval", "evalsigned"):
                        r = A_.eval(2**n + 1, signed=(op == "evalsigned"))
                        got = [v & mask for v in r]
                        ok = set(got) == M and len(got) == len(set(got))
                    elif op in ("min", "max", "smin", "smax"):
                        r = {"min": lambda: A_.min(), "max": lambda: A_.max(), "smin": lambda: A_.min(signed=True),
                             "smax": lambda: A_.max(signed=True)}[op]()
                        keyf = (lambda v: sgn(v, n)) if op.startswith("s") else (lambda v: v)
                        exp = (min if op.endswith("min") else max)(M, key=keyf)
                        ok = (r & mask) == exp
                    elif op == "cardinality":
                        r = A_.cardinality
                        ok = r == len(M)
                    elif op == "solution":
                        r = [A_.solution(v) for v in range(mask + 1)]
                        ok = all(r[v] == (v in M) for v in range(mask + 1))
                    elif op == "is_top_empty":
                        r = (A_.is_top, A_.is_empty, A_.is_integer)
                        ok = (not r[1]) and r[0] == (len(M) == 1 << n) and r[2] == (a[1] == a[2])
            except Exception as e:  # noqa: BLE001
                nexc += 1
                note(key, f"{op} n={n} a={a} raises {type(e).__name__}: {str(e)[:60]}")
                continue
            if not ok:
                note(key, f"{op} n={n} a={a}: got {r!r}")
    keys = sorted(set(bad))
    case = None
    if keys:
        k = keys[0]
        arity = 3 if op == "lub3" else (2 if kind in ("bin", "cmp", "join") else 1)
        vals = []
        for _ in range(3 * arity):
            vals.append(k & mask)
            k >>= n
        vals.reverse()
        trip = [vals[i : i + 3] for i in range(0, len(vals), 3)] + [[0, 0, 0]] * (3 - arity)
        case = {"harness": "harness.p_vsa", "prop": oid.split("/")[0], "kind": kind, "op": op, "n": n,
                "params": {q: params[q] for q in ("k", "hi", "lo") if q in params}, "a": trip[0], "b": trip[1], "c": trip[2],
                "x": 0, "y": 0, "w": 0, "obligation": oid.split("/")[1], "fail_kind": "known", "all_members": True}
    return oid, {"keys": keys, "count": len(keys), "total": total, "raising": nexc, "example": example, "example_case": case}


def main():
    from harness import p_vsa

    if "--hashseeds" in sys.argv:
        # sdiv/udiv join their per-piece results in the iteration order of a set of StridedIntervals whose hash is a
        # string hash: the failing tuples depend on PYTHONHASHSEED.  The table is the union over the listed seeds (the
        # checks themselves always run under PYTHONHASHSEED=0, which is one of them).
        import subprocess
        import tempfile

        i = sys.argv.index("--hashseeds")
        seeds = [int(v) for v in sys.argv[i + 1].split(",")]
        rest = sys.argv[1:i] + sys.argv[i + 2:]
        path = os.path.join(ROOT, "known_vsa_tables.json")
        union = {}
        for sd in seeds:
            with tempfile.TemporaryDirectory() as td:
                out = os.path.join(td, "t.json")
                env = dict(os.environ, PYTHONHASHSEED=str(sd), TRIAGE_OUT=out, PYTHONPATH=ROOT + os.pathsep + "/repo")
                subprocess.run([sys.executable, os.path.abspath(__file__), *rest], env=env, check=True, stdout=subprocess.DEVNULL,
                               stderr=subprocess.DEVNULL)
                tabs = json.load(open(out))
            for k, t in tabs.items():
                u = union.setdefault(k, dict(t, keys=[], per_seed={}))
                u["per_seed"][str(sd)] = t["count"]
                if sd == seeds[0]:
                    u["example"], u["example_case"] = t["example"], t["example_case"]
                u["keys"] = sorted(set(u["keys"]) | set(t["keys"]))
                u["count"] = len(u["keys"])
        existing = json.load(open(path)) if os.path.exists(path) and rest and "--only" in rest else {}
        existing.update(union)
        with open(path, "w") as f:
            json.dump(existing, f, separators=(",", ":"), sort_keys=True)
        dep = sorted(k for k, t in union.items() if len(set(t["per_seed"].values())) > 1)
        print("written", path, "seeds", seeds, "hash-seed-dependent tables:", dep)
        return
    props = [a for a in sys.argv[1:] if a in ("C21", "C22")] or ["C21", "C22"]
    only = None
    if "--only" in sys.argv:
        only = sys.argv[sys.argv.index("--only") + 1]
    maxn_bin = 3
    path = os.environ.get("TRIAGE_OUT") or os.path.join(ROOT, "known_vsa_tables.json")
    tables = json.load(open(path)) if os.path.exists(path) else {}
    jobs = []
    for prop in props:
        seen = set()
        for tier in ("quick", "thorough"):
            for oid, params in p_vsa.obligations(prop, tier):
                if oid in seen:
                    continue
                seen.add(oid)
                if only and not fnmatch.fnmatchcase(oid, only):
                    continue
                n = params["n"]
                if params["kind"] in ("bin", "cmp", "join") and n > maxn_bin:
                    continue
                if params["op"] == "lub3" and n > 2:
                    continue
                if params["kind"] in ("un", "ext", "query") and n > 5:
                    continue
                jobs.append((prop + "/" + oid, params))
    t0 = time.time()
    with mp.get_context("fork").Pool(16) as pool:
        for oid, tab in pool.imap_unordered(triage, jobs):
            tables[oid] = tab
            print(f"{oid}: {tab['count']}/{tab['total']} failing ({tab['raising']} raising)  e.g. {tab['example']}", flush=True)
    with open(path, "w") as f:
        json.dump(tables, f, separators=(",", ":"), sort_keys=True)
    print("written", path, round(time.time() - t0, 1), "s")


if __name__ == "__main__":
    main()
