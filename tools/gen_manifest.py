#!/venv/bin/python
"""Regenerates /verif/MANIFEST.json from the table below (single source of truth for the registered checks)."""
import json, os, sys
ROOT = os.path.dirname(os.path.dirname(os.path.abspath(__file__)))

EXPR_NOTE = ("Trusted: Z3 4.13.0 (decides every per-path query and provides SMT-LIB operator semantics), the pysym "
             "int-shadow operator models (W-bit two's complement with per-path fits obligations; native re-execution of "
             "solver-chosen constants validates the encoding on sampled paths every run), the run-time BVV wrapper that keeps "
             "hash-consing faithful for symbolic constants, identity stub for BackendZ3.simplify on symbolic constants. "
             "Bounded: enumerated operation-tree shapes (rule seeds + depth-1/2 grammar) and widths; every constant and "
             "variable assignment inside a shape is quantified by the solver. Path-budget/timeout/unknown = inconclusive, listed in evidence.")

CHECKS = {
 "C01": dict(cat="translation_validation", ref="4 C01",
   text="Real constructors/rewriter/eager folding/Z3 translation are executed on symbolic constants (pysym); per explored path Z3 decides "
        "'converted result == SMT-LIB reference term built independently from the written tree' for all constants and all variable assignments. "
        "Plus the concrete bit-vector kernels against Z3's own operators for all operand values. Bounded by the enumerated shapes and widths.",
   technique="symbolic execution of the real Python code on int shadows + Z3 equivalence query per path (bounded shapes/widths)",
   note=EXPR_NOTE),
 "C04": dict(cat="translation_validation", ref="4 C04",
   text="Same symbolic runs as C01; per path the outcome is classified: result, documented claripy error whose condition is implied by the path "
        "condition (decided by Z3), or anything else = violation. Python-level shifts by caller-controlled amounts emit a resource obligation "
        "(amount <= 2^24) decided by Z3 and replayed under RLIMIT_AS. Floating-point leg (fpcrash:): the folding of conversions and arithmetic on symbolic "
        "operand VALUES (float shadows), asked only whether it raises anything but a claripy error - for every value, also where the result is unspecified; "
        "conversions into float sorts the concrete backend does not support.",
   technique="symbolic execution on int shadows; Z3 decides exception-condition and resource obligations per path",
   note=EXPR_NOTE),
 "C05": dict(cat="translation_validation", ref="4 C05",
   text="On every result of every explored path of the C01 shapes: length == sort width of the translated term, variables superset of the free "
        "constants of the translated term, concrete => no variables, depth == 1 + max child depth (recomputed), concrete_value == denoted value (Z3 query). "
        "Second leg: the rewriting utilities of C08 (replace, replace_dict, canonicalize, excavate_ite, burrow_ite) re-run on symbolic constants and their "
        "results checked for the same metadata; substitution into union / intersection / widen; and what comes back from the real Z3 round trip "
        "(claripy.simplify) of 120 floating-point / string expressions incl. conversions between widths.",
   technique="symbolic execution on int shadows; metadata assertions per path, value assertions decided by Z3",
   note=EXPR_NOTE),
 "C06": dict(cat="translation_validation", ref="4 C06",
   text="Every shape is built twice on every explored path (all constants symbolic, identity of constant nodes = value equality decided by Z3): "
        "the two results must be the same object. Second leg (exploration): Z3 generates integers whose CPython hashes collide and integers whose byte "
        "serialisation meets a sentinel / a byte-length boundary; they are built natively in every position that reaches the structural hash (interval "
        "annotation fields, region address, wide BVV value, user annotation) and four pools of expressions are compared pairwise: identity iff a deep "
        "structural comparison finds no difference; a fifth pool attaches several annotations in both orders and compares what comes back with the order written.",
   technique="symbolic execution on int shadows; identity assertions per path (path feasibility decided by Z3)",
   note=EXPR_NOTE),
 "C10": dict(cat="translation_validation", ref="4 C10",
   text="On every Boolean result of the C01 shapes claripy.is_true/is_false and Bool.is_true/is_false are called (twice: cached answers); an answer True "
        "must be valid/unsatisfiable for the written tree under the path condition for all constants and variables (Z3 query). Second leg: a solver's "
        "is_true / is_false over query histories (both orders, with and without extra constraints, other solvers asked first) on the real "
        "Backend.is_true memo with the oracle backend, for Solver, SolverComposite, SolverReplacement and SolverHybrid. Third leg (fptruth:): the Boolean-valued floating-point "
        "operations folded on symbolic operand values (NaN, signed zeros, infinities included) - the literal they fold to is what every truth check reports.",
   technique="symbolic execution on int shadows; validity of each True answer decided by Z3 per path",
   note=EXPR_NOTE),
}
CHECKS["C19"] = dict(cat="model_checking", ref="4 C19", engine="po-smt",
   text="The source of _enter_z3/_exit_z3 (and the call word of condom on normal and raising paths) is translated on every run into an SMT "
        "partial-order encoding (one event per executed source line, integer clocks, reads-from for counter/flag/GC state/lock, arbitrary executed "
        "prefix per thread, symbolic initial GC state); Z3 decides for every listed tuple of per-thread call words whether any schedule violates "
        "'GC disabled while a call is in progress', 'counter never negative / underflow branch never taken', 'state restored when all returned'. "
        "Thread-local variables of the guard functions are encoded per thread. Besides the balanced words, three programs run one unbalanced exit to "
        "completion before any other thread starts (the count must not go negative). "
        "Counterexamples are replayed on the real functions with real threads under a line-level scheduler. Bounded: <=3 threads, nesting <=2.",
   technique="SMT (Z3) partial-order bounded model checking of an encoding generated from the functions' source; replay on the real code",
   note="Trusted: Z3; the AST translator (guarded by a reachability twin and two must-fail source mutants every run); documented semantics of "
        "gc.enable/disable/isenabled and threading.Lock; atomicity of one source line (the property's granularity). Unsupported constructs in a "
        "future version of the functions give exit 3 (cannot encode), never a verdict.")
VSA_NOTE = ("Trusted: Z3 4.13.0; the pysym int-shadow operator models (W-bit two's complement, fits obligations per path; on every "
            "feasible path the native method is re-run on a solver-chosen model of the path and must return the same result); the "
            "concretisation gamma(s[lb,ub]) = {z : (z-lb) <=u (ub-lb) and (s == 0 ? z == lb : (z-lb) mod s == 0)}, which is what "
            "StridedInterval.eval enumerates; run-time shims in the strided_interval module namespace (math.gcd/lcm as Euclid on "
            "shadows; math.log2/floor/ceil, range(), float() concretise their argument by forking over its values). Assumed: operand "
            "intervals well-formed (lb == ub, or stride != 0 and (ub-lb) mod stride == 0). Operand tuples listed in "
            "known_vsa_tables.json (exhaustive native triage at widths <= 3, unary <= 5) are excluded as known findings; at wider widths "
            "an operation with a known defect is treated as known as a whole (coarse entry) - nothing new can be detected there. "
            "Path-budget / wall-cap / unknown = inconclusive, listed in evidence.")
CHECKS["C21"] = dict(cat="other", ref="4 C21", engine="pysym",
   text="Bounded solver-based checking of the real StridedInterval methods: stride, lower and upper bound of every operand are symbolic n-bit "
        "values (pysym shadows) run through the real transfer function; on every explored path Z3 decides, for all well-formed operand intervals "
        "on that path and all concrete members x, y, that the SMT-LIB result op(x, y) is a member of the abstract result (comparisons: the truth "
        "value is among the answers). Widths 1..3 for every operation and 4 (5, 8 in thorough) for those whose path count stays small. Every "
        "counterexample is replayed natively against an enumerating oracle before it is reported. Not a proof: bounded by width and path budget.",
   technique="symbolic execution of the real Python code on int shadows; Z3 containment query per path over all intervals and members (bounded widths)",
   note=VSA_NOTE)
CHECKS["C22"] = dict(cat="other", ref="4 C22", engine="pysym",
   text="Same engine as C21 on union / least_upper_bound (2 and 3 operands) / widen (result contains every member of every operand), "
        "intersection (contains every common member) and the queries eval, min, max (signed and unsigned), cardinality, solution, "
        "is_top/is_empty/is_integer (agree with the member set: Z3 decides membership, distinctness, count == closed-form cardinality, "
        "extremality against an arbitrary member). Widths 1..3 (joins) / 1..4 (queries) quick, one more in thorough.",
   technique="symbolic execution of the real Python code on int shadows; Z3 containment / exactness query per path (bounded widths)",
   note=VSA_NOTE)
CHECKS["C07"] = dict(cat="translation_validation", ref="4 C07 / 11.6", engine="pysym",
   text="The C01 shape pool (rule seeds + depth-1 trees) is built through the real constructors with symbolic constants while annotations of the three "
        "contract kinds sit on chosen nodes (each non-root node alone x {relocatable, neither}; all leaves x each kind; two mixed plans). On every "
        "explored path: every annotation that is neither eliminatable nor relocatable is still reachable in the result (walk over args), every "
        "relocatable one is in result.annotations. claripy.simplify(e): top annotations and relocatable annotations of direct arguments are on the "
        "result (Z3 round trip modelled as 'same expression without annotations' for symbolic constants, re-checked natively with the real Z3 "
        "simplifier on solver-chosen constants). Solver/SolverCacheless/SolverComposite/SolverReplacement/SolverHybrid.simplify(): a constraint with a "
        "SimplificationAvoidanceAnnotation is never handed to the rewriter and is the identical object afterwards.",
   technique="symbolic execution of the real Python code on int shadows (path feasibility over all constants decided by Z3); structural annotation-contract assertion per path",
   note=EXPR_NOTE + " C07 specific: the assertion itself is structural (set membership), the solver's part is the exhaustive path exploration over the constants; "
        "annotation plans are enumerated; relocate() returning a different object is outside the claim.")
CHECKS["C09"] = dict(cat="translation_validation", ref="4 C09 / 11.7", engine="pysym",
   text="Round trip through the real Z3 simplifier: every shape of the C01 pool (widths 8 and 32 quick) is instantiated with solver-generated constants "
        "(up to two models of every construction path explored with symbolic constants, plus boundary vectors); claripy.simplify and backends.z3.simplify "
        "must not raise, and Z3 decides convert(simplified) == independent reference term for every variable assignment. The same for float shapes "
        "(both sorts, five rounding modes, NaN/infinity tests) and string shapes. Operator map: for every Z3 declaration kind with a mapping that can be "
        "applied over BV8/Bool/Float64 terms, the application is abstracted, converted back and Z3 decides equivalence. solver.simplify() on "
        "Solver/SolverComposite/SolverHybrid/SolverReplacement: the constraint set held before and after has the same models (Z3) and satisfiable() is unchanged.",
   technique="real claripy + real Z3 simplifier on solver-generated constants; every equivalence decided by Z3 for all variable assignments",
   note="Trusted: Z3 4.13.0 (also the simplifier under the round trip: C09 tests claripy's use of it), the z3py reference interpreter, z3py constructors for the "
        "operator-map leg. Constants are NOT quantified (they cross libz3): they are witnesses generated by the solver per construction path plus boundary "
        "values; Z3 rewrites that only fire on other constants are outside the claim. unknown (20 s cap) = inconclusive.")
CHECKS["C08"] = dict(cat="translation_validation", ref="4 C08 / 11.8", engine="pysym",
   text="replace / replace_dict (variables: exact simultaneous substitution incl. swaps and leaf_operation, against z3.substitute; sub-expressions: "
        "(old == new) => result == e and old no longer occurs), canonicalize (injective sort-preserving renaming onto fresh names; renamed back equals the "
        "original), excavate_ite / burrow_ite (first, cached and repeated application equivalent to the written tree, 108 If-laden shapes), ite_cases / "
        "ite_dict (first-match nested z3.If), reverse_ite_cases (exactly one condition holds and carries the expression's value), chop / get_bytes / "
        "get_byte (Extract specifications at byte and non-byte widths), identical (True only if equal under some sort-respecting renaming). All run on "
        "symbolic constants through the real code; Z3 decides each specification per path for all constants and variable assignments.",
   technique="symbolic execution of the real Python code on int shadows + Z3 equivalence query against an independently built specification term per path",
   note=EXPR_NOTE + " C08 specific: table keys of ite_dict are concrete (dictionary keys); at most three constants of a case list are symbolic (the "
        "constant-identity wrapper forks on every pair). Known finding C08-bv-identical-vsa (BV.identical compares VSA abstractions) is excluded only when "
        "the True answer provably came from the VSA comparison.")
CHECKS["C02"] = dict(cat="translation_validation", ref="4 C02 / 11.17", engine="pysym",
   text="fold:<op>:<rm>:<sort> - claripy's eager folding of floating-point operations runs on SYMBOLIC concrete operands: the operand values are float / int "
        "shadows carrying Z3 FloatingPoint / bit-vector terms (every double or single including NaN, signed zeros, subnormals, infinities; every bit-vector "
        "of the width), the real FPV / operation constructors, Base.__new__ folding, backend_concrete.fp kernels and ast.fp's single-precision rounding are "
        "executed, and per explored path Z3 decides folded result == SMT-LIB operation for all operand values. z3:<op>:<rm>:<sort> - BackendZ3's translation of "
        "the same operation over FPS / BVS leaves is compared with an independently built Z3 term for all values. lit:<sort> - BackendZ3.FPV numeral transport "
        "on 21 boundary literals. lemma:widen-round - the lemmas behind the single-precision model. 26 operations x 5 rounding modes x {FLOAT, DOUBLE}; "
        "int<->float widths 8, 64 (quick) + 32. Counterexamples are replayed natively on plain Python floats against Z3's ground evaluation.",
   technique="symbolic execution of the real Python code on float/int shadows; Z3 FloatingPoint theory decides equality with the SMT-LIB term per path",
   note="Within the bound: single operations (no trees). Many double-precision division / square-root queries in a non-default rounding mode and single-precision "
        "arithmetic (double rounding) come back unknown from Z3 within the per-query cap: reported inconclusive, never as held. Known findings: "
        "C02-rounding-mode-ignored (whole fold obligations of add/sub/mul/div/sqrt/int->float in a non-RNE mode), C02-int-to-single-double-rounding.")
CHECKS["C03"] = dict(cat="translation_validation", ref="4 C03 / 11.18", engine="pysym",
   text="fold:<op>:<lengths> - claripy's eager folding of string operations runs on SYMBOLIC concrete operands: string values are shadows of concrete length "
        "whose code points (0..0x2FFFF) are symbolic, index operands are symbolic 64-bit constants; the real constructors, Base.__new__ folding, the "
        "backend_concrete/strings.py kernels (re-compiled from the current source with string literals lifted to shadows) and the generic == / != dispatch "
        "are executed, and per explored path Z3's sequence theory decides folded result == SMT-LIB operation for all code points and index values. One "
        "obligation per operation and operand-length combination (lengths 0..3 quick, 0..4 thorough; 0..2 / 0..3 for three string operands), also on operands that differ only in annotations. "
        "z3:<op> - BackendZ3's translation over StringS/BVS leaves against an independently built term. lit:<k> - 37 boundary literals (NUL, backslash, text "
        "that looks like a Z3 escape, quotes, astral characters) reach Z3 as exactly their code points. conc:IntToStr:<k> - boundary integers. "
        "lemma:references - the facts the fold-leg references rely on, proved by Z3 on every run. Counterexamples are replayed natively on plain Python strings "
        "against Z3's ground evaluation.",
   technique="symbolic execution of the real Python code on string/int shadows; Z3 sequence theory decides equality with the SMT-LIB term per path",
   note="Within the bound: single operations; code points up to 0x2FFFF (Z3's character sort); IntToStr up to 4 digits symbolically (+ boundary values concretely). "
        "StrIsDigit has no solver translation and is outside the claim. A regular expression built from symbolic characters is explored on one solver-chosen "
        "representative and reported inconclusive (the repaired kernels use none).")
CHECKS["C26"] = dict(cat="exploration", ref="4 C26 / 11.19", engine="z3-witness",
   text="Solver-generated witnesses per value class: for bit-vectors of widths 1..128 (quick; ..1024 thorough), doubles and singles (NaN, signed zeros, "
        "infinities, smallest / largest subnormal and normal, odd fractions, extreme exponents, negative) and strings (NUL, backslash, text that looks like an "
        "escape sequence, quotes, non-ASCII, astral characters, 13 pinned literals + 4 classes) the REAL Solver and SolverComposite are asked for up to 8 "
        "values (eval / batch_eval, fresh and from the model cache) and for signed / unsigned min and max under a constraint set that pins the expression "
        "into the class - Z3 chooses the values.  Every returned Python value is re-asserted at bit level in an independent Z3 query built by the harness "
        "(constraints /\\ expr == literal(value) must be satisfiable; floats by IEEE bit pattern, NaN as a class; strings as code-point sequences); min / max "
        "are compared with Z3's optimum and must lie in the range of the requested reading.  Also compound expressions (x + 3, wide Concat, fpNeg, fpToIEEEBV, "
        "fpAdd, StrConcat, StrLen) and batch_eval of a mixed-sort list.",
   technique="solver-generated inputs through the real extraction code; an independent SMT query decides every returned value",
   note="The extraction crosses libz3 (numerals as C integers / decimal strings / significand and exponent strings): no engine here executes that boundary "
        "symbolically, so the claim is exploration over solver-chosen witnesses of the listed classes, not a decision for all values.")
CHECKS["C25"] = dict(cat="translation_validation", ref="4 C25 / 11.9", engine="pysym",
   text="claripy.constraint_to_si / Balancer run on constraints whose constants are symbolic (the VSA min/max/eval/is_true calls and the interval "
        "arithmetic inside run on the same shadows). Per explored path Z3 decides, for all constants and every assignment that satisfies c (claripy's "
        "Z3 translation of c), that the sat flag is True and that every returned (expression, bound) pair contains the expression's value (gamma of "
        "backends.vsa.convert(bound)). 38 left-hand shapes (add, sub, extract, concat, zero/sign extension, and, shift, If, ...) x comparisons on either "
        "side + 18 compound And/Or/Not/If constraints, variables plain or annotated with concrete strided intervals (symbolic annotations in thorough). "
        "Width 3 quick; 3,4,6,8 thorough. Counterexamples replayed natively by enumeration with claripy's concrete backend.",
   technique="symbolic execution of the real Python code on int shadows; Z3 decides 'satisfying assignment => inside every bound' per path",
   note=VSA_NOTE + " C25 specific: annotation hashing is nominal in this harness (claripy.annotation.hash replaced by a digest of the fields' terms). Known "
        "findings: C25-addsub-ordered-wrap (whole obligations with a sum/difference under an ordered comparison are attributed to it), "
        "C25-inherits-vsa-extract-shl (annotated variables under extract/shift inherit C21's unsound transfer functions).")
CHECKS["C24"] = dict(cat="translation_validation", ref="4 C24 / 11.10", engine="pysym",
   text="Expressions of the C01 shape pool plus 60 If / And / Or / Not shapes whose conditions depend on the variables are built over variables annotated "
        "with strided intervals (three concrete annotation sets; fully symbolic annotations in thorough) and symbolic constants; backends.vsa.convert "
        "(ITE excavation, If joins, BoolResult combination, annotation application, interval transfer functions) runs on the shadows. Per explored path Z3 "
        "decides, for all constants and all members of the variables' intervals, that the SMT-LIB value of the written tree is in the abstract value "
        "(Boolean: the truth value is among the answers), and that SolverVSA.eval/min/max (signed and unsigned)/satisfiable/is_true/is_false exclude "
        "nothing. Width 3 quick; 2,3,4,6 thorough.",
   technique="symbolic execution of the real Python code on int shadows; Z3 containment query per path over all constants and interval members",
   note=VSA_NOTE + " C24 specific: a failure is attributed to a C21/C22 finding only if a StridedInterval call recorded on the failing path had operands "
        "that are a known-failing tuple under the counterexample. Division by zero exempt. Multiplication/division shapes and shifts by an interval "
        "amount are thorough-tier only.")
CHECKS["C23"] = dict(cat="other", ref="4 C23 / 11.11", engine="pysym",
   text="DiscreteStridedIntervalSet (2 members: one with symbolic stride/bounds, one from a concrete pool) and ValueSet (1-2 regions from a pool of 3 names: "
        "one symbolic interval, one concrete) at width 2 (quick) / 2-3 (thorough): every operator of both classes (arithmetic, bitwise, shifts, reversed "
        "operators, concat, extract, extensions, comparisons, union / intersection / widen, identical) and the queries (eval of all members and eval(2) / eval(3), min, max, cardinality, "
        "collapse). Per explored path Z3 decides per-member / per-region containment of every concrete result and agreement of the queries with the "
        "member set, for all interval parameters and members.",
   technique="symbolic execution of the real Python code on int shadows; Z3 containment / exactness query per path",
   note=VSA_NOTE + " C23 specific: operand pairs in C21/C22's exact tables of known-failing interval operands are excluded by assumption (the set / region "
        "lifting is the subject); remaining failures are attributed to C21/C22 only if a recorded interval-level call on the failing path had known-failing "
        "operands. Only one operand carries a symbolic member per exploration.")
HIST_NOTE = ("Trusted: Z3 4.13.0; the pysym engine; the symbolic oracle backend (harness/symbackend.py) standing in for BackendZ3: it answers every query "
             "consistently with the asserted formulas while the constraint constants stay symbolic, and its choice of model is explored by forking "
             "(bounded in the quick tier: two arbitrary models per history, later ones the least model; batch_eval rounds after the first in "
             "increasing order). exists/forall over the variables are finite expansions over 1-3 bit domains. The atoms are written twice (claripy builder, "
             "Z3 builder). A creation-order __hash__ is installed on Frontend objects for replay determinism (identity equality unchanged). "
             "Counterexamples are replayed on the REAL Z3 backend with brute-force specifications; if Z3 happens to pick other models than the "
             "counterexample needs, on the oracle backend with concrete constants (real frontend code, legal backend answers, ground specifications). "
             "Bounded: the listed histories, widths, three constants. Budget exhaustion = inconclusive.")
CHECKS["C11"] = dict(cat="model_checking", ref="4 C11 / 11.12", engine="pysym",
   text="Solver / SolverCacheless / SolverStrings run unmodified on the symbolic oracle backend over histories of add, satisfiable, eval, batch_eval, "
        "min/max (signed/unsigned, with/without extra constraints), solution, is_true/is_false, simplify, downsize, branch; one targeted family per "
        "caching mechanism plus bounded-exhaustive short sequences; reuse_z3_solver on/off. Every recorded answer is checked against its specification "
        "(exact satisfiability; feasible, distinct, complete results; true optimum as n-bit pattern; solution iff feasible; UnsatError only if unsat) "
        "for all constants and all backend model choices of the path. Kernel leg: the real BackendZ3._extrema / _batch_eval against an oracle solver "
        "object whose feasible set is a symbolic bit mask (all 2^(2^n) sets, n <= 4).",
   technique="symbolic execution of the real frontend code on a symbolic oracle backend; per path Z3 decides each answer's specification (finite expansion over the variable domain)",
   note=HIST_NOTE)
for _p, _cat, _t in (
    ("C12", "model_checking", "SolverComposite (children on the oracle backend) over histories that connect and disconnect variable groups in different orders, "
                              "queries spanning groups, extra constraints joining groups, branch copy-on-write, simplify; same specifications as C11 with the "
                              "harness's flat constraint list as the monolithic reference."),
    ("C13", "model_checking", "SolverReplacement (default options) and SolverHybrid in exact mode over replacement-specific histories (equality, Boolean and bound "
                              "replacements, conflicts, extra constraints, branches, merge / split / combine of solvers that learned replacements) and C11 families; "
                              "specifications as C11. Approximate modes: 15 histories on SolverHybrid asked with exact=False (real SolverReplacement over "
                              "SolverVSA on the same symbolic constants): containment only - no existing value excluded, min / max do not cut off a value, "
                              "satisfiable / solution never False for something that exists. Non-bit-vector sorts (x:): per value class of a float / string / "
                              "Boolean constant and spelling of the equality, the values SolverReplacement and SolverHybrid enumerate for the variable's bit pattern on the "
                              "real backends are compared with an independent Z3 enumeration (solver-generated witnesses)."),
    ("C14", "model_checking", "Trees of up to three branched solver objects (branch of a branch) with interleaved adds, queries, simplify, downsize on every "
                              "frontend class, reuse_z3_solver on/off; every answer is specified by the constraint list of its own object."),
    ("C15", "model_checking", "merge (with/without common ancestor, 2-3 solvers, overlapping conditions), combine (disjoint / overlapping / after cached queries) "
                              "and split on every frontend class: the resulting constraint set has exactly the documented models (formula equivalence by "
                              "finite expansion), split parts share no variables and partition the conjuncts; later queries on the result checked as in C11."),
    ("C16", "model_checking", "Tracked Solver / SolverComposite / SolverHybrid reaching unsatisfiability in different orders; the oracle may return any "
                              "unsatisfiable subset as core (forked). unsat_core() must be a flat sequence of ASTs, each (equivalent to) an added constraint, "
                              "jointly unsatisfiable, and empty when satisfiable; also for solvers derived by branch / split / merge / combine from an unsatisfiable one "
                              "(the oracle solver, like z3.Solver, reports a core only after its own unsat check). Kernel leg: the real BackendZ3.add(track=True) / "
                              "unsat_core with a symbolic core subset and term-cache configuration: every element is identically an added constraint."),
    ("C17", "fault_enumeration", "Histories in which the k-th backend check raises ClaripySolverInterruptError for a symbolic k (every position of every "
                                 "check); the faulted operation must raise a claripy error and every later answer of the object and its branches must meet "
                                 "the C11 specifications. Kernel leg: real BackendZ3._batch_eval / _extrema on an oracle solver object - after a timeout the "
                                 "assertion stack must be exactly what it was before; the public BackendZ3 entry points (satisfiable, check_satisfiability, solution, "
                                 "eval, min, max) must raise when a check times out."),
    ("C18", "model_checking", "A pickle round trip inserted at every position of six base histories on every frontend class; later answers must meet the "
                              "same specifications; two solvers in one pickle; for approximate answers of SolverHybrid the never-pickled original runs on as a twin. "
                              "Native legs: four pools of expressions in-process (identity) and across interpreter processes with different PYTHONHASHSEEDs "
                              "(structural equality, equivalence, and the value under a fixed assignment computed by the library's own concrete evaluation in both processes), "
                              "six solver scenarios pickled in one process and queried in another. A solver made unsatisfiable through the pairwise shortcut "
                              "(concrete contradicting equalities) is pickled at every position and asked for its core."),
):
    CHECKS[_p] = dict(cat=_cat, ref=f"4 {_p} / 11.12", engine="pysym", text=_t,
                      technique="symbolic execution of the real frontend code on a symbolic oracle backend; per path Z3 decides each answer's specification",
                      note=HIST_NOTE)
NOT_YET = {}
NA = {
 "C20": "Real OS-thread preemption inside CPython and libz3 cannot be encoded by any engine available here; a stress run would be sampling, i.e. a different technique (DESIGN.md section 5).",
}

def main():
    props = [json.loads(l)["id"] for l in open(os.path.join(ROOT, "properties.jsonl"))]
    checks = []
    for pid in props:
        if pid not in CHECKS:
            continue
        c = CHECKS[pid]
        checks.append({
            "property_id": pid,
            "quick_cmd": f"./check {pid} --tier quick",
            "thorough_cmd": f"./check {pid} --tier thorough",
            "evidence_file": f"/verif/evidence/{pid}.json",
            "replay_cmd_template": f"./check {pid} --replay {{path}}",
            "engine": c.get("engine", "pysym"),
            "level_claimed": {"category": c["cat"], "text": c["text"], "design_ref": "DESIGN.md section " + c["ref"]},
            "level_note": c["note"],
            "technique": c["technique"],
        })
    na = []
    for pid in props:
        if pid in CHECKS:
            continue
        if pid in NA:
            na.append({"property_id": pid, "reason": NA[pid]})
        else:
            na.append({"property_id": pid, "reason": NOT_YET.get(pid, "check not built yet (build in progress; see DESIGN.md section 10 for the order)")})
    m = {
        "version": 1,
        "setup_cmd": "./setup.sh",
        "hooks": {"guard": "CLARIPY_VERIF", "enable": "no source hooks: all substitutions are run-time attribute replacements inside the harness process",
                  "baseline_off_cmd": "cd /repo && /venv/bin/python -m pytest -ra -q -p no:cacheprovider --timeout=900 --continue-on-collection-errors",
                  "source_commits": [], "add_only": True},
        "engines": [
            {"name": "po-smt", "path": "/verif/harness/p_c19.py", "serves_properties": ["C19"],
             "kind_free_text": "Python-AST to SMT partial-order encoding (event clocks + reads-from), decided by Z3"},
            {"name": "z3-witness", "path": "/verif/harness/p_c26.py", "serves_properties": ["C26"],
             "kind_free_text": "Z3 generates the witnesses through the real frontends; every extracted value is decided by an independent Z3 query"},
            {"name": "pysym", "path": "/verif/pysym", "serves_properties": sorted(k for k in CHECKS if k not in ("C19", "C26")),
             "kind_free_text": "own symbolic-execution engine: int/float subclasses carrying Z3 terms run through the real claripy code, fork-by-replay / fork-by-process, Z3 decides every branch and every assertion"},
        ],
        "checks": checks,
        "not_applicable": na,
        "notes": "All checks: ./check <ID> --tier quick|thorough. Exit 0 held/known findings/inconclusive(counted), 1 replayed violation, 3 harness error. Known findings and fixed defects: /verif/known_findings.json.",
    }
    with open(os.path.join(ROOT, "MANIFEST.json"), "w") as f:
        json.dump(m, f, indent=1)
    print("checks:", [c["property_id"] for c in checks], "n/a:", len(na))

main()
