#!/bin/bash
# usage: tools/run_seeds.sh <seed-id>...   applies each seeded change to /repo, runs the quick check of its property (and any extra
# properties listed after a colon: C05-1:C08), restores /repo.  Results: /verif/seeded/<id>/result_<P>.txt and a summary on stdout.
cd /verif
export VERIF_EVIDENCE_DIR=/tmp/seedrun/evidence VERIF_REPLAY_DIR=/tmp/seedrun/replays
mkdir -p $VERIF_EVIDENCE_DIR $VERIF_REPLAY_DIR
for spec in "$@"; do
  id=${spec%%:*}
  props=${spec#*:}; [ "$props" = "$spec" ] && props=${id%%-*}
  props=${props//,/ }
  if [ -n "$(git -C /repo status --porcelain --untracked-files=no)" ]; then echo "/repo not clean, stopping"; exit 2; fi
  git -C /repo apply /verif/seeded/$id/patch.diff || { echo "$id: patch does not apply"; continue; }
  for P in $props; do
    s=$(date +%s)
    ./check $P --tier quick > seeded/$id/result_$P.txt 2>&1
    rc=$?
    echo "$id check=$P rc=$rc $(( $(date +%s) - s ))s viol=$(grep -c '^VIOLATION' seeded/$id/result_$P.txt) :: $(grep -E "^$P \[" seeded/$id/result_$P.txt | tail -1 | cut -c1-160)"
  done
  git -C /repo checkout -- .
done
