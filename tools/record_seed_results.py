#!/usr/bin/env python3
"""usage: tools/record_seed_results.py <first-run verdicts file>  <id>...
Fills seeded/<id>/meta.json "checks" from seeded/<id>/result_<P>.txt (written by tools/run_seeds.sh).  The first-run verdict of a change
is what the checks said BEFORE any strengthening prompted by it; it is given on the command line as <id>=caught|missed and never derived."""
import json, os, re, sys

root = os.path.join(os.path.dirname(os.path.abspath(__file__)), "..", "seeded")
for a in sys.argv[1:]:
    sid, first = a.split("=")
    P = sid.split("-")[0]
    d = os.path.join(root, sid)
    meta = json.load(open(os.path.join(d, "meta.json")))
    txt = open(os.path.join(d, f"result_{P}.txt"), errors="replace").read()
    m = re.findall(rf"^{P} \[(\w+)\] .*violations=(\d+) harness-errors=(\d+)", txt, re.M)
    tier, viol, herr = m[-1]
    first_ob = re.search(r"^\s+obligation=(\S+)", txt, re.M)
    meta["checks"][P] = {"tier": tier, "exit": 1 if int(viol) else 0, "violations": int(viol), "harness_errors": int(herr),
                         "verdict": "caught" if int(viol) else "missed", "first_run_before_any_strengthening": first,
                         "first_reporting_obligation": first_ob.group(1) if first_ob else None}
    json.dump(meta, open(os.path.join(d, "meta.json"), "w"), indent=1)
    print(sid, meta["checks"][P])
