#!/venv/bin/python
"""Rewrites the strided-interval entries of /verif/known_findings.json from known_vsa_tables.json (triage output).
One finding per (property, operation): the exact failing operand tuples at the triaged widths are in the table file;
for wider widths (no table) a coarse entry covers the same operation."""
import json, os, re
ROOT = os.path.dirname(os.path.dirname(os.path.abspath(__file__)))
kf = json.load(open(os.path.join(ROOT, "known_findings.json")))
tabs = json.load(open(os.path.join(ROOT, "known_vsa_tables.json")))
kf["findings"] = [f for f in kf["findings"] if not f["id"].startswith(("C21-si-", "C22-si-"))]
byop = {}
for key, t in tabs.items():
    prop, oid = key.split("/")
    _, op, n = oid.split(":")
    opname = re.sub(r"\d+(_\d+)?$", "", op) if op.startswith(("extract", "zext", "sext")) else op
    d = byop.setdefault((prop, opname), {"count": 0, "total": 0, "example": None, "case": None, "widths": set(), "obls": set()})
    if t["count"]:
        d["count"] += t["count"]; d["widths"].add(int(n)); d["obls"].add(oid)
        if d["example"] is None:
            d["example"], d["case"] = t["example"], t["example_case"]
    d["total"] += t["total"]
for (prop, op), d in sorted(byop.items()):
    if not d["count"]:
        continue
    what = (f"StridedInterval {op}: unsound or raising on {d['count']} of {d['total']} well-formed operand tuples at widths "
            f"{sorted(d['widths'])} (listed exactly in known_vsa_tables.json), e.g. {d['example']}")
    kf["findings"].append({"id": f"{prop}-si-{op}", "property": prop, "status": "open",
                           "obligation": f"si:{op}*", "region": "table:known_vsa_tables.json", "what": what[:600],
                           "witness": d["case"]})
    kf["findings"].append({"id": f"{prop}-si-{op}-wide", "property": prop, "status": "open",
                           "obligation": f"si:{op}*", "region": "true", "coarse": True,
                           "what": f"StridedInterval {op} at widths without an exact table (>= 4; lub3: >= 3): same defect as {prop}-si-{op}; the whole obligation is treated as known",
                           "witness": d["case"]})
json.dump(kf, open(os.path.join(ROOT, "known_findings.json"), "w"), indent=1)
print(len(kf["findings"]), "findings")
