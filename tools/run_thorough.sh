#!/bin/bash
# usage: tools/run_thorough.sh <ID>...   runs the thorough command of each property against /repo, one after the other
cd /verif
for p in "$@"; do
  s=$(date +%s)
  ./check $p --tier thorough > /tmp/thorough_$p.log 2>&1
  rc=$?
  echo "$p rc=$rc $(( $(date +%s) - s ))s :: $(grep -E "^$p \[" /tmp/thorough_$p.log | tail -1)"
  grep -E "^VIOLATION|HARNESS-ERROR|^  obligation=" /tmp/thorough_$p.log | head -8 | cut -c1-400
done
