"""copies confirmed seeded changes from the sub-agents' scratch worktrees into /verif/seeded/<id>/
usage: import_seeds.py <round> <confirm-log> <P>...   (the k-th change of property P becomes <P>-<n+k>, n = changes already present)"""
import json, os, shutil, subprocess, sys, glob
head = subprocess.check_output(["git", "-C", "/repo", "rev-parse", "--short", "HEAD"], text=True).strip()
rnd, log = int(sys.argv[1]), sys.argv[2]
for P in sys.argv[3:]:
    n = len([d for d in glob.glob(f"/verif/seeded/{P}-*") if json.load(open(d + "/meta.json")).get("round", 1) != rnd])
    for k in (1, 2):
        src = f"/tmp/wt_{P}/seed_out/{k}"
        if not os.path.exists(src + "/patch.diff"):
            continue
        line = [l for l in open(log) if l.startswith(f"{P}/{k}:")]
        if not (line and "clean rc=0 patched rc=1 tests rc=0" in line[-1]):
            print("NOT CONFIRMED, skipped:", P, k, line[-1:] )
            continue
        dst = f"/verif/seeded/{P}-{n + k}"
        os.makedirs(dst, exist_ok=True)
        shutil.copy(src + "/patch.diff", dst + "/patch.diff")
        shutil.copy(src + "/demo.py", dst + "/demo.py")
        notes = open(src + "/notes.md").read() if os.path.exists(src + "/notes.md") else ""
        open(dst + "/notes.md", "w").write(notes)
        files = sorted({l[6:].strip() for l in open(src + "/patch.diff") if l.startswith("+++ b/")})
        meta = {"id": f"{P}-{n + k}", "property": P, "files": files, "round": rnd,
                "origin": "fresh sub-agent given only the property text and its own scratch worktree",
                "needs_to_manifest": notes.strip()[:1500],
                "confirmed": {"base": head, "how": "scratch worktree at the base commit: demo.py exits 0 without the patch and 1 with it; the pinned test suite "
                              "(pytest -q tests) passes with the patch applied", "result": line[-1].strip()},
                "checks": {}}
        if os.path.exists(dst + "/meta.json"):
            meta["checks"] = json.load(open(dst + "/meta.json")).get("checks", {})
        json.dump(meta, open(dst + "/meta.json", "w"), indent=1)
        print("imported", dst)
