#!/opt/veriftools/pyvenv/bin/python
"""validates MANIFEST.json and every evidence file against the schemas"""
import json, jsonschema, glob, sys
ok = True
def v(path, schema):
    global ok
    try:
        jsonschema.validate(json.load(open(path)), json.load(open(schema)))
    except Exception as e:
        ok = False
        print("INVALID", path, str(e)[:300])
v('/verif/MANIFEST.json', '/root/.vp/MANIFEST.schema.json')
for f in sorted(glob.glob('/verif/evidence/*.json')):
    v(f, '/root/.vp/EVIDENCE.schema.json')
print("all valid" if ok else "problems")
sys.exit(0 if ok else 1)
