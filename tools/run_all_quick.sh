#!/bin/bash
# runs every claimed property's quick check against /repo, one after the other; summary lines to stdout
cd /verif
for p in $(/venv/bin/python -c "import json;print(' '.join(c['property_id'] for c in json.load(open('MANIFEST.json'))['checks']))"); do
  s=$(date +%s)
  ./check $p --tier quick > /tmp/quick_$p.log 2>&1
  rc=$?
  echo "$p rc=$rc $(( $(date +%s) - s ))s :: $(grep -E "^$p \[" /tmp/quick_$p.log | tail -1)"
  grep -E "^VIOLATION|harness-error|^  obligation=" /tmp/quick_$p.log | head -6
done
