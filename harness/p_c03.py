"""C03: string operations mean the same folded and solved, for every character.

fold:<op>:<lengths>   claripy's eager folding runs on SYMBOLIC concrete operands: string values are pysym string shadows (concrete length,
                      every code point 0..0x2FFFF symbolic), index operands are symbolic 64-bit values; the real claripy constructors,
                      Base.__new__ folding, the backend_concrete/strings.py kernels (re-compiled from the current source, see strglue) and the
                      generic Backend._call dispatch (==, !=) are executed.  Per explored path Z3 (sequence theory, lengths fixed) decides
                      folded result == SMT-LIB operation (as claripy's own solver reading takes the 64-bit operands: unsigned) for all code
                      points and index values.
z3:<op>               BackendZ3's translation of the operation over StringS / BVS leaves against an independently built Z3 term (lengths <= 3).
lit:<k>               a string CONSTANT reaches the solver as exactly the characters written: boundary literals (NUL, backslash, text that looks
                      like a Z3 escape sequence, quotes, newline, non-ASCII, astral); Z3 decides equality with the code-point-built sequence.
"""
from __future__ import annotations

import fnmatch
import itertools

import z3

from . import common, symrun
from .symrun import Fail

# op -> (string operand count, index operand positions)
OPS = {
    "StrConcat": ("ss", "s"), "StrSubstr": ("iis", "s"), "StrReplace": ("sss", "s"), "StrLen": ("s", "b"), "StrContains": ("ss", "p"),
    "StrPrefixOf": ("ss", "p"), "StrSuffixOf": ("ss", "p"), "StrIndexOf": ("ssi", "b"), "StrToInt": ("s", "b"), "IntToStr": ("i", "s"),
    "__eq__": ("ss", "p"), "__ne__": ("ss", "p"), "eq-annotated": ("ss", "p"), "ne-annotated": ("ss", "p"), "StrConcat3": ("sss", "s"),
}


def small(bv, L):
    """Int term min(unsigned value of bv, L + 1), by case analysis on the bit-vector (no bv2int: Z3 does not decide string queries that mix
    a symbolic bv2int with sequence operations).  SMT-LIB's substr / indexof only depend on this clamped value for a string of length L
    (lemma:saturate, proved by Z3 on every run)."""
    t = z3.IntVal(L + 1)
    for k in range(L, -1, -1):
        t = z3.If(bv == k, z3.IntVal(k), t)
    return t


def small_bv(r, lo, hi):
    """64-bit term of an Int term known to lie in lo..hi (int2bv by case analysis)"""
    t = z3.BitVecVal(hi, 64)
    for k in range(hi - 1, lo - 1, -1):
        t = z3.If(r == k, z3.BitVecVal(k, 64), t)
    return t


def to_int_def(cs):
    """SMT-LIB str.to_int on a string given by its code point terms, as a 64-bit value: -1 unless non-empty and all characters are
    ASCII digits, else the decimal value (validated against Z3's str.to_int on a grid of ground strings: lemma:toint)"""
    if not cs:
        return z3.BitVecVal(-1, 64)
    ok = z3.And(*[z3.And(z3.UGE(c, 48), z3.ULE(c, 57)) for c in cs])
    v = z3.BitVecVal(0, 64)
    for c in cs:
        v = v * 10 + z3.ZeroExt(64 - c.size(), c) - 48
    return z3.If(ok, v, z3.BitVecVal(-1, 64))


def from_int_def(i, max_digits=4):
    """SMT-LIB str.from_int of the unsigned value of the 64-bit term i, for values below 10^max_digits (validated on ground values)"""
    lo = z3.Extract(17, 0, i)   # the value is below 10^4 where the definition is used

    def digits(k):
        us = []
        for j in range(k - 1, -1, -1):
            d = z3.URem(z3.UDiv(lo, z3.BitVecVal(10 ** j, 18)), z3.BitVecVal(10, 18))
            us.append(z3.Unit(z3.CharFromBv(d + 48)))
        return us[0] if len(us) == 1 else z3.Concat(*us)

    t = digits(max_digits)
    for k in range(max_digits - 1, 0, -1):
        t = z3.If(z3.ULT(i, 10 ** k), digits(k), t)
    return t


def reference(op, S, I, chars=None, lens=None):
    """independent Z3 term; S: sequence terms of the string operands in order, I: 64-bit terms of the index operands in order;
    chars / lens: code point terms and lengths of the string operands (fold leg) or None (translation leg: plain bv2int / int2bv)"""
    sym = chars is None
    if op == "StrConcat":
        return z3.Concat(S[0], S[1])
    if op == "StrConcat3":
        return z3.Concat(S[0], S[1], S[2])
    if op == "StrSubstr":
        if sym:
            return z3.SubString(S[0], z3.BV2Int(I[0]), z3.BV2Int(I[1]))
        return z3.SubString(S[0], small(I[0], lens[0]), small(I[1], lens[0]))
    if op == "StrReplace":
        return z3.Replace(S[0], S[1], S[2])
    if op == "StrLen":
        return z3.Int2BV(z3.Length(S[0]), 64) if sym else z3.BitVecVal(lens[0], 64)
    if op == "StrContains":
        return z3.Contains(S[0], S[1])
    if op == "StrPrefixOf":
        return z3.PrefixOf(S[0], S[1])
    if op == "StrSuffixOf":
        return z3.SuffixOf(S[0], S[1])
    if op == "StrIndexOf":
        if sym:
            return z3.Int2BV(z3.IndexOf(S[0], S[1], z3.BV2Int(I[0])), 64)
        return small_bv(z3.IndexOf(S[0], S[1], small(I[0], lens[0])), -1, lens[0])
    if op == "StrToInt":
        return z3.Int2BV(z3.StrToInt(S[0]), 64) if sym else to_int_def(chars[0])
    if op == "IntToStr":
        return z3.IntToStr(z3.BV2Int(I[0])) if sym else from_int_def(I[0])
    if op in ("__eq__", "eq-annotated"):
        return S[0] == S[1]
    if op in ("__ne__", "ne-annotated"):
        return S[0] != S[1]
    raise ValueError(op)


def lemmas(L):
    """the facts the fold-leg references rely on, decided by Z3: returns None or a description of the first one not proved"""
    def seq(n, name):
        cs = [z3.BitVec(f"{name}{j}", 18) for j in range(n)]
        if not cs:
            return z3.Empty(z3.StringSort()), cs
        us = [z3.Unit(z3.CharFromBv(c)) for c in cs]
        return (us[0] if len(us) == 1 else z3.Concat(*us)), cs

    i, n = z3.Ints("lem_i lem_n")

    def mn(x, k):
        return z3.If(x > k, k + 1, x)

    for k in range(L + 1):
        s, _ = seq(k, "la")
        sol = z3.Solver()
        sol.set("timeout", 30000)
        if sol.check(i >= 0, n >= 0, z3.SubString(s, i, n) != z3.SubString(s, mn(i, k), mn(n, k))) != z3.unsat:
            return f"substr saturation, length {k}"
        for m in range(L + 1):
            t, _ = seq(m, "lb")
            r = z3.IndexOf(s, t, i)
            if sol.check(i >= 0, z3.Or(r != z3.IndexOf(s, t, mn(i, k)), r < -1, r > k)) != z3.unsat:
                return f"indexof saturation / range, lengths {k},{m}"
    # definitional str.to_int / str.from_int against Z3 on ground strings
    alphabet = ["0", "5", "9", "a", "-", "+", " ", "_", "\u0663", "\x00", "/", ":"]
    import itertools as it

    grid = [""] + ["".join(p) for k in (1, 2) for p in it.product(alphabet, repeat=k)] + ["123", "007", "12a", "999", "1_0", " 12"]
    for g in grid:
        want = z3.simplify(z3.StrToInt(code_points_seq(g)))
        got = z3.simplify(to_int_def([z3.BitVecVal(ord(c), 18) for c in g]))
        if not z3.is_int_value(want) or got.as_signed_long() != want.as_long():
            return f"str.to_int definition differs from Z3 on {g!r}: {got} vs {want}"
    for v in [0, 1, 9, 10, 11, 99, 100, 101, 999, 1000, 1234, 9999]:
        want = z3.simplify(z3.IntToStr(z3.IntVal(v)))
        sol = z3.Solver()
        sol.set("timeout", 30000)
        if sol.check(from_int_def(z3.BitVecVal(v, 64)) != want) != z3.unsat:
            return f"str.from_int definition differs from Z3 on {v}"
    return None


def _annot(cl):
    class Tag(cl.Annotation):
        eliminatable = False
        relocatable = True

        def __init__(self, n):
            self.n = n

        def __hash__(self):
            return hash(("Tag", self.n))

        def __eq__(self, o):
            return isinstance(o, Tag) and o.n == self.n

    return Tag


def apply_op(cl, op, S, I):
    """the claripy expression; S: String ASTs, I: BV64 ASTs, in the order of the signature's s / i letters"""
    if op == "StrConcat":
        return cl.StrConcat(S[0], S[1])
    if op == "StrConcat3":
        return cl.StrConcat(S[0], S[1], S[2])
    if op == "StrSubstr":
        return cl.StrSubstr(I[0], I[1], S[0])
    if op == "StrReplace":
        return cl.StrReplace(S[0], S[1], S[2])
    if op == "StrLen":
        return cl.StrLen(S[0])
    if op == "StrContains":
        return cl.StrContains(S[0], S[1])
    if op == "StrPrefixOf":
        return cl.StrPrefixOf(S[0], S[1])
    if op == "StrSuffixOf":
        return cl.StrSuffixOf(S[0], S[1])
    if op == "StrIndexOf":
        return cl.StrIndexOf(S[0], S[1], I[0])
    if op == "StrToInt":
        return cl.StrToInt(S[0])
    if op == "IntToStr":
        return cl.IntToStr(I[0])
    if op == "__eq__":
        return S[0] == S[1]
    if op == "__ne__":
        return S[0] != S[1]
    if op in ("eq-annotated", "ne-annotated"):
        Tag = _annot(cl)
        a, b = S[0].annotate(Tag(1)), S[1].annotate(Tag(2))
        return (a == b) if op == "eq-annotated" else (a != b)
    raise ValueError(op)


def obligations(tier):
    quick = tier == "quick"
    L = 2 if quick else 3
    out = []
    for op, (sig, _) in OPS.items():
        ns = sig.count("s")
        # operand lengths: up to 3 (quick) / 4 (thorough) for one or two string operands, up to 2 / 3 for three
        Lop = (L if ns >= 3 else L + 1)
        lens = list(itertools.product(range(Lop + 1), repeat=ns)) if ns else [()]
        if op == "StrReplace" and not quick:
            lens = [l for l in lens if l[1] <= 2 and l[2] <= 2]
        if op == "StrConcat3":
            lens = [l for l in lens if sum(l) <= 4]
        for l in lens:
            out.append((f"fold:{op}:{','.join(map(str, l)) or '-'}", {"leg": "fold", "op": op, "lens": list(l)}))
    for op in OPS:
        if op.endswith("annotated") or op == "StrConcat3":
            continue
        out.append((f"z3:{op}", {"leg": "z3", "op": op}))
    for k in range(len(LITS)):
        out.append((f"lit:{k}", {"leg": "lit", "k": k}))
    for k in range(len(INTS)):
        out.append((f"conc:IntToStr:{k}", {"leg": "conc", "k": k}))
    for op, (sig, _) in OPS.items():
        if "i" in sig:
            for name, w in (("zero", 0), ("top-bit", 1 << 55), ("all-ones", (1 << 56) - 1), ("below-top", (1 << 55) - 1), ("bit32", 1 << 24)):
                out.append((f"z3:{op}:window-{name}", {"leg": "z3", "op": op, "window": w}))
    out.append(("lemma:references", {"leg": "lemma", "L": L + 1}))
    return out


INTS = [0, 9, 10, 99, 100, 9999, 10000, 12345678901234567890, 2 ** 63 - 1, 2 ** 63, 2 ** 64 - 1, 2 ** 32, 10 ** 19]


LITS = ["", "a", "\x00", "\x00z", "\\", "\\\\", "\\u{48}", "\\x41", "\\u0041", "\\n", "\n", "\t\r", '"', '""', "'", "é", "\xff", "Ā", "中", "\U0001F600",
        "a\U0001F600b\x00", "\\u{1F600}", "\\u{", "\\u{}", "\\u{zz}", " ", "\x7f", "퟿", "", "\U0002FFFF", "(", ".*", "a.b", "-5", "٣", "%s", "{0}"]


def run_obligation(oid, params, tier):
    leg = params["leg"]
    if leg == "fold":
        return run_fold(oid, params, tier)
    if leg == "z3":
        return run_z3(oid, params, tier)
    if leg == "lemma":
        res = common.result(oid, "holds")
        res["paths"] = 1
        d = lemmas(params["L"])
        if d:
            res["status"] = "error"
            res["detail"] = "reference lemma not proved: " + d
        return res
    if leg == "conc":
        return run_conc(oid, params, tier)
    return run_lit(oid, params, tier)


def _conc_one(claripy, v):
    r = claripy.IntToStr(claripy.BVV(v, 64))
    if r.op != "StringV":
        return f"IntToStr({v}) did not fold"
    want = z3.simplify(z3.IntToStr(z3.IntVal(v)))
    s = z3.Solver()
    s.set("timeout", 20000)
    if s.check(code_points_seq(r.args[0]) != want) != z3.unsat:
        return f"IntToStr({v}) folds to {r.args[0]!r}, SMT-LIB value {want}"
    back = claripy.StrToInt(r)
    if back.op != "BVV" or back.args[0] != v:
        return f"StrToInt(IntToStr({v})) folds to {back!r:.60}"
    return None


def run_conc(oid, p, tier):
    import claripy

    res = common.result(oid, "holds")
    res["paths"] = 1
    d = _conc_one(claripy, INTS[p["k"]])
    if d:
        res["status"] = "violation"
        res["detail"] = d
        res["cex"] = [{"harness": "harness.p_c03", "params": p, "vals": {}, "obligation": oid, "detail": d[:300]}]
    return res


def code_points_seq(s):
    if not s:
        return z3.Empty(z3.StringSort())
    us = [z3.Unit(z3.CharVal(ord(c))) for c in s]
    return us[0] if len(us) == 1 else z3.Concat(*us)


def run_lit(oid, p, tier):
    import claripy

    res = common.result(oid, "holds")
    res["paths"] = 1
    lit = LITS[p["k"]]
    res["sample"] = {"obligation": oid, "literal": repr(lit)}
    d = _lit_one(claripy, lit)
    if d:
        res["status"] = "violation"
        res["detail"] = d
        res["cex"] = [{"harness": "harness.p_c03", "params": p, "vals": {}, "obligation": oid, "detail": d[:300]}]
    return res


def _lit_one(claripy, lit):
    try:
        t = claripy.backends.z3.convert(claripy.StringV(lit))
    except Exception as ex:  # noqa: BLE001
        return f"translating StringV({lit!r}) raised {type(ex).__name__}: {str(ex)[:160]}"
    s = z3.Solver()
    s.set("timeout", 20000)
    r = s.check(t != code_points_seq(lit))
    if r == z3.unsat:
        return None
    return f"StringV({lit!r}) reaches Z3 as {t.sexpr()[:80]}, which is not the sequence of the code points {[ord(c) for c in lit]}" + ("" if r == z3.sat else " (undecided)")


def run_z3(oid, p, tier):
    import claripy

    res = common.result(oid, "holds")
    res["paths"] = 1
    op = p["op"]
    sig, _ = OPS[op]
    names = ["sa", "sb", "sc"]
    S = [claripy.StringS(names[i], explicit_name=True) for i in range(sig.count("s"))]
    I = [claripy.BVS(f"bi{i}", 64, explicit_name=True) for i in range(sig.count("i"))]
    zS = [z3.String(names[i]) for i in range(sig.count("s"))]
    zI = [z3.BitVec(f"bi{i}", 64) for i in range(sig.count("i"))]
    try:
        e = apply_op(claripy, op, S, I)
        got = claripy.backends.z3.convert(e)
    except Exception as ex:  # noqa: BLE001
        res["status"] = "violation"
        res["detail"] = f"building / translating {op} raised {type(ex).__name__}: {str(ex)[:200]}"
        res["cex"] = [{"harness": "harness.p_c03", "params": p, "vals": {}, "obligation": oid, "detail": res["detail"]}]
        return res
    want = reference(op, zS, zI)
    res["sample"] = {"obligation": oid, "expr": repr(e)[:160], "z3": got.sexpr()[:160]}
    if got.eq(want):
        return res
    s = z3.Solver()
    s.set("timeout", 20000 if tier == "quick" else 120000)
    for v in zS:
        s.add(z3.Length(v) <= 3)
    if p.get("window") is not None:
        # index / integer operands in a window of 2**8 values around a boundary of the 64-bit range (bv2int on a free 64-bit operand is
        # often 'unknown'; inside a window Z3 decides it): the high 56 bits are fixed, the low 8 are free
        for v in zI:
            s.add(z3.Extract(63, 8, v) == z3.BitVecVal(p["window"], 56))
    r = s.check(got != want)
    if r == z3.unsat:
        return res
    if r == z3.unknown:
        res["status"] = "inconclusive"
        res["detail"] = "unknown: translation equivalence"
        res["inconclusive"] = [res["detail"]]
        return res
    res["status"] = "violation"
    res["detail"] = f"Z3 translation of {e!r:.120} is {got.sexpr()[:100]}, reference {want.sexpr()[:100]}"
    res["cex"] = [{"harness": "harness.p_c03", "params": p, "vals": {}, "obligation": oid, "detail": res["detail"][:300]}]
    return res


def run_fold(oid, p, tier):
    import claripy
    from pysym import engine as E
    from pysym import glue
    from pysym.sstr import SStr

    from . import strglue

    strglue.install()
    op, lens = p["op"], p["lens"]
    sig, _ = OPS[op]
    ni = sig.count("i")
    zI = [z3.BitVec(f"bi{i}", 64) for i in range(ni)]
    names = ["sa", "sb", "sc"]
    zconsts = {f"bi{i}": zI[i] for i in range(ni)}
    chars = []
    for k, n in enumerate(lens):
        cs = [z3.BitVec(f"{names[k]}_{j}", 18) for j in range(n)]
        chars.append(cs)
        for c in cs:
            zconsts[str(c)] = c
    known = common.known_for(common.load_known("C03"), oid)

    def seq_of(cs):
        if not cs:
            return z3.Empty(z3.StringSort())
        us = [z3.Unit(z3.CharFromBv(c)) for c in cs]
        return us[0] if len(us) == 1 else z3.Concat(*us)

    want = reference(op, [seq_of(cs) for cs in chars], zI, chars, lens)
    pre = z3.ULT(zI[0], 10000) if op == "IntToStr" else None

    def build():
        S = [claripy.StringV(SStr([E.SInt.unsigned(c) for c in cs])) for cs in chars]
        I = [glue.BVV(glue.mk(x), 64) for x in zI]
        return apply_op(claripy, op, S, I)

    def check(path, s, out):
        sampled = any(r[0] == "sampled" for r in path.resources)
        if path.kind == "exc":
            ex = path.result
            return [Fail("exception", f"folding {op} raised {type(ex).__name__}: {str(ex)[:160]}", None, known_key="exc:" + type(ex).__name__)]
        r = out
        if not isinstance(r, claripy.ast.Base):
            return [Fail("structure", f"result is {type(r).__name__}")]
        if r.op not in ("StringV", "BVV", "BoolV"):
            return [Fail("not-folded", f"concrete operands did not fold: {r!r:.100}", None, known_key="not-folded")]
        got = claripy.backends.z3.convert(r)
        if got.sort() != want.sort():
            return [Fail("sort", f"folded result has sort {got.sort()}, the operation has sort {want.sort()}")]
        fails = [Fail("fold", f"folded result of {op} differs from the SMT-LIB value of the operation", got != want if pre is None else z3.And(pre, got != want), known_key="fold")]
        if sampled:
            fails.append(Fail("unknown", "regular expression built from symbolic characters: one solver-chosen representative only"))
        return fails

    def make_case(vals, f):
        return {"harness": "harness.p_c03", "params": p, "vals": {k: int(v) for k, v in vals.items()}, "obligation": oid, "detail": f.detail[:300]}

    return symrun.run(oid, width=80, zconsts=zconsts, build=build, check=check, make_case=make_case, max_paths=3000 if tier == "quick" else 30000,
                      query_ms=20000 if tier == "quick" else 120000, known=known, sample={"obligation": oid})


def replay(case):
    """native: the operands of the counterexample as plain Python strings / ints; the folded result is compared with Z3's evaluation of the
    reference on literals built from the code points"""
    import claripy

    p = case["params"]
    if p["leg"] == "lit":
        d = _lit_one(claripy, LITS[p["k"]])
        return {"violated": bool(d), "detail": d or "literal transported exactly"}
    if p["leg"] == "conc":
        d = _conc_one(claripy, INTS[p["k"]])
        return {"violated": bool(d), "detail": d or "agrees"}
    if p["leg"] == "z3":
        r = run_z3(case["obligation"], p, "thorough")
        return {"violated": r["status"] == "violation", "detail": r.get("detail", "")}
    op, lens, vals = p["op"], p["lens"], case["vals"]
    sig, _ = OPS[op]
    names = ["sa", "sb", "sc"]
    strs = ["".join(chr(int(vals.get(f"{names[k]}_{j}", 0))) for j in range(n)) for k, n in enumerate(lens)]
    idx = [int(vals.get(f"bi{i}", 0)) for i in range(sig.count("i"))]
    desc = f"{op}({', '.join([repr(s) for s in strs] + [hex(i) for i in idx])})"
    try:
        r = apply_op(claripy, op, [claripy.StringV(s) for s in strs], [claripy.BVV(i, 64) for i in idx])
    except Exception as ex:  # noqa: BLE001
        return {"violated": True, "detail": f"{desc} raised {type(ex).__name__}: {str(ex)[:160]}"}
    if op == "IntToStr" and idx[0] >= 10000:
        return {"violated": False, "detail": "value outside the 4-digit model"}
    # ground: Z3's own operations with integer numerals (no definitional reference involved)
    want = z3.simplify(reference(op, [code_points_seq(s) for s in strs], [z3.BitVecVal(i, 64) for i in idx]))
    if r.op not in ("StringV", "BVV", "BoolV"):
        return {"violated": False, "detail": f"{desc} did not fold"}
    if r.op == "StringV":
        got = code_points_seq(r.args[0])
    elif r.op == "BVV":
        got = z3.BitVecVal(r.args[0], 64)
    else:
        got = z3.BoolVal(r.args[0])
    s = z3.Solver()
    s.set("timeout", 60000)
    q = s.check(got != want)
    return {"violated": q == z3.sat, "detail": f"{desc} folds to {r!r:.80}; SMT-LIB value {want.sexpr()[:80]}" + (" (undecided)" if q == z3.unknown else "")}


FUNCTIONS = ["claripy.backends.backend_concrete.strings (StrConcat, StrSubstr, StrReplace, StrLen, StrContains, StrPrefixOf, StrSuffixOf, StrIndexOf, StrToInt, IntToStr)",
             "claripy.ast.strings (constructors) / claripy.ast.base.Base.__new__ (eager folding)", "claripy.backends.backend.Backend._call (== / != dispatch)",
             "claripy.backends.backend_concrete.BackendConcrete._abstract / convert", "claripy.backends.backend_z3.BackendZ3.StringV / _op_raw_Str* / _op_raw_IntToStr"]


def check(prop, tier, cap, only=None, procs=None, list_only=False, t0=None):
    from . import strglue

    obs = obligations(tier)
    if only:
        obs = [o for o in obs if fnmatch.fnmatchcase(o[0], only)]
    if list_only:
        for o, _ in obs:
            print(o)
        return 0
    results = common.run_pool("harness.p_c03", obs, tier, cap, procs=procs)
    quick = tier == "quick"
    return common.finish(
        prop, tier, "translation_validation", results, t0, functions=FUNCTIONS,
        bounds={"string_length": "every operand length 0..3 (quick) / 0..4 (thorough) for operations with one or two string operands, 0..2 / 0..3 for three; one obligation per length combination", "code_points": "0..0x2FFFF (Z3's character sort), all symbolic",
                "index_operands": "every 64-bit value (symbolic)", "int_to_str": "values with at most 4 decimal digits", "literals": f"{len(LITS)} boundary literals",
                "outside": "operation trees deeper than one operation (StrConcat of three operands included); code points above 0x2FFFF; StrIsDigit (no solver translation exists)"},
        assumptions=["string values are shadows of concrete length with symbolic code points; index operands are symbolic 64-bit constants",
                     "the solver reading of the 64-bit operands is claripy's own (unsigned, bv2int)", "shims: " + "; ".join(strglue.SHIMS)],
        rule="one obligation = one operation x operand lengths; folding runs on symbolic characters, every path is explored and Z3's sequence theory decides equality "
             "with the SMT-LIB term for all code points and index values",
        trusted_base=["z3 4.13.0 sequence / string theory", "pysym string and int shadows", "shims listed in assumptions"],
    )
