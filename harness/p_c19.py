"""C19 — the GC guard (_enter_z3/_exit_z3/condom) under every interleaving.

The encoding is generated on every run from inspect.getsource of the real functions: a small Python-AST
translator turns each function into a loop-free instruction list (one instruction per executed source line);
per-thread programs are unfolded into events with integer clocks; program order and the reads-from relation of
the shared variables (counter, flag, GC state, lock) are constraints; a thread may stop after any prefix.  Z3
decides whether any schedule violates one of the three safety predicates.  A satisfying assignment is replayed
on the real functions with real threads and a line-level scheduler.
"""
from __future__ import annotations

import ast
import inspect
import itertools
import sys
import textwrap
import threading
import time

import z3

from . import common

SHARED = {"_active_z3_calls": "int", "_gc_was_enabled": "bool", "gc": "bool", "lock": "int"}


class CannotEncode(Exception):
    pass


# ---------------------------------------------------------------------------------------------------------
# translator


def compile_fn(src):
    """-> list of instrs [kind, ..., lineno]; line granularity: one simple statement / one test per step."""
    f = ast.parse(textwrap.dedent(src)).body[0]
    code = []

    def emit(*i, line):
        code.append([*i, line])
        return len(code) - 1

    def stmts(body, locks):
        for s in body:
            if isinstance(s, (ast.Global, ast.Pass)):
                continue
            if isinstance(s, ast.Expr) and isinstance(s.value, ast.Constant):
                continue  # docstring
            if isinstance(s, ast.With):
                if len(s.items) != 1 or not isinstance(s.items[0].context_expr, ast.Name):
                    raise CannotEncode("with-item: " + ast.unparse(s.items[0]))
                lk = s.items[0].context_expr.id
                emit("acquire", lk, line=s.lineno)
                stmts(s.body, [*locks, (lk, s.lineno)])
                emit("release", lk, line=s.lineno)
            elif isinstance(s, ast.If):
                j = emit("if", s.test, None, line=s.lineno)
                stmts(s.body, locks)
                if s.orelse:
                    g = emit("goto", None, line=None)
                    code[j][2] = len(code)
                    stmts(s.orelse, locks)
                    code[g][1] = len(code)
                else:
                    code[j][2] = len(code)
            elif isinstance(s, ast.Assign):
                if len(s.targets) != 1 or not isinstance(s.targets[0], ast.Name):
                    raise CannotEncode("assignment target: " + ast.unparse(s))
                emit("assign", s.targets[0].id, s.value, line=s.lineno)
            elif isinstance(s, ast.AugAssign) and isinstance(s.target, ast.Name):
                emit("assign", s.target.id, ast.BinOp(left=ast.Name(id=s.target.id), op=s.op, right=s.value), line=s.lineno)
            elif isinstance(s, ast.Expr) and isinstance(s.value, ast.Call):
                emit("call", ast.unparse(s.value.func), line=s.lineno)
            elif isinstance(s, ast.Return) and s.value is None:
                emit("retline", line=s.lineno)
                for lk, ln in reversed(locks):
                    emit("release", lk, line=ln)
                emit("ret", line=None)
            else:
                raise CannotEncode(ast.dump(s)[:200])

    stmts(f.body, [])
    emit("ret", line=None)
    return code


def names(e):
    out = []
    for n in ast.walk(e):
        if isinstance(n, ast.Name) and n.id in SHARED:
            out.append(n.id)
        if isinstance(n, ast.Call):
            fn = ast.unparse(n.func)
            if fn == "gc.isenabled":
                out.append("gc")
            elif fn not in ("gc.isenabled",):
                raise CannotEncode("call in expression: " + fn)
    return list(dict.fromkeys(out))


def local_names(ins, loc):
    """names of thread-local variables read by an instruction"""
    e = ins[1] if ins[0] == "if" else ins[2] if ins[0] == "assign" else None
    if e is None:
        return []
    return list(dict.fromkeys(n.id for n in ast.walk(e) if isinstance(n, ast.Name) and n.id in loc))


def _type_of(e):
    if isinstance(e, (ast.Compare, ast.BoolOp)) or (isinstance(e, ast.UnaryOp) and isinstance(e.op, ast.Not)):
        return "bool"
    if isinstance(e, ast.Constant) and isinstance(e.value, bool):
        return "bool"
    if isinstance(e, ast.Call) and ast.unparse(e.func) == "gc.isenabled":
        return "bool"
    if isinstance(e, ast.Name) and SHARED.get(e.id) == "bool":
        return "bool"
    return "int"


def reads_of(ins):
    if ins[0] == "acquire":
        return ["lock"]
    if ins[0] == "if":
        return names(ins[1])
    if ins[0] == "assign":
        return names(ins[2])
    if ins[0] == "zcall":
        return ["gc"]
    return []


def ev(e, env):
    if isinstance(e, ast.Constant):
        if isinstance(e.value, bool):
            return z3.BoolVal(e.value)
        if isinstance(e.value, int):
            return z3.IntVal(e.value)
    if isinstance(e, ast.Name) and e.id in env:
        return env[e.id]
    if isinstance(e, ast.Compare) and len(e.ops) == 1:
        a, b = ev(e.left, env), ev(e.comparators[0], env)
        op = type(e.ops[0])
        tbl = {ast.Eq: lambda: a == b, ast.NotEq: lambda: a != b, ast.Lt: lambda: a < b, ast.LtE: lambda: a <= b,
               ast.Gt: lambda: a > b, ast.GtE: lambda: a >= b}
        if op in tbl:
            return tbl[op]()
    if isinstance(e, ast.BinOp) and isinstance(e.op, (ast.Add, ast.Sub)):
        a, b = ev(e.left, env), ev(e.right, env)
        return a + b if isinstance(e.op, ast.Add) else a - b
    if isinstance(e, ast.UnaryOp) and isinstance(e.op, ast.Not):
        return z3.Not(ev(e.operand, env))
    if isinstance(e, ast.BoolOp):
        vs = [ev(v, env) for v in e.values]
        return z3.And(*vs) if isinstance(e.op, ast.And) else z3.Or(*vs)
    if isinstance(e, ast.Call) and ast.unparse(e.func) == "gc.isenabled":
        return env["gc"]
    raise CannotEncode("expression: " + ast.dump(e)[:200])


def condom_words(src):
    """call word of one wrapped call on the normal path and on the path where the wrapped function raises:
    sequence over E (_enter_z3), X (_exit_z3), F (the wrapped call)."""
    f = ast.parse(textwrap.dedent(src)).body[0]
    inner = [n for n in f.body if isinstance(n, ast.FunctionDef)]
    if len(inner) != 1:
        raise CannotEncode("condom: expected one inner function")

    def calls(node):
        out = []
        for n in ast.walk(node):
            if isinstance(n, ast.Call):
                fn = ast.unparse(n.func)
                if fn == "_enter_z3":
                    out.append((n.lineno, n.col_offset, "E"))
                elif fn == "_exit_z3":
                    out.append((n.lineno, n.col_offset, "X"))
                elif fn == "f":
                    out.append((n.lineno, n.col_offset, "F"))
        return [c for _, _, c in sorted(out)]

    def walk(body, raising):
        """returns (word, raised?)"""
        w = []
        for s in body:
            if isinstance(s, ast.Try):
                bw, r = walk(s.body, raising)
                w += bw
                if r:
                    # handlers re-raise (or not) — their calls are included conservatively in order
                    for h in s.handlers:
                        w += calls(h)
                else:
                    ow, r2 = walk(s.orelse, raising)
                    w += ow
                    r = r2
                fw, _ = walk(s.finalbody, False)
                w += fw
                if r:
                    return w, True
            elif isinstance(s, ast.If):
                # both branches may run at run time (handler_installed); guard calls are only in unconditional code
                c = calls(s)
                if "E" in c or "X" in c:
                    raise CannotEncode("condom: guard call under a condition")
            else:
                for c in calls(s):
                    w.append(c)
                    if c == "F" and raising:
                        return w, True
                if isinstance(s, ast.Return):
                    return w, False  # finally blocks of enclosing try statements are added by the caller
        return w, False

    normal, _ = walk(inner[0].body, False)
    exc, _ = walk(inner[0].body, True)
    return "".join(normal), "".join(exc)


def compose(word, inner=""):
    return word.replace("F", inner)


def flatten(prog, enter, exit_):
    flat = []
    depth = 0
    inprog = []
    for ch in prog:
        if ch == "!":
            continue   # marker: this thread's (unbalanced) word runs to completion before any other thread starts
        body = enter if ch == "E" else exit_
        base = len(flat)
        for ins in body:
            ins = list(ins)
            if ins[0] == "if":
                ins[2] += base
            if ins[0] == "goto":
                ins[1] += base
            if ins[0] == "ret":
                ins = ["goto", None, None]  # patched below: jump to the end of this function body
                ins[1] = base + len(body)
            ins.append(ch)
            flat.append(ins)
            inprog.append(depth > 0)
        depth += 1 if ch == "E" else -1
        flat.append(["zcall", None, "Z"])
        inprog.append(depth > 0)
    return flat, inprog


# ---------------------------------------------------------------------------------------------------------
# partial-order encoding


def encode(progs, enter, exit_, timeout_ms, witness=False):
    s = z3.Solver()
    s.set("timeout", timeout_ms)
    gc0 = z3.Bool("gc0")
    writes = {v: [] for v in SHARED}
    types = dict(SHARED)
    init = {"_active_z3_calls": z3.IntVal(0), "_gc_was_enabled": z3.BoolVal(False), "gc": gc0, "lock": z3.IntVal(-1)}
    for v in SHARED:
        writes[v].append((z3.BoolVal(True), z3.IntVal(0), init[v]))
    reads = []
    bad = []  # (label, formula)
    clocks = []
    fin = []
    events = []  # (thread, index, ins, exec formula, clock)
    firstc, lastc = {}, {}
    for i, p in enumerate(progs):
        stray = p.startswith("!")
        flat, inprog = flatten(p, enter, exit_)
        n = len(flat)
        g = [z3.Bool(f"g_{i}_{k}") for k in range(n + 1)]
        lim = z3.Int(f"lim_{i}")
        s.add(lim >= 0, lim <= n, g[0])
        inc = {k: [] for k in range(n + 1)}
        prevc = z3.IntVal(0)
        # local variables of the guard functions (e.g. a flag read before the lock is taken): one variable per thread, written and read
        # through the same reads-from relation as the shared ones (only this thread writes it)
        loc = {}
        for ins in flat:
            if ins[0] == "assign" and ins[1] not in SHARED:
                loc[ins[1]] = _type_of(ins[2])
        for name, t in loc.items():
            key = f"{name}@{i}"
            types[key] = t
            writes[key] = [(z3.BoolVal(True), z3.IntVal(0), z3.IntVal(0) if t == "int" else z3.BoolVal(False))]
        for k, ins in enumerate(flat):
            c = z3.Int(f"c_{i}_{k}")
            clocks.append(c)
            s.add(c > prevc)
            prevc = c
            firstc.setdefault(i, c)
            lastc[i] = c
            ex = z3.And(g[k], lim > k)
            events.append((i, k, ins, ex, c))
            env = {}
            for v in reads_of(ins):
                rv = z3.Const(f"r_{i}_{k}_{v}", z3.IntSort() if SHARED[v] == "int" else z3.BoolSort())
                env[v] = rv
                reads.append((ex, c, v, rv))
            for v in local_names(ins, loc):
                rv = z3.Const(f"r_{i}_{k}_{v}", z3.IntSort() if loc[v] == "int" else z3.BoolSort())
                env[v] = rv
                reads.append((ex, c, f"{v}@{i}", rv))
            kind = ins[0]
            if kind == "acquire":
                s.add(z3.Implies(ex, env["lock"] == -1))
                writes["lock"].append((ex, c, z3.IntVal(i)))
            elif kind == "release":
                writes["lock"].append((ex, c, z3.IntVal(-1)))
            elif kind == "assign":
                val = ev(ins[2], env)
                writes[ins[1] if ins[1] in SHARED else f"{ins[1]}@{i}"].append((ex, c, val))
                if ins[1] == "_active_z3_calls":
                    bad.append(("counter negative", z3.And(ex, val < 0)))
            elif kind == "call":
                if ins[1] == "gc.disable":
                    writes["gc"].append((ex, c, z3.BoolVal(False)))
                elif ins[1] == "gc.enable":
                    writes["gc"].append((ex, c, z3.BoolVal(True)))
                elif ins[1].startswith("log."):
                    if ins[1] == "log.error" and not stray:
                        # (for a stray exit made while nothing is in progress the underflow branch is the specified behaviour)
                        bad.append(("underflow branch executed", ex))
                else:
                    raise CannotEncode("call " + ins[1])
            elif kind == "zcall":
                if inprog[k]:
                    bad.append(("gc enabled while a call is in progress", z3.And(ex, env["gc"])))
            if kind == "if":
                cond = ev(ins[1], env)
                inc[k + 1].append(z3.And(g[k], cond))
                inc[ins[2]].append(z3.And(g[k], z3.Not(cond)))
            elif kind == "goto":
                inc[ins[1]].append(g[k])
            else:
                inc[k + 1].append(g[k])
        for k in range(1, n + 1):
            s.add(g[k] == (z3.Or(*inc[k]) if inc[k] else z3.BoolVal(False)))
        fin.append(lim == n)
        if stray:
            s.add(lim == n)
    for i, p in enumerate(progs):
        if p.startswith("!"):
            for j in range(len(progs)):
                if j != i and j in firstc:
                    s.add(lastc[i] < firstc[j])
    s.add(z3.Distinct(*clocks))
    for ex, c, v, rv in reads:
        opts = []
        for wi, (wex, wc, wv) in enumerate(writes[v]):
            if wc is c:
                continue
            nobetween = [z3.Or(z3.Not(oex), oc < wc, oc >= c) for oj, (oex, oc, ov) in enumerate(writes[v])
                         if oj != wi and oc is not c]
            opts.append(z3.And(wex, wc < c, rv == wv, *nobetween))
        s.add(z3.Implies(ex, z3.Or(*opts)))

    def final(v):
        terms = []
        for wi, (wex, wc, wv) in enumerate(writes[v]):
            last = z3.And(wex, *[z3.Or(z3.Not(oex), oc <= wc) for oj, (oex, oc, ov) in enumerate(writes[v]) if oj != wi])
            terms.append((last, wv))
        return terms

    alldone = z3.And(*fin)
    bad.append(("gc state not restored after all calls returned",
                z3.And(alldone, z3.Or(*[z3.And(l, wv != gc0) for l, wv in final("gc")]))))
    bad.append(("counter not zero after all calls returned",
                z3.And(alldone, z3.Or(*[z3.And(l, wv != 0) for l, wv in final("_active_z3_calls")]))))
    if witness:
        if witness != "prefix":
            s.add(alldone)
    else:
        s.add(z3.Or(*[b for _, b in bad]))
    s.c19_finals = {"gc": final("gc"), "counter": final("_active_z3_calls")}
    s.c19_alldone = alldone
    return s, events, bad, gc0


def extract_schedule(model, events, bad, gc0):
    ex_events = []
    for i, k, ins, ex, c in events:
        if z3.is_true(model.eval(ex, model_completion=True)):
            ex_events.append((model.eval(c, model_completion=True).as_long(), i, k, ins))
    ex_events.sort()
    sched = []
    for _, i, k, ins in ex_events:
        kind = ins[0]
        if kind in ("ret", "goto"):
            continue
        line = ins[-2] if kind != "zcall" else None
        sched.append({"thread": i, "kind": kind, "line": line, "fn": ins[-1]})
    which = [lbl for lbl, b in bad if z3.is_true(model.eval(b, model_completion=True))]
    return sched, which, bool(z3.is_true(model.eval(gc0, model_completion=True)))


def model_final(model, s):
    """final GC state / counter of a model in which every thread ran to completion (else None)"""
    if not z3.is_true(model.eval(s.c19_alldone, model_completion=True)):
        return None
    out = {}
    for v, terms in s.c19_finals.items():
        for last, wv in terms:
            if z3.is_true(model.eval(last, model_completion=True)):
                val = model.eval(wv, model_completion=True)
                out[v] = bool(z3.is_true(val)) if z3.is_bool(val) else val.as_long()
                break
    return out


def witness_traces(oid, words, enter, exit_, timeout_ms, mutant=None, n=3, stats=None):
    """Translator validation: schedules chosen by Z3 from the *model* (no safety predicate asserted) that the real
    functions must follow line for line, ending in the model's final state.  Trace j: j=0 initial GC enabled, all
    threads complete; j=1 initial GC disabled, all complete; j>=2 a seed-dependent partial order over events of
    different threads and seed-dependent prefixes (dropped if Z3 says that order is infeasible)."""
    import random

    seed = int(__import__("os").environ.get("VERIF_SEED", "0"))
    out = []
    stats = stats if stats is not None else {}

    def chk(s):
        t0 = time.time()
        r = str(s.check())
        stats["queries"] = stats.get("queries", 0) + 1
        stats["solver_s"] = stats.get("solver_s", 0.0) + time.time() - t0
        return r
    for j in range(n):
        s, events, bad, gc0 = encode(words, enter, exit_, timeout_ms, witness=("prefix" if j >= 2 else True))
        rnd = random.Random(f"{seed}:{oid}:{j}")
        if j == 0:
            s.add(gc0)
        elif j == 1:
            s.add(z3.Not(gc0))
        else:
            by_thread = {}
            for i, k, ins, ex, c in events:
                by_thread.setdefault(i, []).append((ex, c))
            ths = sorted(by_thread)
            wishes = [gc0 == (rnd.random() < 0.5)]
            for i in ths:  # a seed-chosen event of every thread is executed
                wishes.append(rnd.choice(by_thread[i])[0])
            if len(ths) > 1:
                for _ in range(4):
                    a, b = rnd.sample(ths, 2)
                    (exa, ca), (exb, cb) = rnd.choice(by_thread[a]), rnd.choice(by_thread[b])
                    wishes.append(z3.And(exa, exb, ca < cb))
            for w in wishes:  # each wish is kept only if Z3 finds it feasible together with the earlier ones
                s.push()
                s.add(w)
                if chk(s) != "sat":
                    s.pop()
        if chk(s) != "sat":
            continue
        m = s.model()
        sched, which, g0 = extract_schedule(m, events, bad, gc0)
        case = {"harness": "harness.p_c19", "prop": "C19", "words": words, "schedule": sched, "gc0": g0,
                "which": which, "obligation": oid, "mode": "conformance", "expect_final": model_final(m, s),
                "trace": j}
        if mutant:
            case["mutant"] = mutant
        out.append(case)
    return out


# ---------------------------------------------------------------------------------------------------------
# obligations


def _sources(mut=None):
    import claripy.backends.backend_z3 as bz3

    src = {"enter": inspect.getsource(bz3._enter_z3), "exit": inspect.getsource(bz3._exit_z3),
           "condom": inspect.getsource(bz3.condom)}
    if mut:
        src.update(mut)
    return src


def _programs(tier):
    src = _sources()
    normal, exc = condom_words(src["condom"])
    w0 = compose(normal)
    words = {"call": w0, "nested": compose(normal, w0), "sequential": w0 + w0}
    if compose(exc) != w0:
        words["call-raises"] = compose(exc)
    names_ = list(words)
    combos = []
    for a, b in itertools.combinations_with_replacement(names_, 2):
        combos.append((a, b))
    if tier == "quick":
        combos.append(("call", "call", "call"))
        combos.append(("call", "call", "nested"))
    else:
        for t in itertools.combinations_with_replacement(names_, 3):
            combos.append(t)
    combos = [(n,) for n in names_] + combos
    return words, combos


def obligations(tier):
    words, combos = _programs(tier)
    obs = []
    for c in combos:
        obs.append(("po:" + "+".join(c), {"words": [words[n] for n in c], "names": list(c)}))
    # an unbalanced exit made while nothing is in progress (sequentially first) must leave the guard as it was: the count never goes negative
    for c in (("call",), ("call", "call"), ("nested",)):
        obs.append(("po:stray-exit-first+" + "+".join(c), {"words": ["!X"] + [words[n] for n in c], "names": ["stray-exit-first", *c]}))
    obs.append(("twin:reachability", {"words": [words["call"], words["call"]], "twin": "witness"}))
    obs.append(("twin:mutant-no-lock", {"words": [words["call"], words["call"]], "twin": "nolock"}))
    obs.append(("twin:mutant-always-enable", {"words": [words["call"], words["call"]], "twin": "always-enable"}))
    return obs


def run_obligation(oid, params, tier):
    res = common.result(oid, "holds")
    timeout_ms = 60000 if tier == "quick" else 900000
    src = _sources()
    twin = params.get("twin")
    if twin == "nolock":
        src["enter"] = src["enter"].replace("with _gc_lock:", "if True:")
        src["exit"] = src["exit"].replace("with _gc_lock:", "if True:")
    elif twin == "always-enable":
        import re

        src["exit"] = re.sub(r"if _gc_was_enabled:\s*\n(\s*)gc\.enable\(\)", r"gc.enable()", src["exit"])
    try:
        enter = compile_fn(src["enter"])
        exit_ = compile_fn(src["exit"])
        s, events, bad, gc0 = encode(params["words"], enter, exit_, timeout_ms, witness=(twin == "witness"))
    except CannotEncode as e:
        res["status"] = "error"
        res["detail"] = f"cannot encode the current source: {e}"
        return res
    t0 = time.time()
    r = s.check()
    dt = time.time() - t0
    res["queries"] = 1
    res["solver_s"] = round(dt, 3)
    res["paths"] = len(events)
    res["sample"] = {"obligation": oid, "thread_programs": params["words"], "events": len(events),
                     "verdict": str(r), "solver_s": round(dt, 2)}
    if twin:
        if twin in ("nolock", "always-enable") and (src["enter"] + src["exit"]) == (_sources()["enter"] + _sources()["exit"]):
            res["status"] = "twin_ok"  # the textual mutation does not apply to this version of the source
            res["detail"] = "mutation pattern not present in the current source; twin skipped"
            return res
        if str(r) == "sat":
            res["status"] = "twin_ok"
            sched, which, g0 = extract_schedule(s.model(), events, bad, gc0)
            case = {"harness": "harness.p_c19", "prop": "C19", "words": params["words"], "schedule": sched, "gc0": g0,
                    "which": which, "obligation": oid}
            if twin == "witness":
                case.update(mode="conformance", expect_final=model_final(s.model(), s))
            else:  # the counterexample of the mutated source must reproduce on the mutated functions
                case.update(mode="mutant-cex", mutant={"enter": src["enter"], "exit": src["exit"]})
            res["validate"] = [case]
        else:
            res["status"] = "twin_failed"
            res["detail"] = f"vacuity twin {twin} returned {r}: the encoding cannot reach a violation it must reach"
        return res
    if str(r) == "unsat":
        st = {}
        res["validate"] = witness_traces(oid, params["words"], enter, exit_, min(timeout_ms, 60000), stats=st)
        res["queries"] += st.get("queries", 0)
        res["solver_s"] = round(res["solver_s"] + st.get("solver_s", 0.0), 3)
        res["sample"]["witness_queries"] = st.get("queries", 0)
    if str(r) == "unknown":
        res["status"] = "inconclusive"
        res["inconclusive"] = [f"solver unknown after {dt:.0f}s ({s.reason_unknown()})"]
        res["detail"] = res["inconclusive"][0]
    elif str(r) == "sat":
        sched, which, g0 = extract_schedule(s.model(), events, bad, gc0)
        res["status"] = "violation"
        res["detail"] = "; ".join(which)
        res["cex"] = [{"harness": "harness.p_c19", "prop": "C19", "words": params["words"], "schedule": sched,
                       "gc0": g0, "which": which, "obligation": oid}]
    return res


# ---------------------------------------------------------------------------------------------------------
# replay on the real functions (real threads, line-level scheduler)


class _ModelGC:
    def __init__(self, enabled):
        self.enabled = enabled

    def isenabled(self):
        return self.enabled

    def enable(self):
        self.enabled = True

    def disable(self):
        self.enabled = False


class _Sched:
    def __init__(self):
        self.turn = threading.Condition()
        self.current = None
        self.waiting = {}
        self.done = set()

    def at_point(self, tid, desc):
        with self.turn:
            self.waiting[tid] = desc
            self.turn.notify_all()
            if not self.turn.wait_for(lambda: self.current == tid, timeout=30):
                raise SystemExit
            self.current = None
            del self.waiting[tid]

    def finish(self, tid):
        with self.turn:
            self.done.add(tid)
            self.turn.notify_all()

    def peek(self, tid):
        with self.turn:
            self.turn.wait_for(lambda: tid in self.waiting or tid in self.done, timeout=10)
            return self.waiting.get(tid)

    def step(self, tid):
        with self.turn:
            if not self.turn.wait_for(lambda: tid in self.waiting or tid in self.done, timeout=10):
                return None
            if tid in self.done:
                return None
            desc = self.waiting[tid]
            self.current = tid
            self.turn.notify_all()
            self.turn.wait_for(lambda: self.current is None and (tid in self.waiting or tid in self.done), timeout=10)
            return desc


class _Lock:
    def __init__(self, sched):
        self.s = sched
        self.owner = None

    def __enter__(self):
        tid = threading.current_thread().name
        while self.owner is not None:
            self.s.at_point(tid, ("blocked", None))
        self.owner = tid

    def __exit__(self, *a):
        self.owner = None


class _Log:
    def __init__(self):
        self.errors = 0

    def error(self, *a, **k):
        self.errors += 1

    def __getattr__(self, k):
        return lambda *a, **kw: None


def replay(case):
    import claripy.backends.backend_z3 as bz3

    words = case["words"]
    schedule = case["schedule"]
    sched = _Sched()
    mgc = _ModelGC(case["gc0"])
    lock = _Lock(sched)
    mlog = _Log()
    saved = (bz3._gc_lock, bz3.gc, bz3.log, bz3._active_z3_calls, bz3._gc_was_enabled)
    saved_fns = (bz3._enter_z3, bz3._exit_z3)
    if case.get("mutant"):  # vacuity twins: the mutated source is compiled into the real module's namespace
        for key, name in (("enter", "_enter_z3"), ("exit", "_exit_z3")):
            exec(compile(textwrap.dedent(case["mutant"][key]), f"<mutant {name}>", "exec"), bz3.__dict__)
    bz3._gc_lock, bz3.gc, bz3.log = lock, mgc, mlog
    bz3._active_z3_calls = 0
    bz3._gc_was_enabled = False
    targets = {bz3._enter_z3.__code__, bz3._exit_z3.__code__}
    first = {bz3._enter_z3.__code__: bz3._enter_z3.__code__.co_firstlineno,
             bz3._exit_z3.__code__: bz3._exit_z3.__code__.co_firstlineno}
    obs = []
    negative = []

    def worker(tid, word):
        def tracer(frame, event, arg):
            if frame.f_code not in targets:
                return None

            def local(frame, event, arg):
                if event == "line":
                    rel = frame.f_lineno - first[frame.f_code] + 1
                    sched.at_point(tid, ("line", rel))
                    if bz3._active_z3_calls < 0:
                        negative.append(tid)
                return local

            return local

        sys.settrace(tracer)
        try:
            depth = 0
            for ch in word.replace("!", ""):
                if ch == "E":
                    bz3._enter_z3()
                    depth += 1
                else:
                    bz3._exit_z3()
                    depth -= 1
                if bz3._active_z3_calls < 0:
                    negative.append(tid)
                sched.at_point(tid, ("zcall", None))
                if depth > 0:
                    obs.append((tid, mgc.enabled))
        except SystemExit:
            pass
        finally:
            sys.settrace(None)
            sched.finish(tid)

    ths = [threading.Thread(target=worker, args=(str(i), w), name=str(i), daemon=True) for i, w in enumerate(words)]
    for t in ths:
        t.start()
    mismatch = None
    for item in schedule:
        tid = str(item["thread"])
        want = ("zcall", None) if item["kind"] == "zcall" else ("line", item["line"])
        got = sched.peek(tid)
        if got is None or got[0] == "blocked" or (want[0] != got[0]) or (want[0] == "line" and want[1] != got[1]):
            mismatch = f"thread {tid}: model expects {want}, real code is at {got}"
            break
        sched.step(tid)
    executed_all = mismatch is None and len(schedule) > 0
    gc_seen_enabled = [o for o in obs if o[1]]
    under = mlog.errors > sum(w.count("X") for w in words if w.startswith("!"))   # a stray exit at count 0 logs the underflow by design
    neg = bool(negative) or bz3._active_z3_calls < 0
    # drain (round-robin; skip if every remaining thread is blocked)
    for _ in range(400):
        alive = [str(i) for i in range(len(words)) if str(i) not in sched.done]
        if not alive:
            break
        for tid in alive:
            sched.step(tid)
    all_done = len(sched.done) == len(words)
    final_gc, final_cnt = mgc.enabled, bz3._active_z3_calls
    bz3._gc_lock, bz3.gc, bz3.log, bz3._active_z3_calls, bz3._gc_was_enabled = saved
    bz3._enter_z3, bz3._exit_z3 = saved_fns
    if mismatch:
        return {"violated": False, "error": True, "detail": "replay diverged from the model: " + mismatch}
    which = case.get("which", [])
    viol = []
    if gc_seen_enabled:
        viol.append(f"GC enabled while a call was in progress (threads {[o[0] for o in gc_seen_enabled]})")
    if under:
        viol.append("GC guard underflow branch executed")
    if neg:
        viol.append("in-progress counter went negative")
    full = all(sum(1 for it in schedule if it["thread"] == i and it["kind"] == "zcall") == len(w.replace("!", "")) for i, w in enumerate(words))
    if full and all_done and (final_gc != case["gc0"] or final_cnt != 0):
        viol.append(f"after all calls returned: gc enabled={final_gc} (initially {case['gc0']}), counter={final_cnt}")
    out = {"violated": bool(viol), "detail": "; ".join(viol) or f"schedule replayed without violation (model said: {which})",
           "schedule_len": len(schedule)}
    if case.get("mode") == "conformance":
        # the real functions followed the model's schedule line for line (no mismatch above); where the model ran every
        # thread to completion the real final state must be the model's
        exp = case.get("expect_final")
        if exp and full and all_done and (exp.get("gc") != final_gc or exp.get("counter") != final_cnt):
            return {"violated": False, "error": True, "schedule_len": len(schedule),
                    "detail": f"model final state {exp} but the real functions ended with gc={final_gc} counter={final_cnt}"}
        out["conforms"] = True
    return out


# ---------------------------------------------------------------------------------------------------------


def check(prop, tier, cap, only=None, procs=None, list_only=False, t0=None):
    import fnmatch

    try:
        obs = obligations(tier)
    except CannotEncode as e:
        print(f"HARNESS-ERROR cannot encode the current source of the GC guard: {e}")
        return 3
    if only:
        obs = [o for o in obs if fnmatch.fnmatchcase(o[0], only)]
    if list_only:
        for o, _ in obs:
            print(o)
        return 0
    results = common.run_pool("harness.p_c19", obs, tier, cap, procs=procs)
    words, combos = _programs(tier)
    # translator validation against the implementation: every schedule attached by the obligations (model witnesses
    # of the obligations that hold, the reachability witness, the counterexamples of the two mutants) is replayed on
    # the real (resp. mutated real) functions in a fresh interpreter with real threads
    vcases = []
    for r in results:
        for j, case in enumerate(r.pop("validate", None) or []):
            vcases.append((r, case, common.write_replay(prop, f"validate_{r['id']}_{j}", case)))
    rep = common.replay_native([p for _, _, p in vcases])
    nconf = nmut = 0
    for r, case, p in vcases:
        d = rep.get(p, {"error": True, "detail": "no replay result"})
        ok = (d.get("violated") and not d.get("error")) if case["mode"] == "mutant-cex" else (d.get("conforms") and not d.get("error"))
        if ok:
            r["validated"] = r.get("validated", 0) + 1
            nconf += case["mode"] == "conformance"
            nmut += case["mode"] == "mutant-cex"
        else:
            r["status"] = "error"
            r["detail"] = (f"translator validation failed ({case['mode']}): the real functions do not behave as the "
                           f"encoding says: {d.get('detail', '')[:400]} replay={p}")
    return common.finish(
        prop, tier, "model_checking", results, t0,
        functions=["claripy.backends.backend_z3._enter_z3", "claripy.backends.backend_z3._exit_z3",
                   "claripy.backends.backend_z3.condom (call word on normal and raising paths)"],
        bounds={"threads": "<=3", "per_thread_call_words": words,
                "combinations": "all singles and pairs" + (" + two triples" if tier == "quick" else " + all triples"),
                "granularity": "one event per executed source line; a thread may stop after any prefix",
                "initial_gc_state": "symbolic", "solver_cap_ms": 60000 if tier == "quick" else 900000,
                "outside": "more than 3 threads, nesting deeper than 2, more than 2 sequential calls per thread"},
        assumptions=["the encoding is regenerated from inspect.getsource of the three functions on every run",
                     "gc.enable/disable/isenabled and the lock have their documented semantics; log.* has no effect",
                     "one source line executes atomically (the property's stated granularity)"],
        rule="one obligation = one tuple of per-thread call words; Z3 decides over all clock assignments (schedules), all executed "
             "prefixes and both initial GC states whether any safety predicate can be violated; non-trivial = at least 8 events",
        trusted_base=["z3 4.13.0", "the Python-AST translator in harness/p_c19.py (validated by the reachability twin, two must-fail "
                      "mutants of the source and by replaying every counterexample on the real functions)"],
        extra_coverage={"states": max(1, sum(r.get("paths", 0) for r in results)), "transitions": max(1, len(results)),
                        "translator_validation": {
                            "model_witness_schedules_followed_line_for_line_by_the_real_functions": nconf,
                            "mutant_counterexamples_reproduced_on_the_mutated_functions": nmut,
                            "per_holding_obligation": "3 schedules: initial GC on / off with all threads complete, and one "
                                                      "VERIF_SEED-dependent partial order with arbitrary prefixes"}},
    )
