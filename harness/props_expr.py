"""C01 / C04 / C05 / C06 / C10: obligations = kernel leg (C01, C04) + AST leg over shapes x widths."""
from __future__ import annotations

from . import astleg, common, kernel, shapes

LEVEL = "translation_validation"


def _shape_list(tier, prop):
    quick = tier == "quick"
    widths = [1, 8, 32, 64] if quick else [1, 2, 3, 4, 8, 16, 32, 64, 128]
    out = []
    seen = set()
    for n in widths:
        lst = list(shapes.seeds(n)) + list(shapes.grammar1(n))
        if quick:
            if n == 8:
                lst += shapes.grammar2(n, shapes.QUICK_OUTER, shapes.QUICK_INNER)
        else:
            if n in (4, 8, 32, 64):
                lst += shapes.grammar2(n)
        for name, tree in lst:
            if shapes.is_heavy(tree) and n > (8 if quick else 16):
                continue
            oid = f"ast:{name}:{n}"
            if oid in seen:
                continue
            seen.add(oid)
            out.append((oid, {"tree": tree, "n": n}))
    return out


def obligations(tier, prop):
    out = []
    if prop in ("C01", "C04"):
        out += kernel.obligations(tier)
    out += _shape_list(tier, prop)
    return out


def run_obligation(oid, params, tier):
    prop = params["prop"]
    if oid.startswith("kernel:"):
        return kernel.run_obligation(oid, params, tier, prop)
    known = common.known_for(common.load_known(prop), oid)
    sr = astleg.ShapeRun(oid, params["tree"], prop, known,
                         max_paths=400 if tier == "quick" else 6000,
                         query_ms=20000 if tier == "quick" else 120000)
    return sr.run()


FUNCTIONS = [
    "claripy.ast.bv (constructors, operators, reversed operators, __getitem__, _from_int/_from_bool)",
    "claripy.operations.op._op / _handle_annotations", "claripy.simplifications.* (all simplifiers)",
    "claripy.ast.bool.If/And/Or/Not", "claripy.ast.base.Base.__new__ (eager folding) / make_like",
    "claripy.backends.backend_concrete.BackendConcrete.call/_abstract/convert/is_true/is_false",
    "claripy.backends.backend_concrete.bv.* (all kernels)", "claripy.backends.backend_z3.BackendZ3.convert/_op_raw_*",
    "claripy.algorithm.bool_check.is_true/is_false",
]
