"""Glue for running claripy's floating-point folding on symbolic doubles (pysym SFloat): module-level shims for the C
functions the code calls on Python floats.  Each shim models the C function on a shadow argument and passes concrete arguments
through to the real function.  All of them are part of the trusted base of C02 and listed in its evidence.

  claripy.backends.backend_concrete.fp :  math.isnan / isinf / sqrt, struct.pack / unpack (IEEE re-interpretation), Decimal(x)
                                          .to_integral_value(mode) + int(), float(int), int()
  claripy.ast.fp                        :  struct.pack / unpack ("f": round a double to single precision and widen it back)
  claripy.ast.base                      :  math.isnan / isinf / copysign, struct.pack in _arg_serialize (structural hash of a float leaf:
                                          a digest of the shadow's term)
  BackendZ3._op_expr["FPV"]             :  a shadow float converts to its Z3 term (FLOAT sort: narrowed exactly)
"""
from __future__ import annotations

import decimal
import hashlib
import math
import struct

import z3

from pysym import engine as E
from pysym.engine import SFloat, SInt

RNE = z3.RNE()
F64, F32 = z3.Float64(), z3.Float32()

SHIMS = ["a single-precision value is the exact widening (to_fp RNE Float32 -> Float64) of a Float32 term; comparisons, classification, negation, absolute value, "
         "narrowing back, rounding to an integral value and integer conversion are expressed on the Float32 term (lemmas proved by Z3 on every run: lemma:widen-round)",
         "backend_concrete.fp: math.isnan/isinf/sqrt (fp.isNaN / fp.isInfinite / fp.sqrt RNE on the shadow)",
         "struct.pack/unpack '<d'<->'<Q', '<f'<->'<I', 'f'->'f' (IEEE re-interpretation; double->single conversion is RNE as in CPython)",
         "Decimal(x).to_integral_value(mode) and int() of it: fp.roundToIntegral per decimal mode (ROUND_UP = away from zero for every non-integral "
         "value), NaN -> ValueError, infinity -> OverflowError, |x| >= 2^(W-2) outside the integer model (path skipped: out-of-range conversions are exempt)",
         "float(int shadow) = fp.to_fp RNE signed; int() keeps shadows", "claripy.ast.base: structural serialisation of a float leaf = digest of its term",
         "BackendZ3 FPV leaf: the shadow's term (FLOAT: fp.to_fp RNE Float32, exact because the value is single-representable)"]


class Packed(bytes):
    """result of struct.pack on a shadow: carries the bit-vector term"""

    def __new__(cls, bv, kind):
        o = bytes.__new__(cls, b"\x00" * (bv.size() // 8))
        o.bv = bv
        o.kind = kind
        return o


class StructShim:
    error = struct.error

    @staticmethod
    def pack(fmt, *vals):
        f = fmt.lstrip("<>=!@")
        v = vals[0] if vals else None
        if isinstance(v, SFloat):
            if f == "d":
                return Packed(z3.fpToIEEEBV(v.t), "d")
            if f == "f":
                # CPython 3.12 (measured): double -> float conversion is IEEE RNE; with the native format "f" values beyond the single
                # range become infinities, with a standard format ("<f") a finite double that rounds to infinity raises OverflowError
                n = narrow(v.t)
                t32 = n if n is not None else z3.fpFPToFP(RNE, v.t, F32)
                if fmt[:1] in "<>=!" and E.ENG.branch(z3.And(z3.fpIsInf(t32), z3.Not(z3.fpIsInf(v.t)))):
                    raise OverflowError("float too large to pack with f format")
                return Packed(z3.fpToIEEEBV(t32), "f")
            raise E.Unsupported("struct.pack " + fmt + " of a symbolic float")
        if isinstance(v, SInt):
            n = {"Q": 64, "I": 32}.get(f)
            if n is None:
                raise E.Unsupported("struct.pack " + fmt + " of a symbolic int")
            E.need_fit(v)
            if E.ENG.branch(z3.Or(E.term(v) < 0, E.term(v) >= (1 << n) if n < E.W() - 1 else z3.BoolVal(False))):
                raise struct.error("argument out of range")
            return Packed(z3.Extract(n - 1, 0, E.term(v)), f)
        return struct.pack(fmt, *vals)

    @staticmethod
    def unpack(fmt, data):
        f = fmt.lstrip("<>=!@")
        if isinstance(data, Packed):
            bv = data.bv
            if f == "Q" and bv.size() == 64:
                return (_uint(bv),)
            if f == "I" and bv.size() == 32:
                return (_uint(bv),)
            if f == "d" and bv.size() == 64:
                return (SFloat(z3.fpBVToFP(bv, F64)),)
            if f == "f" and bv.size() == 32:
                return (SFloat(z3.fpFPToFP(RNE, z3.fpBVToFP(bv, F32), F64)),)
            raise E.Unsupported(f"struct.unpack {fmt} of a {bv.size()}-bit shadow")
        return struct.unpack(fmt, data)


def _uint(bv):
    w = E.W()
    if bv.size() >= w:
        raise E.Unsupported("integer model narrower than the packed value")
    return SInt(z3.ZeroExt(w - bv.size(), bv), None, (0, (1 << bv.size()) - 1))


class MathShim:
    def __getattr__(self, k):
        return getattr(math, k)

    @staticmethod
    def isnan(x):
        return E.ENG.branch(z3.fpIsNaN(_cls(x.t))) if isinstance(x, SFloat) else math.isnan(x)

    @staticmethod
    def isinf(x):
        return E.ENG.branch(z3.fpIsInf(_cls(x.t))) if isinstance(x, SFloat) else math.isinf(x)

    @staticmethod
    def sqrt(x):
        if isinstance(x, SFloat):
            if E.ENG.branch(z3.fpLT(x.t, z3.FPVal(0.0, F64))):
                raise ValueError("math domain error")
            return SFloat(z3.fpSqrt(RNE, x.t))
        return math.sqrt(x)

    @staticmethod
    def copysign(a, b):
        if isinstance(b, SFloat):
            neg = E.ENG.branch(z3.fpIsNegative(_cls(b.t)))
            return -abs(a) if neg else abs(a)
        return math.copysign(a, b)


class SymDecimal:
    """Decimal(x) for a shadow x: only to_integral_value(mode) followed by int() is modelled"""

    def __init__(self, x, mode=None):
        self.x = x
        self.mode = mode

    def to_integral_value(self, rounding=None):
        return SymDecimal(self.x, rounding)

    def __int__(self):
        return sym_int(self)


def DecimalShim(x, *a, **kw):
    if isinstance(x, SFloat):
        return SymDecimal(x)
    return decimal.Decimal(x, *a, **kw)


_MODE = {decimal.ROUND_CEILING: z3.RTP(), decimal.ROUND_FLOOR: z3.RTN(), decimal.ROUND_DOWN: z3.RTZ(), decimal.ROUND_HALF_EVEN: z3.RNE(),
         decimal.ROUND_HALF_UP: z3.RNA()}


def narrow(x):
    """the Float32 term t if x is (to_fp RNE t) widening t to Float64, else None"""
    t = E.fnarrow(x)
    return t if t is not None and t.sort() == F32 and x.sort() == F64 else None


def _cls(x):
    n = narrow(x)
    return n if n is not None else x


def widen_round_lemma(timeout_ms=60000):
    """for every single a and every rounding mode m: roundToIntegral(m, widen(a)) = widen(roundToIntegral(m, a)), and the signed integer
    conversion (width W) of both agree.  Returns None if proved, else a description."""
    a = z3.FP("lem_a", F32)
    wa = z3.fpFPToFP(RNE, a, F64)
    for name, m in (("RNE", z3.RNE()), ("RNA", z3.RNA()), ("RTP", z3.RTP()), ("RTN", z3.RTN()), ("RTZ", z3.RTZ())):
        l64 = z3.fpRoundToIntegral(m, wa)
        r32 = z3.fpRoundToIntegral(m, a)
        s = z3.Solver()
        s.set("timeout", timeout_ms)
        s.add(z3.Not(z3.fpIsNaN(a)), z3.Not(z3.fpIsInf(a)))
        s.add(z3.Or(z3.fpToIEEEBV(l64) != z3.fpToIEEEBV(z3.fpFPToFP(RNE, r32, F64)),
                    z3.fpToSBV(z3.RTZ(), l64, z3.BitVecSort(160)) != z3.fpToSBV(z3.RTZ(), r32, z3.BitVecSort(160))))
        r = s.check()
        if r != z3.unsat:
            return f"{name}: {r}"
    b = z3.FP("lem_b", F32)
    wb = z3.fpFPToFP(RNE, b, F64)

    def differ(l, r):
        if z3.is_bool(l):
            return l != r
        return z3.Not(z3.Or(z3.And(z3.fpIsNaN(l), z3.fpIsNaN(r)), z3.fpToIEEEBV(l) == z3.fpToIEEEBV(r)))

    lemmas = [(n, f(wa, wb), f(a, b)) for n, f in (("eq", z3.fpEQ), ("lt", z3.fpLT), ("leq", z3.fpLEQ), ("gt", z3.fpGT), ("geq", z3.fpGEQ))]
    lemmas += [(n, f(wa), f(a)) for n, f in (("isnan", z3.fpIsNaN), ("isinf", z3.fpIsInf), ("iszero", z3.fpIsZero), ("isneg", z3.fpIsNegative))]
    lemmas += [("neg", z3.fpNeg(wa), z3.fpFPToFP(RNE, z3.fpNeg(a), F64)), ("abs", z3.fpAbs(wa), z3.fpFPToFP(RNE, z3.fpAbs(a), F64)),
               ("narrow-widen", z3.fpFPToFP(RNE, wa, F32), a)]
    for n, l, r in lemmas:
        s = z3.Solver()
        s.set("timeout", timeout_ms)
        s.add(differ(l, r))
        c = s.check()
        if c != z3.unsat:
            return f"{n}: {c}"
    return None


def sym_int(v=0, *a):
    if isinstance(v, SInt):
        return v
    if isinstance(v, SymDecimal):
        x = v.x.t
        if E.ENG.branch(z3.fpIsNaN(_cls(x))):
            raise ValueError("cannot convert NaN to integer")
        if E.ENG.branch(z3.fpIsInf(_cls(x))):
            raise OverflowError("cannot convert Infinity to integer")
        w = E.W()
        lim = z3.FPVal(float(2 ** (w - 2)), F64)
        if E.ENG.branch(z3.Not(z3.fpLT(z3.fpAbs(x), lim))):
            raise E.PathAbort("float-to-int outside the integer model (out-of-range conversions are exempt)")
        if v.mode == decimal.ROUND_UP:
            t = z3.fpRoundToIntegral(z3.RTZ(), x)
            one = z3.FPVal(1.0, F64)
            r = z3.If(z3.fpEQ(t, x), t, z3.If(z3.fpGT(x, z3.FPVal(0.0, F64)), z3.fpAdd(RNE, t, one), z3.fpSub(RNE, t, one)))
        elif v.mode in _MODE:
            n = narrow(x)
            # a widened single: rounding to an integral value and the integer conversion commute with the (exact) widening
            # (lemma discharged by Z3 on every run: obligation lemma:widen-round)
            r = z3.fpRoundToIntegral(_MODE[v.mode], n if n is not None else x)
        else:
            raise E.Unsupported(f"decimal rounding mode {v.mode}")
        return SInt(z3.fpToSBV(z3.RTZ(), r, z3.BitVecSort(w)), None, (-(2 ** (w - 2)) - 1, 2 ** (w - 2) + 1))
    return int(v, *a)


def sym_float(v=0.0):
    if isinstance(v, SFloat):
        return v
    if isinstance(v, SInt):
        E.need_fit(v)
        t = E.term(v)
        if t.size() > 1025:
            # float(int) raises OverflowError when the correctly rounded value would be beyond the largest double
            lim = (1 << 1024) - (1 << 970)
            if E.ENG.branch(z3.Or(t >= lim, t <= -lim)):
                raise OverflowError("int too large to convert to float")
        return SFloat(z3.fpSignedToFP(RNE, t, F64))
    return float(v)


def sym_str(v=""):
    if isinstance(v, SFloat):
        return v.__str__()
    return str(v)


class _Meta(type):
    """the shims replace the builtin *names* int / float / str in a module namespace; isinstance(x, float) must keep working"""

    def __instancecheck__(cls, x):
        return isinstance(x, cls._real)

    def __subclasscheck__(cls, c):
        return issubclass(c, cls._real)


class FloatT(metaclass=_Meta):
    _real = float

    def __new__(cls, v=0.0):
        return sym_float(v)


class IntT(metaclass=_Meta):
    _real = int

    def __new__(cls, v=0, *a):
        return sym_int(v, *a)


class StrT(metaclass=_Meta):
    _real = str

    def __new__(cls, v=""):
        return sym_str(v)


_installed = False


def install():
    global _installed
    if _installed:
        return
    _installed = True
    import claripy
    import claripy.ast.base as cbase
    import claripy.ast.fp as cfp
    import claripy.backends.backend_concrete.fp as kfp
    from pysym import glue

    glue.install()
    kfp.math = MathShim()
    kfp.struct = StructShim
    kfp.Decimal = DecimalShim
    kfp.int = IntT
    kfp.float = FloatT
    kfp.str = StrT
    cfp.struct = StructShim

    # structural hash of a float leaf
    class BaseMath(MathShim):
        pass

    cbase.math = BaseMath()

    class BaseStruct:
        error = struct.error

        @staticmethod
        def pack(fmt, *vals):
            if vals and isinstance(vals[0], SFloat):
                return b"\xfdSYMF" + hashlib.blake2b(vals[0].t.sexpr().encode(), digest_size=12).digest()
            return struct.pack(fmt, *vals)

        unpack = staticmethod(struct.unpack)

    cbase.struct = BaseStruct

    # A float-shadow leaf is serialised by its term only.  The real code maps every NaN to b"nan", every infinity to b"inf" and
    # -0.0 to b"-0.0": with shadows that would hash-cons two leaves whose terms are different but fall in the same class on the
    # current path, and the surviving node (from an earlier path) would carry a term that is not in that class on this path.
    orig_ser = cbase.Base._arg_serialize

    def arg_serialize(arg):
        if isinstance(arg, SFloat):
            return b"\xfdSYMF" + hashlib.blake2b(arg.t.sexpr().encode(), digest_size=12).digest()
        return orig_ser(arg)

    cbase.Base._arg_serialize = staticmethod(arg_serialize)

    z3b = claripy.backends.z3
    orig = z3b._op_expr["FPV"]

    def z3_FPV(ast):
        v = ast.args[0]
        if isinstance(v, SFloat):
            if ast.args[1].length == 32:
                n = narrow(v.t)
                return n if n is not None else z3.fpFPToFP(RNE, v.t, F32)
            return v.t
        return orig(ast)

    z3b._op_expr["FPV"] = z3_FPV
    orig_has = glue.has_sym

    def has_sym(expr):
        for leaf in expr.leaf_asts():
            if leaf.op == "FPV" and isinstance(leaf.args[0], SFloat):
                return True
        return orig_has(expr)

    glue.has_sym = has_sym
