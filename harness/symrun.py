"""Generic driver: explore a build function with symbolic constants (pysym), run a per-path checker that may ask
Z3 questions under the path condition, turn the first failing path into a concrete counterexample case."""
from __future__ import annotations

import z3

from . import common


class Fail:
    def __init__(self, kind, detail, extra=None, known_key=None, classify=None):
        self.classify = classify   # optional: model -> known_key (overrides known_key when it returns one)
        self.kind = kind
        self.detail = detail
        self.extra = extra  # z3 formula describing the failing set (conjoined with the PC), or None
        self.known_key = known_key
        self.known_region = None   # optional {known finding id: z3 formula}: the finding only covers counterexamples inside the formula


def run(oid, *, width, zconsts, build, check, make_case, max_paths=400, query_ms=20000, known=(), validate=None,
        sample=None, reset=True, stop_on_first=True, allow_all_exc=False):
    """zconsts: {name: z3 const} symbolic inputs; build(): runs real code, returns any object;
    check(path, solver, out) -> iterable of Fail (solver holds the PC; checker may push/pop);
    make_case(model_values: {name: int|bool}, fail) -> replay case dict.
    known: list of known-finding dicts; a Fail whose known_key matches k['key'] is recorded as a hit."""
    from pysym import engine as E
    from pysym import glue

    glue.install()
    E.set_width(width)
    res = common.result(oid, "holds")
    if sample is not None:
        res["sample"] = sample

    def wrapped():
        if reset:
            glue.reset_caches()
        return build()

    ex = E.explore(wrapped, max_paths=max_paths)
    nval = 0
    nok = 0
    excs = {}
    for path in ex:
        if path.kind == "ok":
            nok += 1
        elif path.kind == "exc":
            k = type(path.result).__name__ + ": " + str(path.result)[:80]
            excs[k] = excs.get(k, 0) + 1
        if path.kind in ("unknown", "unsupported", "diverged"):
            continue
        s = E.new_solver(path.pc, query_ms)
        bad = False
        for o in path.obligations:
            if E.check_sat(s, z3.Not(o)) != "unsat":
                res["inconclusive"].append("integer-model obligation (fits) not valid on a path")
                bad = True
                break
        if bad:
            continue
        fails = list(check(path, s, path.result if path.kind == "ok" else None) or [])
        for f in fails:
            if f.kind == "unknown":
                res["inconclusive"].append(f.detail)
                continue
            s2 = E.new_solver(path.pc, query_ms)
            if f.extra is not None:
                s2.add(f.extra)
            q = E.check_sat(s2)
            if q == "unknown":
                res["inconclusive"].append("unknown: " + f.kind)
                continue
            if q != "sat":
                continue
            kkey = f.known_key
            if getattr(f, "classify", None) is not None:
                # attribution needs the concrete counterexample: decided on a model of the failing set
                ck = f.classify(s2.model())
                if ck is not None:
                    kkey = ck
            kid = None
            for k in known:
                if k.get("key") in (None, "*") or k.get("key") == kkey:
                    kid = k["id"]
            if kid is not None:
                # a finding recorded with a REGION (formula over the inputs) covers only counterexamples inside it: a failing input
                # outside the region is a different violation and is reported
                region = (getattr(f, "known_region", None) or {}).get(kid)
                outside = None
                if region is not None:
                    s3 = E.new_solver(path.pc, query_ms)
                    if f.extra is not None:
                        s3.add(f.extra)
                    s3.add(z3.Not(region))
                    q3 = E.check_sat(s3)
                    if q3 == "sat":
                        outside = s3.model()
                    elif q3 == "unknown":
                        res["inconclusive"].append("unknown: outside-known-region query")
                if outside is None:
                    if kid not in res["known_hits"]:
                        res["known_hits"].append(kid)
                    continue
                s2 = s3
            m = s2.model()
            vals = E.model_dict(m, list(zconsts.values()))
            res["status"] = "violation"
            res["detail"] = f"{f.kind}: {f.detail}"
            res["cex"] = [make_case(vals, f)]
            break
        if res["status"] == "violation" and stop_on_first:
            break
        if validate is not None and nval < 4 and path.kind == "ok" and not fails:
            if E.check_sat(s) == "sat":
                m = s.model()
                vals = E.model_dict(m, list(zconsts.values()))
                saved = (E.ENG.decisions, E.ENG.pos, E.ENG.pc, E.ENG.obligations)
                try:
                    v = validate(vals, path.result, m)
                finally:
                    E.ENG.decisions, E.ENG.pos, E.ENG.pc, E.ENG.obligations = saved
                if v is False:
                    res["status"] = "error"
                    res["detail"] = "encoding validation failed: native run differs from symbolic run"
                    res["paths"] = ex.paths
                    return res
                nval += 1 if v else 0
    res["paths"] = ex.paths
    res["validated"] = nval
    res["inconclusive"] += ex.inconclusive
    res["ok_paths"] = nok
    if excs:
        res.setdefault("sample", {}) if isinstance(res.get("sample"), dict) else None
        if isinstance(res.get("sample"), dict):
            res["sample"]["exceptions_seen"] = excs
    if nok == 0 and ex.paths > 0 and res["status"] == "holds" and not allow_all_exc:
        # vacuity guard: the run never reached the assertion (every path raised)
        res["inconclusive"].append("vacuous: every explored path raised before the assertion: " + "; ".join(list(excs)[:2]))
    if res["status"] == "holds" and res["inconclusive"]:
        res["status"] = "inconclusive"
        res["detail"] = res["inconclusive"][0]
    return res


def run_fork(oid, *, width, zconsts, build, check, make_case, max_seconds=50, query_ms=20000, known=(), sample=None, reset=True):
    """same contract as run(), but explores by process forks (no re-execution): for code whose control flow depends on memory
    addresses (set / id() ordering in SolverComposite), where a replay would not follow the recorded decisions.  Each leaf process
    evaluates its own path and sends back a picklable summary."""
    from pysym import engine as E
    from pysym import glue

    glue.install()
    res = common.result(oid, "holds")
    if sample is not None:
        res["sample"] = sample

    def wrapped():
        if reset:
            glue.reset_caches()
        return build()

    def finish(path):
        out = {"kind": path.kind, "incon": [], "known": [], "viol": None, "exc": None, "checks": 0}
        if path.kind in ("unknown", "unsupported", "diverged"):
            out["incon"].append(f"{path.kind}: {str(path.result)[:120]}")
            return out
        if path.kind == "exc":
            out["exc"] = type(path.result).__name__ + ": " + str(path.result)[:80]
        s = E.new_solver(path.pc, query_ms)
        for o in path.obligations:
            if E.check_sat(s, z3.Not(o)) != "unsat":
                out["incon"].append("integer-model obligation (fits) not valid on a path")
                return out
        for f in list(check(path, s, path.result if path.kind == "ok" else None) or []):
            if f.kind == "unknown":
                out["incon"].append(f.detail)
                continue
            s2 = E.new_solver(path.pc, query_ms)
            if f.extra is not None:
                s2.add(f.extra)
            q = E.check_sat(s2)
            if q == "unknown":
                out["incon"].append("unknown: " + f.kind)
                continue
            if q != "sat":
                continue
            kkey = f.known_key
            if getattr(f, "classify", None) is not None:
                ck = f.classify(s2.model())
                if ck is not None:
                    kkey = ck
            kid = None
            for k in known:
                if k.get("key") in (None, "*") or k.get("key") == kkey:
                    kid = k["id"]
            if kid is not None:
                out["known"].append(kid)
                continue
            vals = E.model_dict(s2.model(), list(zconsts.values()))
            out["viol"] = (f"{f.kind}: {f.detail}", make_case(vals, f))
            break
        out["checks"] = E.STATS.checks
        return out

    outs, complete = E.explore_fork(wrapped, finish, timeout_ms=query_ms, width=width, max_seconds=max_seconds)
    nok = 0
    excs = {}
    for o in outs:
        if "harness_error" in o:
            res["status"] = "error"
            res["detail"] = "exploration leaf crashed: " + o["harness_error"]
            return res
        res["paths"] += 1
        res["queries"] = res.get("queries", 0) + o.get("checks", 0)
        nok += o["kind"] == "ok"
        if o["exc"]:
            excs[o["exc"]] = excs.get(o["exc"], 0) + 1
        res["inconclusive"] += o["incon"]
        res["known_hits"] += [k for k in o["known"] if k not in res["known_hits"]]
        if o["viol"] and res["status"] != "violation":
            res["status"] = "violation"
            res["detail"], case = o["viol"]
            res["cex"] = [case]
    if not complete:
        res["inconclusive"].append(f"wall budget exhausted after {res['paths']} paths (fork mode)")
    res["ok_paths"] = nok
    if excs and isinstance(res.get("sample"), dict):
        res["sample"]["exceptions_seen"] = excs
    if nok == 0 and res["paths"] > 0 and res["status"] == "holds":
        res["inconclusive"].append("vacuous: every explored path raised before the assertion: " + "; ".join(list(excs)[:2]))
    if res["status"] == "holds" and res["inconclusive"]:
        res["status"] = "inconclusive"
        res["detail"] = res["inconclusive"][0]
    return res


def equiv_fail(s, got, want, kind, detail, known_key=None):
    """Fail object if got != want is satisfiable under the solver's assertions (NaN == NaN for floats)"""
    from pysym import engine as E

    if got.sort() != want.sort():
        return Fail(kind, f"sort {got.sort()} vs {want.sort()}: {detail}", None, known_key)
    if z3.is_fp(got):
        ne = z3.Not(z3.Or(got == want, z3.And(z3.fpIsNaN(got), z3.fpIsNaN(want))))
    else:
        ne = got != want
    q = E.check_sat(s, ne)
    if q == "sat":
        return Fail(kind, detail, ne, known_key)
    if q == "unknown":
        return Fail("unknown", "unknown: " + kind)
    return None
