"""Symbolic oracle backend: the real claripy frontends (Solver, SolverCacheless, SolverComposite, SolverReplacement, SolverHybrid ...)
run unmodified on this Backend subclass instead of BackendZ3.

The "solver object" is a list of asserted formulas; every answer is derived from the asserted formulas *with the constraint
constants still symbolic*: satisfiability forks on the finite expansion of  exists x. F(x, K)  over the tiny variable domain
(a formula over the constants K decided by the engine's Z3), models are skolem values constrained by F and concretised by forking
over their feasible values (so which model the backend "happened to return" is explored exhaustively), extrema are the skolem
value plus the assumed universal bound.  One symbolic run therefore covers every constant and every model choice.

Faithfulness notes (mirroring BackendZ3): solver() under reuse_z3_solver returns one shared, reset object; clone_solver copies;
add(track=True) de-duplicates by constraint hash; a model only mentions variables that occur in the checked formulas;
is_true / is_false look at the expression alone (never at the constraints).
"""
from __future__ import annotations

import itertools

import z3

import claripy
from claripy.backends.backend import Backend
from claripy.errors import ClaripySolverInterruptError


class SymSolver:
    def __init__(self):
        self.cons = []      # (z3 formula, claripy AST, tracked name or None)
        self.last = None    # (outcome, number of assertions) of the last check made ON THIS OBJECT: like a z3.Solver, a core is only
        #                     available after this object itself has answered unsat (a clone or a refilled solver has made no check)

    def copy(self):
        c = SymSolver()
        c.cons = list(self.cons)
        return c


class SymBackend(Backend):
    def __init__(self, variables, reuse=False):
        """variables: list of (name, width) of the bit-vector variables histories may mention (Boolean: width 0)"""
        Backend.__init__(self, solver_required=True)
        self.vars = [(n, w, (z3.BitVec(n, w) if w else z3.Bool(n))) for n, w in variables]
        self.reuse_z3_solver = reuse
        self._shared = None
        self.fresh = itertools.count()
        self.ncheck = 0
        self.fault_at = None       # z3 BitVec term (symbolic index of the check that times out) or None
        self.free_choices = None     # number of backend answers whose model is arbitrary; later answers return the least model
        self.nchoices = 0
        self.canonical_enum = False  # batch_eval rounds after the first return the least remaining model
        self.extra_models = False  # min/max also hand back one arbitrary intermediate model (as the binary search does)
        self.log = []

    def reset_run(self):
        self._shared = None
        self.fresh = itertools.count()
        self.ncheck = 0
        self.nchoices = 0
        self.log = []
        # the truth memo of the real Backend.is_true / is_false is keyed by expression hash: with symbolic constants it is path-dependent
        self._true_cache.clear()
        self._false_cache.clear()

    # ---- conversion
    def conv(self, e):
        if isinstance(e, claripy.ast.Base):
            return claripy.backends.z3.convert(e)
        if isinstance(e, bool):
            return z3.BoolVal(e)
        if z3.is_expr(e):
            return e
        raise TypeError(type(e))

    # ---- solver objects
    def solver(self, timeout=None, max_memory=None):
        if self.reuse_z3_solver:
            if self._shared is None:
                self._shared = SymSolver()
            else:
                self._shared.cons = []     # z3.Solver.reset()
            return self._shared
        return SymSolver()

    def clone_solver(self, s):
        return s.copy()

    def add(self, s, c, track=False):
        for a in c:
            f = self.conv(a)
            if track:
                name = str(a.hash())
                if any(t == name for _, _, t in s.cons):
                    continue
                s.cons.append((f, a, name))
            else:
                s.cons.append((f, a, None))

    def downsize(self):
        pass

    # ---- finite quantifiers over the variable domain
    def _dom(self, names=None):
        vs = [v for v in self.vars if names is None or v[0] in names]
        return vs, itertools.product(*[range(1 << w) if w else (False, True) for _, w, _ in vs])

    def _inst(self, f, vs, vals):
        sub = [(zv, (z3.BitVecVal(x, w) if w else z3.BoolVal(x))) for (_, w, zv), x in zip(vs, vals)]
        return z3.substitute(f, *sub) if sub else f

    def _free(self, f):
        names = set()
        seen = set()
        st = [f]
        while st:
            e = st.pop()
            if e.get_id() in seen:
                continue
            seen.add(e.get_id())
            if z3.is_const(e) and e.decl().kind() == z3.Z3_OP_UNINTERPRETED:
                names.add(e.decl().name())
            else:
                st.extend(e.children())
        return {n for n, _, _ in self.vars if n in names}

    def exists(self, f):
        vs, dom = self._dom(self._free(f))
        return z3.simplify(z3.Or(*[self._inst(f, vs, vals) for vals in dom]))

    def forall(self, f):
        vs, dom = self._dom(self._free(f))
        return z3.simplify(z3.And(*[self._inst(f, vs, vals) for vals in dom]))

    # ---- oracle
    def _tick(self):
        """one solver check; the injected fault (if any) fires at a symbolic position"""
        from pysym import engine as E

        k = self.ncheck
        self.ncheck += 1
        if self.fault_at is not None and E.ENG.branch(self.fault_at == k):
            raise ClaripySolverInterruptError("injected timeout")

    def _G(self, solver, extra):
        fs = [f for f, _, _ in solver.cons] + [self.conv(e) for e in extra]
        return z3.And(*fs) if fs else z3.BoolVal(True)

    def _model(self, G, minimal=False):
        """an arbitrary model of G (which must be satisfiable on this path): concrete values by forking over the feasible ones.
        Only variables occurring in G are assigned (as in a Z3 model without completion).
        minimal=True: the lexicographically least model (used to enumerate later batch_eval rounds in one canonical order when
        self.canonical_enum is set: an under-approximation of the backend's freedom, stated in the bounds)."""
        from pysym import engine as E

        if not minimal and self.free_choices is not None:
            # bounded nondeterminism of the backend (quick tier): after `free_choices` arbitrary models the least model is returned
            if self.nchoices >= self.free_choices:
                minimal = True
            self.nchoices += 1
        names = self._free(G)
        vs = [v for v in self.vars if v[0] in names]
        k = next(self.fresh)
        sk = [(z3.BitVec(f"sk{k}_{n}", w) if w else z3.Bool(f"sk{k}_{n}")) for n, w, _ in vs]
        E.ENG.assume(z3.substitute(G, *[(zv, s) for (_, _, zv), s in zip(vs, sk)]) if vs else G)
        if minimal and vs and all(w for _, w, _ in vs):
            cat = z3.Concat(*sk) if len(sk) > 1 else sk[0]
            _, dom = self._dom(names)
            les = []
            for vals in dom:
                vcat = z3.Concat(*[z3.BitVecVal(x, w) for (_, w, _), x in zip(vs, vals)]) if len(vs) > 1 else z3.BitVecVal(vals[0], vs[0][1])
                les.append(z3.Implies(self._inst(G, vs, vals), z3.ULE(cat, vcat)))
            E.ENG.assume(z3.simplify(z3.And(*les)))
        model = {}
        for (n, w, _), s in zip(vs, sk):
            if w:
                model[n] = E.ENG.concretize(s, signed=False)
            else:
                model[n] = bool(E.ENG.branch(s))
        return model

    def _value(self, t, model):
        """value of the z3 term t under the model; unassigned variables default to 0 / False (model completion)"""
        from pysym import engine as E

        sub = []
        for n, w, zv in self.vars:
            v = model.get(n, 0 if w else False)
            sub.append((zv, z3.BitVecVal(v, w) if w else z3.BoolVal(v)))
        r = z3.simplify(z3.substitute(t, *sub))
        if z3.is_bool(r):
            return bool(E.ENG.branch(r))
        if z3.is_bv_value(r):
            return r.as_long()
        return E.SInt.unsigned(r)

    def satisfiable(self, extra_constraints=(), solver=None, model_callback=None):
        from pysym import engine as E

        self._tick()
        G = self._G(solver, extra_constraints)
        if not E.ENG.branch(self.exists(G)):
            solver.last = ("unsat", len(solver.cons))
            return False
        solver.last = ("sat", len(solver.cons))
        if model_callback is not None:
            model_callback(self._model(G))
        return True

    def check_satisfiability(self, extra_constraints=(), solver=None, model_callback=None):
        return "SAT" if self.satisfiable(extra_constraints, solver, model_callback) else "UNSAT"

    def batch_eval(self, exprs, n, extra_constraints=(), solver=None, model_callback=None):
        from pysym import engine as E

        G = self._G(solver, extra_constraints)
        ts = [self.conv(e) if isinstance(e, claripy.ast.Base) else e for e in exprs]
        results = []
        block = []
        for _ in range(n):
            self._tick()
            H = z3.And(G, *block) if block else G
            if not E.ENG.branch(self.exists(H)):
                if not block:
                    solver.last = ("unsat", len(solver.cons))
                break
            solver.last = ("sat", len(solver.cons))
            m = self._model(H, minimal=self.canonical_enum and len(results) >= 1)
            if model_callback is not None:
                model_callback(m)
            vals = tuple((self._value(t, m) if z3.is_expr(t) else t) for t in ts)
            results.append(vals)
            diff = [t != self._lit(t, v) for t, v in zip(ts, vals) if z3.is_expr(t)]
            block.append(z3.Or(*diff) if diff else z3.BoolVal(False))
        return results

    def _lit(self, t, v):
        from pysym import engine as E

        if z3.is_bool(t):
            return z3.BoolVal(bool(v))
        if isinstance(v, E.SInt):
            return v.low(t.size())
        return z3.BitVecVal(v, t.size())

    def eval(self, expr, n, extra_constraints=(), solver=None, model_callback=None):
        return [r[0] for r in self.batch_eval([expr], n, extra_constraints, solver, model_callback)]

    def _extreme(self, is_max, expr, extra_constraints, signed, solver, model_callback):
        from pysym import engine as E

        self._tick()
        G = self._G(solver, extra_constraints)
        t = self.conv(expr)
        if not E.ENG.branch(self.exists(G)):
            # BackendZ3._extrema on an unsatisfiable set returns the initial bound; the frontends never ask (they check first)
            from claripy.errors import UnsatError

            raise UnsatError("unsat in oracle extremum")
        if self.extra_models and model_callback is not None:
            model_callback(self._model(G))
        m = self._model(G)
        v = self._value(t, m)
        vt = self._lit(t, v)
        if signed:
            bound = (t <= vt) if is_max else (t >= vt)
        else:
            bound = z3.ULE(t, vt) if is_max else z3.UGE(t, vt)
        E.ENG.assume(self.forall(z3.Implies(G, bound)))
        if model_callback is not None:
            model_callback(m)
        if signed and not z3.is_bool(t):
            # like BackendZ3._extrema: a signed query answers with the signed reading of the value
            n = t.size()
            if v >= (1 << (n - 1)):
                v = v - (1 << n)
        return v

    def min(self, expr, extra_constraints=(), signed=False, solver=None, model_callback=None):
        return self._extreme(False, expr, extra_constraints, signed, solver, model_callback)

    def max(self, expr, extra_constraints=(), signed=False, solver=None, model_callback=None):
        return self._extreme(True, expr, extra_constraints, signed, solver, model_callback)

    def solution(self, expr, v, extra_constraints=(), solver=None, model_callback=None):
        from pysym import engine as E

        t = self.conv(expr)
        if isinstance(v, claripy.ast.Base):
            vt = self.conv(v)
        elif isinstance(v, bool):
            vt = z3.BoolVal(v)
        else:
            vt = z3.Extract(t.size() - 1, 0, E.term(v)) if isinstance(v, E.SInt) else z3.BitVecVal(v, t.size())
        return self.satisfiable(extra_constraints=(*tuple(extra_constraints), t == vt), solver=solver, model_callback=model_callback)

    # is_true / is_false are the REAL Backend.is_true / is_false (memoised per expression hash); only the backend-specific part is the oracle's
    def convert(self, e):
        return self.conv(e)

    def _is_true(self, e, extra_constraints=(), solver=None, model_callback=None):
        from pysym import engine as E

        # BackendZ3._is_true: z3.simplify(e) is literally true - a property of the expression alone
        return bool(E.ENG.branch(self.forall(e)))

    def _is_false(self, e, extra_constraints=(), solver=None, model_callback=None):
        from pysym import engine as E

        return bool(E.ENG.branch(self.forall(z3.Not(e))))

    def has_true(self, e, extra_constraints=(), solver=None, model_callback=None):
        return self.is_true(e)

    def has_false(self, e, extra_constraints=(), solver=None, model_callback=None):
        return self.is_false(e)

    def unsat_core(self, s):
        """any unsatisfiable subset of the tracked assertions may come back (the choice is forked)"""
        from pysym import engine as E

        if s.last != ("unsat", len(s.cons)):
            return []          # z3.Solver.unsat_core() without an unsat check of this very solver: empty
        tracked = [(f, a) for f, a, t in s.cons if t is not None]
        untracked = [f for f, a, t in s.cons if t is None]
        n = len(tracked)
        cands = []
        for r in range(0, n + 1):
            for idx in itertools.combinations(range(n), r):
                cands.append(idx)
        for idx in cands:
            fs = untracked + [tracked[i][0] for i in idx]
            un = z3.Not(self.exists(z3.And(*fs))) if fs else z3.BoolVal(False)
            if E.ENG.branch(un):
                # this subset is unsatisfiable: return it, or keep looking for another one
                if idx == cands[-1] or E.ENG.branch(z3.Bool(f"__core_stop_{len(E.ENG.pc)}")):
                    return [tracked[i][1] for i in idx]
        return [a for _, a in tracked]

    def simplify(self, expr):
        return expr

    def name(self, a):
        return None

    def identical(self, a, b):
        return a is b
