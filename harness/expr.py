"""Operation-tree DSL with two independent interpreters: one drives claripy's public constructors/operators (the
system under test), the other builds the SMT-LIB reference term directly with z3py (the oracle).

A tree is a JSON-able nested list:
  ["var", name, width] | ["bvar", name] | ["c", idx, width] (symbolic constant) | ["lit", value, width]
  | ["int", value] (raw Python int operand) | ["pybool", bool] | ["boolv", bool] | [op, arg...]
Integer parameters of extract/zext/sext/getitem are plain ints.
"""
from __future__ import annotations

import z3

BIN_BV = {
    "add": (lambda a, b: a + b, lambda a, b: a + b),
    "sub": (lambda a, b: a - b, lambda a, b: a - b),
    "mul": (lambda a, b: a * b, lambda a, b: a * b),
    "udiv": (lambda a, b: a // b, lambda a, b: z3.UDiv(a, b)),
    "utruediv": (lambda a, b: a / b, lambda a, b: z3.UDiv(a, b)),
    "urem": (lambda a, b: a % b, lambda a, b: z3.URem(a, b)),
    "sdiv": (None, lambda a, b: a / b),
    "smod": (None, lambda a, b: z3.SRem(a, b)),
    "and": (lambda a, b: a & b, lambda a, b: a & b),
    "or": (lambda a, b: a | b, lambda a, b: a | b),
    "xor": (lambda a, b: a ^ b, lambda a, b: a ^ b),
    "shl": (lambda a, b: a << b, lambda a, b: a << b),
    "ashr": (lambda a, b: a >> b, lambda a, b: a >> b),
    "lshr": (None, lambda a, b: z3.LShR(a, b)),
    "rol": (None, lambda a, b: z3.RotateLeft(a, b)),
    "ror": (None, lambda a, b: z3.RotateRight(a, b)),
}
CMP = {
    "eq": (lambda a, b: a == b, lambda a, b: a == b),
    "ne": (lambda a, b: a != b, lambda a, b: a != b),
    "lt": (lambda a, b: a < b, lambda a, b: z3.ULT(a, b)),
    "le": (lambda a, b: a <= b, lambda a, b: z3.ULE(a, b)),
    "gt": (lambda a, b: a > b, lambda a, b: z3.UGT(a, b)),
    "ge": (lambda a, b: a >= b, lambda a, b: z3.UGE(a, b)),
    "ult": (None, lambda a, b: z3.ULT(a, b)),
    "ule": (None, lambda a, b: z3.ULE(a, b)),
    "ugt": (None, lambda a, b: z3.UGT(a, b)),
    "uge": (None, lambda a, b: z3.UGE(a, b)),
    "slt": (None, lambda a, b: a < b),
    "sle": (None, lambda a, b: a <= b),
    "sgt": (None, lambda a, b: a > b),
    "sge": (None, lambda a, b: a >= b),
}
UN_BV = {
    "neg": (lambda a: -a, lambda a: -a),
    "not": (lambda a: ~a, lambda a: ~a),
}
DIVS = {"udiv", "utruediv", "urem", "sdiv", "smod"}


def _z3_reverse(a):
    n = a.size()
    assert n % 8 == 0
    if n == 8:
        return a
    return z3.Concat(*[z3.Extract(i * 8 + 7, i * 8, a) for i in range(n // 8)])


def is_leaf(t):
    return t[0] in ("var", "bvar", "c", "lit", "int", "pybool", "boolv")


def consts_of(t, out=None):
    """(idx, width) of symbolic constants in order of first occurrence"""
    out = [] if out is None else out
    if t[0] == "c":
        if (t[1], t[2]) not in out:
            out.append((t[1], t[2]))
    elif not is_leaf(t):
        for a in t[1:]:
            if isinstance(a, list):
                consts_of(a, out)
    return out


def vars_of(t, out=None):
    out = [] if out is None else out
    if t[0] in ("var", "bvar"):
        k = tuple(t)
        if k not in out:
            out.append(k)
    elif not is_leaf(t):
        for a in t[1:]:
            if isinstance(a, list):
                vars_of(a, out)
    return out


def has_var(t):
    return bool(vars_of(t))


def div_nodes(t, out=None):
    out = [] if out is None else out
    if not is_leaf(t):
        if t[0] in DIVS:
            out.append(t)
        for a in t[1:]:
            if isinstance(a, list):
                div_nodes(a, out)
    return out


def show(t):
    k = t[0]
    if k == "var":
        return f"{t[1]}"
    if k == "bvar":
        return t[1]
    if k == "c":
        return f"c{t[1]}:{t[2]}"
    if k == "lit":
        return f"{t[1]:#x}:{t[2]}"
    if k in ("int", "pybool", "boolv"):
        return f"{k}({t[1]})"
    return k + "(" + ", ".join(show(a) if isinstance(a, list) else str(a) for a in t[1:]) + ")"


# ---------------------------------------------------------------------------------------------------------
# z3 reference interpreter


class Z3Interp:
    def __init__(self, cval=None):
        self.cval = cval or {}  # idx -> z3 term (symbolic const) override

    def var(self, name, w):
        return z3.BitVec(name, w)

    def bvar(self, name):
        return z3.Bool(name)

    def const(self, idx, w):
        if idx in self.cval:
            return self.cval[idx]
        return z3.BitVec(f"c{idx}", w)

    def ev(self, t):
        k = t[0]
        if k == "var":
            return self.var(t[1], t[2])
        if k == "bvar":
            return self.bvar(t[1])
        if k == "c":
            return self.const(t[1], t[2])
        if k == "lit":
            return z3.BitVecVal(t[1], t[2]) if t[2] > 0 else None
        if k in ("pybool", "boolv"):
            return z3.BoolVal(t[1])
        if k == "int":
            raise ValueError("raw int needs a sized sibling")
        if k in BIN_BV or k in CMP:
            a, b = self._pair(t[1], t[2])
            return (BIN_BV.get(k) or CMP[k])[1](a, b)
        if k in UN_BV:
            return UN_BV[k][1](self.ev(t[1]))
        if k == "reverse":
            return _z3_reverse(self.ev(t[1]))
        if k in ("extract", "getitem"):
            return z3.Extract(t[1], t[2], self.ev(t[3]))
        if k == "zext":
            return z3.ZeroExt(t[1], self.ev(t[2]))
        if k == "sext":
            return z3.SignExt(t[1], self.ev(t[2]))
        if k == "concat":
            args = [self.ev(a) for a in t[1:]]
            args = [a for a in args if a is not None]
            return z3.Concat(*args) if len(args) > 1 else args[0]
        if k == "And":
            return z3.And(*[self.ev(a) for a in t[1:]])
        if k == "Or":
            return z3.Or(*[self.ev(a) for a in t[1:]])
        if k in ("Not", "binvert"):
            return z3.Not(self.ev(t[1]))
        if k in ("band",):
            return z3.And(self.ev(t[1]), self.ev(t[2]))
        if k in ("bor",):
            return z3.Or(self.ev(t[1]), self.ev(t[2]))
        if k == "beq":
            return self.ev(t[1]) == self.ev(t[2])
        if k == "bne":
            return self.ev(t[1]) != self.ev(t[2])
        if k == "if":
            c = self.ev(t[1])
            a, b = self._pair(t[2], t[3])
            return z3.If(c, a, b)
        if k == "addbool":  # x + b  (Bool coerced to If(b,1,0))
            a = self.ev(t[1])
            c = self.ev(t[2])
            return a + z3.If(c, z3.BitVecVal(1, a.size()), z3.BitVecVal(0, a.size()))
        raise ValueError("unknown op " + k)

    def _pair(self, ta, tb):
        if ta[0] == "int":
            b = self.ev(tb)
            return z3.BitVecVal(ta[1], b.size()), b
        if tb[0] == "int":
            a = self.ev(ta)
            return a, z3.BitVecVal(tb[1], a.size())
        return self.ev(ta), self.ev(tb)


# ---------------------------------------------------------------------------------------------------------
# claripy interpreter (public constructors and operators only)


class ClaripyInterp:
    def __init__(self, consts, annotate=None):
        """consts: idx -> claripy BVV node (or Python int for native replay); annotate: optional callback
        (tree_node, ast) -> ast applied to every built node (C07)"""
        import claripy

        self.cl = claripy
        self.consts = consts
        self.annotate = annotate

    def ev(self, t):
        r = self._ev(t)
        if self.annotate is not None and hasattr(r, "op"):
            r = self.annotate(t, r)
        return r

    def _ev(self, t):
        cl = self.cl
        k = t[0]
        if k == "var":
            return cl.BVS(t[1], t[2], explicit_name=True)
        if k == "bvar":
            return cl.BoolS(t[1], explicit_name=True)
        if k == "c":
            return self.consts[t[1]]
        if k == "lit":
            return cl.BVV(t[1], t[2])
        if k in ("int", "pybool"):
            return t[1]
        if k == "boolv":
            return cl.BoolV(t[1])
        if k in BIN_BV or k in CMP:
            a, b = self.ev(t[1]), self.ev(t[2])
            f = (BIN_BV.get(k) or CMP[k])[0]
            if f is not None:
                return f(a, b)
            return {
                "sdiv": cl.SDiv, "smod": cl.SMod, "lshr": cl.LShR, "rol": cl.RotateLeft, "ror": cl.RotateRight,
                "ult": cl.ULT, "ule": cl.ULE, "ugt": cl.UGT, "uge": cl.UGE,
                "slt": cl.SLT, "sle": cl.SLE, "sgt": cl.SGT, "sge": cl.SGE,
            }[k](a, b)
        if k in UN_BV:
            return UN_BV[k][0](self.ev(t[1]))
        if k == "reverse":
            return cl.Reverse(self.ev(t[1]))
        if k == "extract":
            return cl.Extract(t[1], t[2], self.ev(t[3]))
        if k == "getitem":
            return self.ev(t[3])[t[1] : t[2]]
        if k == "zext":
            return cl.ZeroExt(t[1], self.ev(t[2]))
        if k == "sext":
            return cl.SignExt(t[1], self.ev(t[2]))
        if k == "concat":
            return cl.Concat(*[self.ev(a) for a in t[1:]])
        if k == "And":
            return cl.And(*[self.ev(a) for a in t[1:]])
        if k == "Or":
            return cl.Or(*[self.ev(a) for a in t[1:]])
        if k == "Not":
            return cl.Not(self.ev(t[1]))
        if k == "binvert":
            return ~self.ev(t[1])
        if k == "band":
            return self.ev(t[1]) & self.ev(t[2])
        if k == "bor":
            return self.ev(t[1]) | self.ev(t[2])
        if k == "beq":
            return self.ev(t[1]) == self.ev(t[2])
        if k == "bne":
            return self.ev(t[1]) != self.ev(t[2])
        if k == "if":
            return cl.If(self.ev(t[1]), self.ev(t[2]), self.ev(t[3]))
        if k == "addbool":
            return self.ev(t[1]) + self.ev(t[2])
        raise ValueError("unknown op " + k)


def width_of(t):
    """static width of a BV-typed tree (None for Bool / raw int)"""
    k = t[0]
    if k == "var":
        return t[2]
    if k in ("c", "lit"):
        return t[2]
    if k in ("int", "pybool", "boolv", "bvar") or k in CMP or k in ("And", "Or", "Not", "binvert", "band", "bor", "beq", "bne"):
        return None
    if k in BIN_BV:
        return width_of(t[1]) if t[1][0] != "int" else width_of(t[2])
    if k in UN_BV or k == "reverse":
        return width_of(t[1])
    if k in ("extract", "getitem"):
        return t[1] - t[2] + 1
    if k in ("zext", "sext"):
        return t[1] + width_of(t[2])
    if k == "concat":
        return sum(width_of(a) for a in t[1:])
    if k == "if":
        w = width_of(t[2])
        return w if w is not None or t[2][0] not in ("int",) else width_of(t[3])
    if k == "addbool":
        return width_of(t[1])
    raise ValueError(k)
