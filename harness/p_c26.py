"""C26: values extracted from models are values the expression actually takes.

The extraction of a Python value from a Z3 model (BackendZ3._abstract_to_primitive / _abstract_bv_val / _abstract_fp_val / string
contents, ModelCacheMixin's substitution of cached models) crosses libz3: numerals travel as C integers, decimal strings and
significand / exponent strings.  No engine here executes that boundary symbolically, so this property is decided by SOLVER-GENERATED
WITNESSES: for every value class of every sort the real frontend is asked for models under a constraint set that pins the expression
into the class (the solver - not a sampler - chooses the values, several per class through eval's own blocking clauses), and every
returned Python value is re-asserted, at bit level, in an independent Z3 query built by the harness:  constraints /\\ expr == literal(value)
must be satisfiable (floats compared by IEEE bit pattern, NaN as a class; strings as code-point sequences).  min / max are additionally
compared with Z3's own optimum (no better feasible value exists).

  w:bv:<width>:<class>        bit-vectors of widths 1..256: top-bit patterns, all-ones, values above 2^64 (decimal-string transport)
  w:fp:<sort>:<class>         NaN, +-0, +-inf, smallest / largest subnormal, smallest / largest normal, 17-significant-digit values, negative
  w:str:<class>               strings with NUL, backslash, text that looks like an escape sequence, quotes, non-ASCII, astral characters
  w:expr:<name>               values of compound expressions (x + 1, fpNeg, fpToIEEEBV, StrConcat, StrLen) and batch_eval of mixed lists
  w:cache:<name>              the same queries answered from the model cache (a second solver object that has already been queried)

Bound: the classes listed, k <= 8 models per class, frontends Solver and SolverComposite.  The claim is 'every value returned on these
solver-chosen witnesses is a value the expression takes'; it is exploration, not a decision for all values.
"""
from __future__ import annotations

import fnmatch
import math
import struct

import z3

from . import common


def bits_of(v, sort_len):
    if sort_len == 64:
        return struct.unpack("<Q", struct.pack("<d", v))[0]
    return struct.unpack("<I", struct.pack("<f", v))[0]


def seq_of(s):
    if not s:
        return z3.Empty(z3.StringSort())
    us = [z3.Unit(z3.CharVal(ord(c))) for c in s]
    return us[0] if len(us) == 1 else z3.Concat(*us)


def _fs(cl, name):
    return cl.fp.FSORT_DOUBLE if name == "DOUBLE" else cl.fp.FSORT_FLOAT


def bv_classes(w):
    m = (1 << w) - 1
    top = 1 << (w - 1)
    C = {
        "any": lambda cl, x: [],
        "top-bit": lambda cl, x: [cl.UGE(x, top)],
        "all-ones": lambda cl, x: [x == m],
        "zero": lambda cl, x: [x == 0],
        "int-min": lambda cl, x: [x == top],
        "near-max": lambda cl, x: [cl.UGE(x, m - 3)],
        "alternating": lambda cl, x: [x & (m // 3) == (m // 3)] if w >= 2 else [],
    }
    if w > 64:
        C["above-2^64"] = lambda cl, x: [cl.UGT(x, 1 << 64)]
        C["low-zero-high-set"] = lambda cl, x: [x[63:0] == 0, x[w - 1:64] != 0]
    return C


def fp_classes(name):
    eb, sb = (11, 52) if name == "DOUBLE" else (8, 23)
    w = 1 + eb + sb
    emax = (1 << eb) - 1

    def pat(cl, x, sign=None, exp=None, frac=None, frac_nz=False):
        b = cl.fpToIEEEBV(x)
        cs = []
        if sign is not None:
            cs.append(b[w - 1:w - 1] == sign)
        if exp is not None:
            cs.append(b[w - 2:sb] == exp)
        if frac is not None:
            cs.append(b[sb - 1:0] == frac)
        if frac_nz:
            cs.append(b[sb - 1:0] != 0)
        return cs

    return {
        "nan": lambda cl, x: [cl.fpIsNaN(x)],
        "plus-zero": lambda cl, x: pat(cl, x, 0, 0, 0),
        "minus-zero": lambda cl, x: pat(cl, x, 1, 0, 0),
        "plus-inf": lambda cl, x: [cl.fpIsInf(x), cl.fpGT(x, cl.FPV(0.0, _fs(cl, name)))],
        "minus-inf": lambda cl, x: [cl.fpIsInf(x), cl.fpLT(x, cl.FPV(0.0, _fs(cl, name)))],
        "min-subnormal": lambda cl, x: pat(cl, x, None, 0, 1),
        "max-subnormal": lambda cl, x: pat(cl, x, None, 0, (1 << sb) - 1),
        "subnormal": lambda cl, x: pat(cl, x, None, 0, None, frac_nz=True),
        "min-normal": lambda cl, x: pat(cl, x, None, 1, 0),
        "max-normal": lambda cl, x: pat(cl, x, None, emax - 1, (1 << sb) - 1),
        "normal-odd-frac": lambda cl, x: pat(cl, x, None, None, None) + [cl.fpToIEEEBV(x)[0:0] == 1, cl.Not(cl.fpIsNaN(x)), cl.Not(cl.fpIsInf(x))],
        "tiny-exp": lambda cl, x: pat(cl, x, None, 2, None),
        "huge-exp": lambda cl, x: pat(cl, x, None, emax - 2, None),
        "negative": lambda cl, x: [cl.fpLT(x, cl.FPV(-1.0, _fs(cl, name)))],
        "around-one": lambda cl, x: [cl.fpGT(x, cl.FPV(0.9999, _fs(cl, name))), cl.fpLT(x, cl.FPV(1.0001, _fs(cl, name)))],
        "any": lambda cl, x: [],
    }


STR_LITS = {"nul": "\x00z", "backslash": "a\\b", "escape-text": "\\u{48}", "escape-text-4": "\\u0041", "quote": 'q"q', "newline": "a\nb", "latin1": "\xe9\xff",
            "bmp": "中Ā", "astral": "\U0001F600x", "empty": "", "mixed": "\x00\\u{0}\U0001F600\"", "high": "\U0002FFFF", "del": "\x7f\x80"}


def obligations(tier):
    out = []
    for w in ([1, 8, 64, 65, 128] if tier == "quick" else [1, 2, 8, 32, 63, 64, 65, 100, 128, 256, 1024]):
        for c in bv_classes(w):
            out.append((f"w:bv:{w}:{c}", {"kind": "bv", "w": w, "cls": c}))
    for s in ("DOUBLE", "FLOAT"):
        for c in fp_classes(s):
            out.append((f"w:fp:{s}:{c}", {"kind": "fp", "sort": s, "cls": c}))
    for c in STR_LITS:
        out.append((f"w:str:pin-{c}", {"kind": "str", "cls": c, "mode": "pin"}))
    for c in ("len2-with-nul", "len1-any", "contains-backslash", "prefix-astral"):
        out.append((f"w:str:{c}", {"kind": "str", "cls": c, "mode": "class"}))
    for e in ("bv-add", "bv-concat-wide", "fp-neg", "fp-bits", "fp-add", "str-concat", "str-len", "batch-mixed"):
        out.append((f"w:expr:{e}", {"kind": "expr", "name": e}))
    return out


FRONTENDS = {"Solver": lambda cl: cl.Solver(), "SolverComposite": lambda cl: cl.SolverComposite()}


def _check_values(zs_constraints, zexpr, values, lit, what):
    """every value re-asserted: constraints /\\ expr == literal(value) satisfiable"""
    for v in values:
        s = z3.Solver()
        s.set("timeout", 30000)
        s.add(*zs_constraints)
        s.add(lit(zexpr, v))
        r = s.check()
        if r == z3.unsat:
            return f"{what} returned {v!r}, which the expression cannot take under the constraints"
        if r == z3.unknown:
            return None if False else f"?undecided re-assertion of {v!r}"
    return None


def _fp_lit(sort_len):
    def lit(ze, v):
        if isinstance(v, float) and math.isnan(v):
            return z3.fpIsNaN(ze)
        return z3.fpToIEEEBV(ze) == z3.BitVecVal(bits_of(v, sort_len), sort_len)

    return lit


def run_obligation(oid, params, tier):
    import claripy

    res = common.result(oid, "holds")
    kind = params["kind"]
    conv = claripy.backends.z3.convert
    K = 8 if tier == "quick" else 24
    fails = []
    incon = []

    def record(d):
        if d is None:
            return
        (incon if d.startswith("?") else fails).append(d)

    for fname, mk in FRONTENDS.items():
        for cached in (False, True):
            s = mk(claripy)
            if kind == "bv":
                w = params["w"]
                x = claripy.BVS("wx", w, explicit_name=True)
                cs = bv_classes(w)[params["cls"]](claripy, x)
                exprs = [(x, lambda ze, v: ze == z3.BitVecVal(v, w), "bv")]
            elif kind == "fp":
                fs = _fs(claripy, params["sort"])
                x = claripy.FPS("wf", fs, explicit_name=True)
                cs = fp_classes(params["sort"])[params["cls"]](claripy, x)
                exprs = [(x, _fp_lit(fs.length), "fp")]
            elif kind == "str":
                x = claripy.StringS("ws", explicit_name=True)
                if params["mode"] == "pin":
                    cs = [x == claripy.StringV(STR_LITS[params["cls"]])]
                else:
                    cs = {"len2-with-nul": [claripy.StrLen(x) == 2, claripy.StrContains(x, claripy.StringV("\x00"))],
                          "len1-any": [claripy.StrLen(x) == 1],
                          "contains-backslash": [claripy.StrLen(x) == 3, claripy.StrContains(x, claripy.StringV("\\u"))],
                          "prefix-astral": [claripy.StrLen(x) == 2, claripy.StrPrefixOf(claripy.StringV("\U0001F600"), x)]}[params["cls"]]
                exprs = [(x, lambda ze, v: ze == seq_of(v), "str")]
            else:
                cs, exprs = _expr_case(claripy, params["name"])
            s.add(cs)
            zcs = [conv(c) for c in cs]
            if cached:
                try:
                    s.satisfiable()
                    for e, _, _ in exprs:
                        s.eval(e, 2)
                except claripy.errors.ClaripyError:
                    pass
            for e, lit, tag in exprs:
                res["paths"] += 1
                ze = conv(e)
                try:
                    vals = list(s.eval(e, K))
                except claripy.errors.UnsatError:
                    vals = []
                except claripy.errors.ClaripyZ3Error as ex:
                    incon.append(f"?Z3 gave up on {e!r:.60}: {str(ex.__cause__)[:60]}")
                    continue
                except Exception as ex:  # noqa: BLE001
                    fails.append(f"{fname}.eval({e!r:.60}) raised {type(ex).__name__}: {str(ex)[:100]}")
                    continue
                res["queries"] = res.get("queries", 0) + len(vals)
                if not vals:
                    chk = z3.Solver()
                    chk.set("timeout", 30000)
                    if chk.check(*zcs) == z3.sat:
                        fails.append(f"{fname}.eval({e!r:.60}) returned nothing although the class is satisfiable")
                    continue
                bad_type = [v for v in vals if not isinstance(v, {"bv": int, "fp": float, "str": str}[tag]) or isinstance(v, bool)]
                if bad_type:
                    fails.append(f"{fname}.eval({e!r:.60}) returned {bad_type[0]!r} of type {type(bad_type[0]).__name__}")
                    continue
                record(_check_values(zcs, ze, vals, lit, f"{fname}{' (cached)' if cached else ''}.eval({e!r:.60}, {K})"))
                if tag == "fp":
                    nn = [v for v in vals if not math.isnan(v)]
                    if len({bits_of(v, e.length) for v in nn}) != len(nn):
                        fails.append(f"{fname}.eval({e!r:.60}) returned duplicates {vals!r:.100}")
                elif len(set(vals)) != len(vals):
                    fails.append(f"{fname}.eval({e!r:.60}) returned duplicates {vals!r:.100}")
                if tag == "bv":
                    for q, signed in (("min", False), ("max", False), ("min", True), ("max", True)):
                        try:
                            v = getattr(s, q)(e, signed=signed)
                        except Exception as ex:  # noqa: BLE001
                            fails.append(f"{fname}.{q}({e!r:.60}, signed={signed}) raised {type(ex).__name__}: {str(ex)[:100]}")
                            continue
                        w = e.length
                        u = v & ((1 << w) - 1)
                        record(_check_values(zcs, ze, [u], lit, f"{fname}.{q}({e!r:.60}, signed={signed})"))
                        if signed and not -(1 << (w - 1)) <= v < (1 << (w - 1)):
                            fails.append(f"{fname}.{q}({e!r:.60}, signed=True) returned {v}, outside the signed range of {w} bits")
                        if not signed and not 0 <= v < (1 << w):
                            fails.append(f"{fname}.{q}({e!r:.60}, signed=False) returned {v}, outside the unsigned range of {w} bits")
                        chk = z3.Solver()
                        chk.set("timeout", 30000)
                        chk.add(*zcs)
                        zu = z3.BitVecVal(u, w)
                        better = {("min", False): z3.ULT(ze, zu), ("max", False): z3.UGT(ze, zu), ("min", True): ze < zu, ("max", True): ze > zu}[(q, signed)]
                        r = chk.check(better)
                        if r == z3.sat:
                            fails.append(f"{fname}.{q}({e!r:.60}, signed={signed}) returned {v} but {chk.model().eval(ze)} is feasible and better")
                        elif r == z3.unknown:
                            incon.append("?undecided optimality query")
            if kind == "expr" and params["name"] == "batch-mixed":
                es = [e for e, _, _ in exprs]
                try:
                    rows = s.batch_eval(es, 4)
                except Exception as ex:  # noqa: BLE001
                    fails.append(f"{fname}.batch_eval raised {type(ex).__name__}: {str(ex)[:100]}")
                    rows = []
                for row in rows:
                    chk = z3.Solver()
                    chk.set("timeout", 30000)
                    chk.add(*zcs)
                    for (e, lit, _), v in zip(exprs, row):
                        chk.add(lit(conv(e), v))
                    r = chk.check()
                    if r == z3.unsat:
                        fails.append(f"{fname}.batch_eval returned the row {row!r:.100}, which is not a joint value of the expressions")
            if fails:
                break
        if fails:
            break
    if fails:
        res["status"] = "violation"
        res["detail"] = fails[0]
        res["cex"] = [{"harness": "harness.p_c26", "params": params, "vals": {}, "obligation": oid, "detail": fails[0][:300]}]
    elif incon:
        res["status"] = "inconclusive"
        res["detail"] = incon[0]
        res["inconclusive"] = incon[:3]
    return res


def _expr_case(cl, name):
    x = cl.BVS("ex", 64, explicit_name=True)
    y = cl.BVS("ey", 72, explicit_name=True)
    f = cl.FPS("ef", cl.fp.FSORT_DOUBLE, explicit_name=True)
    g = cl.FPS("eg", cl.fp.FSORT_FLOAT, explicit_name=True)
    t = cl.StringS("et", explicit_name=True)
    bvl = lambda w: (lambda ze, v: ze == z3.BitVecVal(v, w))  # noqa: E731
    strl = lambda ze, v: ze == seq_of(v)  # noqa: E731
    if name == "bv-add":
        return [cl.UGE(x, (1 << 64) - 4)], [(x + 3, bvl(64), "bv")]
    if name == "bv-concat-wide":
        return [cl.UGE(x, 1 << 63), y[71:64] == 0xAB], [(cl.Concat(y, x), bvl(136), "bv")]
    if name == "fp-neg":
        return [cl.fpToIEEEBV(f)[62:52] == 0, cl.fpToIEEEBV(f)[51:0] != 0], [(cl.fpNeg(f), _fp_lit(64), "fp")]
    if name == "fp-bits":
        return [cl.fpIsNaN(f) == cl.false(), cl.fpLT(f, cl.FPV(-0.0, cl.fp.FSORT_DOUBLE))], [(cl.fpToIEEEBV(f), bvl(64), "bv")]
    if name == "fp-add":
        return [cl.fpGT(g, cl.FPV(1e30, cl.fp.FSORT_FLOAT))], [(cl.fpAdd(cl.fp.RM.RM_NearestTiesEven, g, g), _fp_lit(32), "fp")]
    if name == "str-concat":
        return [cl.StrLen(t) == 1], [(cl.StrConcat(t, cl.StringV("\x00\\")), strl, "str")]
    if name == "str-len":
        return [cl.StrContains(t, cl.StringV("\U0001F600\x00")), cl.StrLen(t) == 3], [(cl.StrLen(t), bvl(64), "bv"), (t, strl, "str")]
    if name == "batch-mixed":
        return [cl.UGE(x, (1 << 64) - 2), cl.fpIsNaN(f) | cl.fpIsInf(f), cl.StrLen(t) == 1, t != cl.StringV("a")], \
               [(x, bvl(64), "bv"), (f, _fp_lit(64), "fp"), (t, strl, "str")]
    raise ValueError(name)


def replay(case):
    r = run_obligation(case["obligation"], case["params"], "quick")
    return {"violated": r["status"] == "violation", "detail": r.get("detail", "")}


FUNCTIONS = ["claripy.backends.backend_z3.BackendZ3._abstract_to_primitive / _abstract_bv_val / _abstract_fp_val / _abstract_fp_encoded_val / _z3_string_value",
             "BackendZ3._generic_model / _primitive_from_model / _batch_eval / _extrema (real libz3)", "claripy.frontend.mixin.model_cache_mixin (cached models reused for later queries)",
             "claripy.backends.backend_z3.str_to_int_unlimited"]


def check(prop, tier, cap, only=None, procs=None, list_only=False, t0=None):
    obs = obligations(tier)
    if only:
        obs = [o for o in obs if fnmatch.fnmatchcase(o[0], only)]
    if list_only:
        for o, _ in obs:
            print(o)
        return 0
    results = common.run_pool("harness.p_c26", obs, tier, cap, procs=procs)
    return common.finish(
        prop, tier, "exploration", results, t0, functions=FUNCTIONS,
        bounds={"bv_widths": [1, 8, 64, 65, 128] if tier == "quick" else [1, 2, 8, 32, 63, 64, 65, 100, 128, 256, 1024], "fp_sorts": ["DOUBLE", "FLOAT"],
                "classes": "bit-vector: any / top bit / all ones / zero / int-min / near max / alternating / above 2^64; float: NaN, +-0, +-inf, min / max / any subnormal, "
                           "min / max normal, odd fraction, tiny / huge exponent, negative, around one; strings: 13 pinned literals and 4 classes",
                "models_per_class": 8 if tier == "quick" else 24, "frontends": list(FRONTENDS), "cached_and_fresh": True,
                "outside": "values not chosen by the solver for these classes; the libz3 numeral conversions themselves are exercised, not encoded"},
        assumptions=["the witnesses are chosen by Z3 (through the real frontends' eval / batch_eval / min / max), not enumerated or sampled by the harness",
                     "the oracle is an independent Z3 query built by the harness: constraints /\\ expr == literal(value), floats by IEEE bit pattern (NaN as a class), "
                     "strings as sequences of code points built with CharVal"],
        rule="one obligation = one value class of one sort; every value returned for it by Solver and SolverComposite, fresh and from the model cache, is re-asserted; "
             "min / max are also compared with Z3's optimum",
        trusted_base=["z3 4.13.0", "the harness's literal builders (BitVecVal, fpToIEEEBV == bits, Unit(CharVal))"],
    )
