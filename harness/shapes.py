"""Operation-tree shapes for the expression-level properties (C01/C04/C05/C06/C07/C10).

seeds(n): rule-targeted templates, one or more per branch of every simplifier in simplifications.py and of
If() (DESIGN.md appendix B).  grammar1/grammar2: all depth-1 trees / depth-2 compositions.
All constant positions are symbolic (["c", i, w]) unless a literal is required by the rule's syntax.
"""
from __future__ import annotations

from .expr import BIN_BV, CMP, DIVS


def X(n):
    return ["var", "x", n]


def Y(n):
    return ["var", "y", n]


def Z(n):
    return ["var", "z", n]


B = ["bvar", "b"]
B2 = ["bvar", "b2"]


def C(i, w):
    return ["c", i, w]


def L(v, w):
    return ["lit", v & ((1 << w) - 1), w]


HEAVY = {"mul", "udiv", "utruediv", "urem", "sdiv", "smod"}


def is_heavy(t):
    if not isinstance(t, list):
        return False
    if t and t[0] in HEAVY:
        return True
    return any(is_heavy(a) for a in t[1:] if isinstance(a, list))


def seeds(n):
    """returns list of (name, tree) valid at base width n"""
    x, y, z = X(n), Y(n), Z(n)
    c0, c1, c2, c3 = C(0, n), C(1, n), C(2, n), C(3, n)
    S = []
    add = S.append
    # ---- concat
    if n >= 2:
        h = n // 2
        add(("concat-c-c-x", ["concat", C(0, h), C(1, h), x]))
        add(("concat-x-c-c", ["concat", x, C(0, h), C(1, h)]))
        add(("concat-nested", ["concat", ["concat", x, y], c0]))
        add(("concat-adjacent-extract", ["concat", ["extract", n - 1, h, x], ["extract", h - 1, 0, x]]))
        add(("concat-3-adjacent", ["concat", ["extract", n - 1, h, x], ["extract", h - 1, h - 1, x], ["extract", h - 1, 0, x]]))
        add(("concat-diff-vars", ["concat", ["extract", n - 1, h, x], ["extract", h - 1, 0, y]]))
        if h >= 2:
            add(("concat-gap-extract", ["concat", ["extract", n - 1, h, x], ["extract", h - 2, 0, x]]))
            add(("concat-overlap-extract", ["concat", ["extract", n - 1, h, x], ["extract", h, 0, x]]))
        add(("concat-c-x-c-c", ["concat", C(0, h), x, C(1, h), C(2, h)]))
    add(("concat-zero-length", ["concat", ["lit", 0, 0], x]))
    add(("concat-single", ["concat", x]))
    # ---- shifts
    for op in ("ashr", "lshr", "shl"):
        add((f"{op}-x-0", [op, x, L(0, n)]))
        add((f"{op}-x-c", [op, x, c0]))
        add((f"{op}-c-x", [op, c0, x]))
        add((f"{op}-c-c", [op, c0, c1]))
        add((f"{op}-x-int", [op, x, ["int", 1]]))
    for op in ("ashr", "lshr"):
        for k in sorted({1, max(1, n // 2), n}):
            add((f"{op}-concat0_{k}-c", [op, ["concat", L(0, k), x], C(0, n + k)]))
            add((f"{op}-zext{k}-c", [op, ["zext", k, x], C(0, n + k)]))
            add((f"{op}-concatc_{k}-c", [op, ["concat", C(1, k), x], C(0, n + k)]))
    add(("shl-shl-cc", ["shl", ["shl", x, c0], c1]))
    add(("shl-shl-yc", ["shl", ["shl", x, y], c0]))
    add(("shl-shl-cxc", ["shl", ["shl", c0, x], c1]))
    add(("shl-shl-shl", ["shl", ["shl", ["shl", x, c0], c1], c2]))
    # a shift by a constant, shifted again by a NON-constant amount (the nested-shift rewrites read the amounts as integers)
    for op in ("shl", "lshr", "ashr"):
        for op2 in ("shl", "lshr", "ashr"):
            add((f"{op}-{op2}c-y", [op, [op2, x, c0], y]))
            add((f"{op}-{op2}c-addyc", [op, [op2, x, c0], ["add", y, c1]]))
            add((f"{op}-{op2}c-ifcc", [op, [op2, x, c0], ["if", B, c1, c2]]))
    # ---- eq / ne
    for op in ("eq", "ne"):
        add((f"{op}-x-x", [op, x, x]))
        add((f"{op}-c-x", [op, c0, x]))
        add((f"{op}-x-c", [op, x, c0]))
        add((f"{op}-c-c", [op, c0, c1]))
        add((f"{op}-sub-c-c", [op, ["sub", x, c0], c1]))
        add((f"{op}-c-sub-c", [op, c1, ["sub", x, c0]]))
        add((f"{op}-xor1-0", [op, ["xor", x, L(1, n)], L(0, n)]))
        add((f"{op}-1xor-0", [op, ["xor", L(1, n), x], L(0, n)]))
        add((f"{op}-xorc-c", [op, ["xor", x, c0], c1]))
        add((f"{op}-cxor-c", [op, ["xor", c0, x], c1]))
        add((f"{op}-andc-xorc-c", [op, ["xor", ["and", y, c0], c1], c2]))
        add((f"{op}-candy-xorc-c", [op, ["xor", ["and", c0, y], c1], c2]))
        add((f"{op}-andc-xorc-0", [op, ["xor", ["and", y, c0], c1], L(0, n)]))
        add((f"{op}-candy-xorc-0", [op, ["xor", ["and", c0, y], c1], L(0, n)]))
        add((f"{op}-if-cc-c", [op, ["if", B, c0, c1], c2]))
        add((f"{op}-c-if-cc", [op, c2, ["if", B, c0, c1]]))
        add((f"{op}-if-xc-x", [op, ["if", B, x, c0], x]))
        add((f"{op}-if-cx-x", [op, ["if", B, c0, x], x]))
        add((f"{op}-x-if-xc", [op, x, ["if", B, x, c0]]))
        add((f"{op}-x-if-cx", [op, x, ["if", B, c0, x]]))
        add((f"{op}-if-xy-x", [op, ["if", B, x, y], x]))
        add((f"{op}-andmask-c", [op, ["and", x, c0], c1]))
        add((f"{op}-maskand-c", [op, ["and", c0, x], c1]))
        add((f"{op}-c-andmask", [op, c1, ["and", x, c0]]))
        add((f"{op}-andmask-and-c", [op, ["and", ["and", x, y], c0], c1]))
        if n % 8 == 0:
            add((f"{op}-rev-rev", [op, ["reverse", x], ["reverse", y]]))
            add((f"{op}-rev-c", [op, ["reverse", x], c0]))
        for k in sorted({1, max(1, n // 2), n}):
            add((f"{op}-zext{k}-c", [op, ["zext", k, x], C(0, n + k)]))
            add((f"{op}-concat0_{k}-c", [op, ["concat", L(0, k), x], C(0, n + k)]))
            add((f"{op}-concatc_{k}-c", [op, ["concat", C(1, k), x], C(0, n + k)]))
            add((f"{op}-concatx-c_{k}", [op, ["concat", x, C(1, k)], C(0, n + k)]))
            add((f"{op}-sext{k}-c", [op, ["sext", k, x], C(0, n + k)]))
            for hi in sorted({0, n - 1, n, n + k - 2} & set(range(0, n + k - 1))):
                add((f"{op}-ext{hi}-zext{k}-c", [op, ["extract", hi, 0, ["zext", k, x]], C(0, hi + 1)]))
                add((f"{op}-ext{hi}-concat0_{k}-c", [op, ["extract", hi, 0, ["concat", L(0, k), x]], C(0, hi + 1)]))
                add((f"{op}-ext{hi}-concatc_{k}-c", [op, ["extract", hi, 0, ["concat", C(1, k), x]], C(0, hi + 1)]))
    for k in sorted({1, max(1, n // 2), n}):
        add((f"uge-zext{k}-c", ["uge", ["zext", k, x], C(0, n + k)]))
        add((f"uge-concat0_{k}-c", ["uge", ["concat", L(0, k), x], C(0, n + k)]))
        add((f"ge-zext{k}-c", ["ge", ["zext", k, x], C(0, n + k)]))
        add((f"uge-c-zext{k}", ["uge", C(0, n + k), ["zext", k, x]]))
    add(("beq-b-true", ["beq", B, ["boolv", True]]))
    add(("beq-true-b", ["beq", ["boolv", True], B]))
    add(("beq-b-false", ["beq", B, ["boolv", False]]))
    add(("beq-false-b", ["beq", ["boolv", False], B]))
    add(("beq-b-b2", ["beq", B, B2]))
    add(("bne-b-b2", ["bne", B, B2]))
    add(("beq-cmp-true", ["beq", ["ult", x, c0], ["boolv", True]]))
    # ---- reverse
    if n % 8 == 0:
        add(("rev-rev", ["reverse", ["reverse", x]]))
        add(("rev-x", ["reverse", x]))
        add(("rev-c", ["reverse", c0]))
        add(("rev-add", ["reverse", ["add", x, c0]]))
        nb = n // 8
        if nb >= 2:
            add(("rev-concat-bytes-swapped", ["reverse", ["concat", *[["extract", i * 8 + 7, i * 8, x] for i in range(nb)]]]))
            add(("rev-concat-bytes-inorder", ["reverse", ["concat", *[["extract", i * 8 + 7, i * 8, x] for i in reversed(range(nb))]]]))
            add(("rev-concat-bytes-partial", ["reverse", ["concat", *[["extract", i * 8 + 7, i * 8, ["zext", 8, x]] for i in range(nb)]]]))
            add(("rev-concat-bytes-mixed", ["reverse", ["concat", ["extract", 7, 0, x], *[["extract", i * 8 + 7, i * 8, y] for i in range(1, nb)]]]))
            add(("rev-concat-8bit-parts", ["reverse", ["concat", *[["var", f"v{i}", 8] for i in range(nb)]]]))
            add(("rev-concat-rev-rev", ["reverse", ["concat", ["reverse", x], ["reverse", y]]]))
            add(("rev-concat-rev-x", ["reverse", ["concat", ["reverse", x], y]]))
            for hi, lo in ((n - 1, 8), (n - 9, 0), (n - 1, 0), (7, 0), (15, 8)):
                if hi >= lo and (hi - lo + 1) % 8 == 0 and hi < n:
                    add((f"rev-ext{hi}_{lo}-rev", ["reverse", ["extract", hi, lo, ["reverse", x]]]))
            add(("ext-rev-concat", ["extract", n - 1, 8, ["reverse", ["concat", ["extract", n - 1, 8, x], ["extract", 7, 0, y]]]]))
            add(("ext-rev-concat-c", ["extract", n - 1, 8, ["reverse", ["concat", C(0, n - 8), ["extract", 7, 0, y]]]]))
            for lo in range(0, n, 8):
                add((f"ext-byte{lo}-rev", ["extract", lo + 7, lo, ["reverse", x]]))
            add(("ext-unaligned-rev", ["extract", 10, 3, ["reverse", x]]))
            add(("ext-rev-concat-xy", ["extract", n + 3, 5, ["reverse", ["concat", x, y]]]))
            add(("ext-rev-concat-cc", ["extract", n + 3, 5, ["reverse", ["concat", c0, c1]]]))
    else:
        add(("rev-nonbyte", ["reverse", x]))
        add(("rev-nonbyte-c", ["reverse", c0]))
    # ---- And / Or / Not
    cmp1 = ["ult", x, c0]
    cmp2 = ["sle", y, c1]
    add(("and-true", ["And", cmp1, ["boolv", True]]))
    add(("and-false", ["And", cmp1, ["boolv", False]]))
    add(("and-true-true", ["And", ["boolv", True], ["boolv", True]]))
    add(("and-pybool", ["And", cmp1, ["pybool", True]]))
    add(("and-eqc-eqc", ["And", ["eq", x, c0], ["eq", x, c1]]))
    add(("and-eqc-eqc-y", ["And", ["eq", x, c0], ["eq", y, c1]]))
    add(("and-uge-ne", ["And", ["uge", x, y], ["ne", x, y]]))
    add(("and-uge-ne-c", ["And", ["uge", x, c0], ["ne", x, c0]]))
    add(("and-uge-ne-cc", ["And", ["uge", x, c0], ["ne", x, c1]]))
    add(("and-ne-uge", ["And", ["ne", x, y], ["uge", x, y]]))
    add(("and-nested", ["And", ["And", cmp1, cmp2], cmp1]))
    add(("and-nested-b", ["And", ["And", B, B2], ["And", B2, B]]))
    add(("and-eqc-nec", ["And", ["eq", x, c0], ["ne", x, c1]]))
    add(("and-eqy-ney", ["And", ["eq", x, y], ["ne", x, y]]))
    add(("and-eqy-nec", ["And", ["eq", x, y], ["ne", x, c0]]))
    add(("and-eqc-nec-nec", ["And", ["eq", x, c0], ["ne", x, c1], ["ne", x, c2]]))
    add(("and-eqc-eqc-eqc", ["And", ["eq", x, c0], ["eq", x, c1], ["eq", x, c2]]))
    add(("and-nec-nec", ["And", ["ne", x, c0], ["ne", x, c1]]))
    add(("and-c-eq-x", ["And", ["eq", c0, x], ["ne", c1, x]]))
    add(("and-ult-eq", ["And", ["ult", x, c0], ["eq", x, c1]]))
    add(("and-b-b", ["And", B, B]))
    # equalities / disequalities over one variable mixed with non-constant operands and with one-argument conjuncts
    add(("and-eqc-ney", ["And", ["eq", x, c0], ["ne", x, y]]))
    add(("and-ney-eqc", ["And", ["ne", x, y], ["eq", x, c0]]))
    add(("and-eqc-ney1", ["And", ["eq", x, c0], ["ne", x, ["add", y, L(1, n)]]]))
    add(("and-eqc-nec-ney", ["And", ["eq", x, c0], ["ne", x, c1], ["ne", x, y]]))
    add(("and-nec-nec-b", ["And", ["ne", x, c0], ["ne", x, c1], B]))
    add(("and-eqc-nec-notb", ["And", ["eq", x, c0], ["ne", x, c1], ["Not", B]]))
    add(("and-ney-nec-b", ["And", ["ne", x, y], ["ne", x, c0], B]))
    add(("and-and-nec-nec-b", ["And", ["And", ["ne", x, c0], ["ne", x, c1]], B]))
    add(("or-eqc-eqy", ["Or", ["eq", x, c0], ["eq", x, y]]))
    add(("or-nec-nec-b", ["Or", ["ne", x, c0], ["ne", x, c1], B]))
    add(("band-b-b2", ["band", B, B2]))
    add(("bor-b-b2", ["bor", B, B2]))
    add(("or-true", ["Or", cmp1, ["boolv", True]]))
    add(("or-false", ["Or", cmp1, ["boolv", False]]))
    add(("or-false-false", ["Or", ["boolv", False], ["boolv", False]]))
    add(("or-nested", ["Or", ["Or", cmp1, cmp2], cmp1]))
    add(("or-b-b", ["Or", B, B]))
    add(("or-and", ["Or", ["And", B, B2], ["Not", B]]))
    for k in CMP:
        add((f"not-{k}", ["Not", [k, x, c0]]))
        add((f"not-{k}-xy", ["Not", [k, x, y]]))
    add(("not-not", ["Not", ["Not", B]]))
    add(("not-and", ["Not", ["And", B, B2]]))
    add(("binvert-b", ["binvert", B]))
    add(("not-cmp-cc", ["Not", ["slt", c0, c1]]))
    # ---- flatten
    for op in ("add", "mul", "and", "or", "xor"):
        add((f"{op}-flat-cc", [op, [op, x, c0], c1]))
        add((f"{op}-flat-c-cc", [op, c1, [op, x, c0]]))
        add((f"{op}-flat-xy-xc", [op, [op, x, y], [op, x, c0]]))
        add((f"{op}-flat-3", [op, [op, [op, x, c0], y], c1]))
        add((f"{op}-flat-ccc", [op, [op, [op, x, c0], c1], c2]))
        add((f"{op}-x-x", [op, x, x]))
        add((f"{op}-x-0", [op, x, L(0, n)]))
        add((f"{op}-0-x", [op, L(0, n), x]))
        add((f"{op}-x-ones", [op, x, L(-1, n)]))
        add((f"{op}-ones-x", [op, L(-1, n), x]))
        add((f"{op}-x-c", [op, x, c0]))
        add((f"{op}-c-x", [op, c0, x]))
        add((f"{op}-c-c", [op, c0, c1]))
        add((f"{op}-int-x", [op, ["int", -1], x]))
        add((f"{op}-x-int", [op, x, ["int", 1]]))
    # ---- add / sub
    add(("add-sub-cc", ["add", ["sub", x, c0], c1]))
    add(("add-c-sub", ["add", c1, ["sub", x, c0]]))
    add(("sub-x-0", ["sub", x, L(0, n)]))
    add(("sub-x-c", ["sub", x, c0]))
    add(("sub-c-x", ["sub", c0, x]))
    add(("sub-sub-cc", ["sub", ["sub", x, c0], c1]))
    add(("sub-add-cc", ["sub", ["add", x, c0], c1]))
    add(("sub-add3-cc", ["sub", ["add", ["add", x, y], c0], c1]))
    add(("sub-add-cx-c", ["sub", ["add", c0, x], c1]))
    add(("sub-x-x", ["sub", x, x]))
    add(("sub-xy-xy", ["sub", ["add", x, y], ["add", x, y]]))
    add(("sub-xy-yx", ["sub", ["add", x, y], ["add", y, x]]))
    add(("sub-c-c", ["sub", c0, c1]))
    add(("sub-int-x", ["sub", ["int", 0], x]))
    add(("sub-x-int", ["sub", x, ["int", 1]]))
    add(("neg-x", ["neg", x]))
    add(("neg-c", ["neg", c0]))
    add(("neg-neg", ["neg", ["neg", x]]))
    # ---- xor / or / and specials
    add(("xor-x-y-x", ["xor", ["xor", x, y], x]))
    add(("xor-x-c-x", ["xor", ["xor", x, c0], x]))
    add(("xor-xy-xy", ["xor", ["xor", x, y], ["xor", y, x]]))
    add(("or-c-c-same", ["or", c0, c0]))
    add(("and-c-c-same", ["and", c0, c0]))
    add(("and-concat-mask", ["and", ["concat", y, x], C(0, 2 * n)]))
    add(("and-concat-mask-c", ["and", ["concat", C(1, n), x], C(0, 2 * n)]))
    add(("and-if10-if10", ["and", ["if", B, L(1, n), L(0, n)], ["if", B2, L(1, n), L(0, n)]]))
    add(("and-ifcc-ifcc", ["and", ["if", B, c0, c1], ["if", B2, c2, c3]]))
    add(("and-ifcc-c", ["and", ["if", B, c0, c1], c2]))
    # signed min/max idiom:  q ^ ((((q-r)^q)&(q^r))^(q-r) >> n-1) & (q^r))
    q, r = x, y
    for nm, s_, u_other in (("max", ["sub", q, r], q), ("min", ["sub", r, q], r)):
        t_ = ["xor", q, r]
        u_ = ["xor", s_, u_other]
        v_ = ["and", u_, t_]
        w_ = ["xor", v_, s_]
        for kname, kk in (("lit", L(n - 1, n)), ("c", c0)):
            xx = ["ashr", w_, kk]
            yy = ["and", xx, t_]
            add((f"xor-signed{nm}-{kname}", ["xor", q, yy]))
            add((f"xor-signed{nm}-{kname}-swapped", ["xor", yy, q]))
    # mismatched idiom (s uses r-q but u uses q): must not be recognised wrongly
    s_ = ["sub", r, q]
    t_ = ["xor", q, r]
    w_ = ["xor", ["and", ["xor", s_, q], t_], s_]
    add(("xor-signed-mismatch", ["xor", q, ["and", ["ashr", w_, L(n - 1, n)], t_]]))
    # rotate-shift-mask ((x<<c1)|LShR(x,c2))&c3
    add(("rotate-shift-mask-ccc", ["and", ["or", ["shl", x, c0], ["lshr", x, c1]], c2]))
    add(("rotate-shift-mask-xy", ["and", ["or", ["shl", x, c0], ["lshr", y, c1]], c2]))
    if n in (32, 64):
        for a in (8, 16, n // 2, n - 8):
            add((f"rotate-shift-mask-{a}", ["and", ["or", ["shl", x, L(a, n)], ["lshr", x, L(n - a, n)]], c2]))
    if n == 64:
        add(("rotate-shift-mask-32in64", ["and", ["or", ["shl", x, L(8, n)], ["lshr", x, L(24, n)]], c2]))
    # ---- extensions / extract
    add(("zext0", ["zext", 0, x]))
    add(("sext0", ["sext", 0, x]))
    add(("zext-zext", ["zext", 2, ["zext", 3, x]]))
    add(("sext-sext", ["sext", 2, ["sext", 3, x]]))
    add(("zext-c", ["zext", 3, c0]))
    add(("sext-c", ["sext", 3, c0]))
    add(("extract-full", ["extract", n - 1, 0, x]))
    add(("getitem-full", ["getitem", n - 1, 0, x]))
    add(("extract-c", ["extract", n - 1, n // 2, c0]))
    if n >= 4:
        hs = sorted({0, 1, n // 2 - 1, n // 2, n - 2, n - 1})
        pairs = [(hi, lo) for hi in hs for lo in hs if 0 <= lo <= hi < n]
        wide = sorted({0, 1, n - 1, n, n + 1, n + 2})
        wpairs = [(hi, lo) for hi in wide for lo in wide if 0 <= lo <= hi < n + 3]
        for hi, lo in wpairs:
            add((f"ext{hi}_{lo}-sext3", ["extract", hi, lo, ["sext", 3, x]]))
            add((f"ext{hi}_{lo}-zext3", ["extract", hi, lo, ["zext", 3, x]]))
        cw = sorted({0, 1, n - 1, n, n + 1, 2 * n - 1, 2 * n, 2 * n + 2})
        cpairs = [(hi, lo) for hi in cw for lo in cw if 0 <= lo <= hi < 2 * n + 3]
        for hi, lo in cpairs:
            add((f"ext{hi}_{lo}-concat-xyc", ["extract", hi, lo, ["concat", x, y, C(0, 3)]]))
        for hi, lo in pairs:
            add((f"ext{hi}_{lo}-and", ["extract", hi, lo, ["and", x, y]]))
            add((f"ext{hi}_{lo}-or-c", ["extract", hi, lo, ["or", x, c0]]))
            add((f"ext{hi}_{lo}-xor3", ["extract", hi, lo, ["xor", ["xor", x, y], c0]]))
            add((f"ext{hi}_{lo}-ifcc", ["extract", hi, lo, ["if", B, c0, c1]]))
            add((f"ext{hi}_{lo}-ifxc", ["extract", hi, lo, ["if", B, x, c1]]))
            add((f"ext{hi}_{lo}-not", ["extract", hi, lo, ["not", x]]))
            add((f"ext{hi}_{lo}-add", ["extract", hi, lo, ["add", x, c0]]))
            for h2, l2 in ((hi - lo, 0), (max(0, hi - lo - 1), 0), (hi - lo, min(1, hi - lo))):
                if 0 <= l2 <= h2 <= hi - lo:
                    add((f"ext{h2}_{l2}-ext{hi}_{lo}", ["extract", h2, l2, ["extract", hi, lo, x]]))
    # ---- invert / If
    add(("not-if-cc", ["not", ["if", B, c0, c1]]))
    add(("not-if-10", ["not", ["if", B, L(1, n), L(0, n)]]))
    add(("not-if-1-xy", ["not", ["if", B, L(1, n), ["add", x, y]]]))
    add(("not-if-1-c", ["not", ["if", B, L(1, n), c0]]))
    add(("not-if-x-0", ["not", ["if", B, x, L(0, n)]]))
    add(("not-not", ["not", ["not", x]]))
    add(("not-c", ["not", c0]))
    add(("if-true", ["if", ["boolv", True], x, c0]))
    add(("if-false", ["if", ["boolv", False], x, c0]))
    add(("if-pytrue", ["if", ["pybool", True], x, c0]))
    add(("if-cmpcc", ["if", ["ult", c0, c1], x, y]))
    add(("if-b-if-b", ["if", B, ["if", B, x, y], z]))
    add(("if-b-if-notb", ["if", B, ["if", ["Not", B], x, y], z]))
    add(("if-b-else-if-b", ["if", B, x, ["if", B, y, z]]))
    add(("if-b-else-if-notb", ["if", B, x, ["if", ["Not", B], y, z]]))
    add(("if-b-if-b2", ["if", B, ["if", B2, x, y], z]))
    add(("if-x-x", ["if", B, x, x]))
    add(("if-c-c", ["if", B, c0, c1]))
    add(("if-true-false", ["if", B, ["boolv", True], ["boolv", False]]))
    add(("if-false-true", ["if", B, ["boolv", False], ["boolv", True]]))
    add(("if-bool-b2", ["if", B, B2, ["boolv", False]]))
    add(("if-int-x", ["if", B, ["int", 1], x]))
    add(("if-x-int", ["if", B, x, ["int", -1]]))
    add(("if-cmp-x-c", ["if", ["eq", x, c0], x, c0]))
    add(("addbool", ["addbool", x, B]))
    return S


def grammar1(n):
    """all depth-1 trees"""
    x, y = X(n), Y(n)
    c0, c1 = C(0, n), C(1, n)
    S = []
    for op in list(BIN_BV) + list(CMP):
        S.append((f"g1-{op}-xy", [op, x, y]))
        S.append((f"g1-{op}-xc", [op, x, c0]))
        S.append((f"g1-{op}-cx", [op, c0, x]))
        S.append((f"g1-{op}-cc", [op, c0, c1]))
        S.append((f"g1-{op}-xx", [op, x, x]))
        if BIN_BV.get(op, CMP.get(op))[0] is not None:  # Python operator form exists: raw ints allowed
            S.append((f"g1-{op}-x-int1", [op, x, ["int", 1]]))
            S.append((f"g1-{op}-intm1-x", [op, ["int", -1], x]))
            S.append((f"g1-{op}-x-int0", [op, x, ["int", 0]]))
    return S


INNER_UN = [
    ("not", lambda e, n: ["not", e]),
    ("neg", lambda e, n: ["neg", e]),
    ("zext1-ext", lambda e, n: ["extract", n - 1, 0, ["zext", 1, e]]),
    ("sext-ext", lambda e, n: ["extract", n, 1, ["sext", 1, e]]),
    ("if", lambda e, n: ["if", B, e, C(3, n)]),
]


def grammar2(n, outer_ops=None, inner_ops=None):
    """depth-2 compositions: O(I(x,c0),c1), O(c1,I(x,c0)), O(I(x,y),c1), O(U(x), c1)"""
    x, y = X(n), Y(n)
    c0, c1 = C(0, n), C(1, n)
    S = []
    outer = outer_ops or (list(BIN_BV) + list(CMP))
    inner = inner_ops or list(BIN_BV)
    for o in outer:
        for i in inner:
            S.append((f"g2-{o}-{i}xc-c", [o, [i, x, c0], c1]))
            S.append((f"g2-{o}-c-{i}xc", [o, c1, [i, x, c0]]))
            S.append((f"g2-{o}-{i}cx-c", [o, [i, c0, x], c1]))
            S.append((f"g2-{o}-{i}xy-c", [o, [i, x, y], c1]))
        for nm, f in INNER_UN:
            S.append((f"g2-{o}-{nm}-c", [o, f(x, n), c1]))
            S.append((f"g2-{o}-c-{nm}", [o, c1, f(x, n)]))
    for nm, f in INNER_UN:
        for i in inner:
            S.append((f"g2-{nm}-{i}xc", f([i, x, c0], n)))
    return S


QUICK_OUTER = ["add", "sub", "and", "or", "xor", "shl", "lshr", "ashr", "eq", "ne", "uge", "ult", "sle"]
QUICK_INNER = ["add", "sub", "and", "or", "xor", "shl", "lshr", "ashr"]
