"""C12 - C18 on the history harness (see p_hist): per property a set of histories and frontend classes."""
from __future__ import annotations

import fnmatch
import zlib

from . import common, p_c11, p_hist, p_z3kernel

A, U = "x<=K0", "x>=K1"
ALLCLS = ["Solver", "SolverCacheless", "SolverComposite", "SolverReplacement", "SolverHybridExact"]


def hmod(name, m):
    return zlib.crc32(name.encode()) % m


# ---------------------------------------------------------------------------------------------------------
# histories


def composite_histories():
    H = {}
    H["two-groups"] = [("add", 0, [A, "y<=K2"]), ("eval", 0, "x", 9, []), ("eval", 0, "y", 9, []), ("max", 0, "x", False, []), ("min", 0, "y", True, [])]
    H["join-later"] = [("add", 0, [A]), ("add", 0, ["y<=K2"]), ("eval", 0, "x", 2, []), ("add", 0, ["x==y"]), ("eval", 0, "x", 9, []), ("max", 0, "y", False, [])]
    H["join-then-query-other"] = [("add", 0, [A]), ("add", 0, ["y==K1"]), ("eval", 0, "y", 2, []), ("add", 0, ["x==y"]), ("sat", 0, []), ("eval", 0, "x", 9, [])]
    H["three-chain"] = [("add", 0, ["x==K0"]), ("add", 0, ["z==K2"]), ("add", 0, ["y==z"]), ("add", 0, ["x==y"]), ("sat", 0, []), ("eval", 0, "z", 2, [])]
    H["three-chain-reverse"] = [("add", 0, ["x==y"]), ("add", 0, ["y==z"]), ("add", 0, ["z==K2"]), ("eval", 0, "x", 9, []), ("add", 0, ["x!=K2"]), ("sat", 0, [])]
    H["bridge-x-z"] = [("add", 0, [A]), ("add", 0, ["z<=K0"]), ("eval", 0, "x", 9, []), ("eval", 0, "z", 9, []), ("add", 0, ["x+z==K1"]), ("eval", 0, "x", 9, []), ("min", 0, "z", False, [])]
    H["extra-joins-groups"] = [("add", 0, [A, "y<=K2"]), ("sat", 0, ["x==y"]), ("eval", 0, "x", 9, ["x==y"]), ("eval", 0, "x", 9, []), ("max", 0, "y", False, ["x<=y"])]
    H["query-spanning-expr"] = [("add", 0, [A, "y<=K2"]), ("eval", 0, "x+y", 9, []), ("max", 0, "x+y", False, []), ("eval", 0, "x", 9, [])]
    H["batch-two-groups"] = [("add", 0, [A, "y<=K2"]), ("batch", 0, ["x", "y"], 9, []), ("add", 0, ["y!=K1"]), ("batch", 0, ["y", "x"], 2, [])]
    H["unsat-one-group"] = [("add", 0, [A, "x>K2"]), ("add", 0, ["y<=K2"]), ("sat", 0, []), ("eval", 0, "y", 2, []), ("solution", 0, "y", 1, [])]
    H["unsat-other-group-extras"] = [("add", 0, ["y<=K2"]), ("add", 0, ["y>=K0"]), ("eval", 0, "x", 2, ["x==K1"]), ("max", 0, "x", False, ["x<=K0"]), ("solution", 0, "x", 1, ["x<=K0"]), ("sat", 0, ["x==K1"])]
    H["false-constraint"] = [("add", 0, [A]), ("add", 0, ["false"]), ("sat", 0, []), ("eval", 0, "x", 1, [])]
    H["concrete-true"] = [("add", 0, ["true", A]), ("sat", 0, []), ("eval", 0, "x", 9, [])]
    H["simplify-middle"] = [("add", 0, [A, "y<=K2"]), ("eval", 0, "x", 2, []), ("simplify", 0), ("add", 0, ["x==y"]), ("eval", 0, "y", 9, []), ("max", 0, "x", False, [])]
    H["branch-cow"] = [("add", 0, [A, "y<=K2"]), ("eval", 0, "x", 2, []), ("branch", 0, 1), ("add", 1, ["x!=K2"]), ("eval", 1, "x", 9, []), ("eval", 0, "x", 9, []), ("add", 0, ["y!=K1"]), ("eval", 1, "y", 9, [])]
    H["branch-join-in-child"] = [("add", 0, [A, "y<=K2"]), ("branch", 0, 1), ("add", 1, ["x==y"]), ("eval", 1, "x", 9, []), ("eval", 0, "x", 9, []), ("max", 0, "y", False, [])]
    H["solution-spanning"] = [("add", 0, [A, "y==K1"]), ("solution", 0, "x+y", 2, []), ("solution", 0, "x", 1, []), ("sat", 0, [])]
    H["minmax-signed"] = [("add", 0, [A, "y<=K2"]), ("min", 0, "x", True, []), ("max", 0, "x", True, []), ("min", 0, "x", False, []), ("max", 0, "y", True, ["y!=K1"])]
    # a query spanning two children (or an unconstrained variable) leaves a combined / blank solver in the per-names cache, which a branch
    # shares; one side then links exactly those names and the other side repeats the query
    H["cross-query-branch-link-parent"] = [("add", 0, [A, "y<=K2"]), ("eval", 0, "x+y", 2, []), ("branch", 0, 1), ("add", 0, ["x+y==K0"]), ("eval", 1, "x+y", 9, []), ("sat", 1, ["x==y"]), ("eval", 0, "x+y", 9, [])]
    H["cross-query-branch-link-child"] = [("add", 0, [A, "y<=K2"]), ("max", 0, "x+y", False, []), ("branch", 0, 1), ("add", 1, ["x==y"]), ("eval", 0, "x+y", 9, []), ("eval", 1, "x+y", 9, []), ("eval", 0, "x", 9, [])]
    H["fresh-var-query-branch-link"] = [("add", 0, [A]), ("eval", 0, "z", 2, []), ("branch", 0, 1), ("add", 0, ["z==K2"]), ("eval", 1, "z", 9, []), ("add", 1, ["z<=K0"]), ("eval", 0, "z", 9, []), ("eval", 1, "z", 9, [])]
    return H


def replacement_histories():
    H = {}
    H["eq-replacement"] = [("add", 0, ["x==K0"]), ("add", 0, ["x<=sK1"]), ("sat", 0, []), ("eval", 0, "x", 2, []), ("eval", 0, "x+1", 2, [])]
    H["eq-replacement-then-conflict"] = [("add", 0, ["x==K0"]), ("add", 0, ["x==K1"]), ("sat", 0, []), ("eval", 0, "x", 2, [])]
    H["eq-replacement-query-other"] = [("add", 0, ["x==K0"]), ("add", 0, ["x+y==K0"]), ("eval", 0, "y", 9, []), ("max", 0, "x+y", False, [])]
    H["bool-replacement"] = [("add", 0, ["b"]), ("add", 0, ["b|x==K0"]), ("eval", 0, "x", 9, []), ("sat", 0, ["!b"])]
    H["not-bool-replacement"] = [("add", 0, ["!b"]), ("add", 0, ["b|x==K0"]), ("eval", 0, "x", 9, []), ("sat", 0, ["b"])]
    H["bound-replacement"] = [("add", 0, [A]), ("add", 0, [U]), ("eval", 0, "x", 9, []), ("min", 0, "x", False, []), ("max", 0, "x", True, [])]
    H["bound-then-eq"] = [("add", 0, [A]), ("eval", 0, "x", 2, []), ("add", 0, ["x==K1"]), ("sat", 0, []), ("eval", 0, "x", 2, [])]
    H["ne-then-queries"] = [("add", 0, ["x!=K0"]), ("eval", 0, "x", 9, []), ("solution", 0, "x", 0, []), ("is_false", 0, "x==K0", [])]
    H["extra-with-replacement"] = [("add", 0, ["x==K0"]), ("sat", 0, ["x!=K0"]), ("eval", 0, "x", 2, ["x<=sK1"]), ("solution", 0, "x", 1, [])]
    H["branch-replacements"] = [("add", 0, ["x==K0"]), ("branch", 0, 1), ("add", 1, ["y==K1"]), ("eval", 1, "x+y", 2, []), ("eval", 0, "x+y", 9, []), ("add", 0, ["y<=K2"]), ("eval", 1, "y", 9, [])]
    H["or-of-eqs"] = [("add", 0, ["x==K0|x==K1"]), ("eval", 0, "x", 9, []), ("add", 0, ["x!=K0"]), ("eval", 0, "x", 9, []), ("min", 0, "x", True, [])]
    H["signed-bounds"] = [("add", 0, ["x<=sK1"]), ("add", 0, ["x>=sK2"]), ("eval", 0, "x", 9, []), ("max", 0, "x", False, []), ("min", 0, "x", True, [])]
    # solvers derived through a blank copy (merge / split / combine) start without the replacements their source had learned
    H["merge-two-eqs"] = [("branch", 0, 1), ("add", 0, ["x==K0"]), ("add", 1, ["x==K1"]), ("eval", 0, "x", 2, []), ("merge", 0, [1], ["b", "!b"], 2), ("eval", 2, "x", 9, []), ("sat", 2, ["x==K1"])]
    H["merge-bool-replacement"] = [("branch", 0, 1), ("add", 0, ["!b"]), ("add", 1, ["b"]), ("sat", 0, []), ("merge", 0, [1], ["x==K0", "x==K1"], 2), ("sat", 2, ["b"]), ("sat", 2, ["!b"])]
    H["split-defining-constraint"] = [("add", 0, ["x+1==K0", "y<=K2"]), ("eval", 0, "x", 2, []), ("split", 0, 10), ("eval", 10, "x", 9, []), ("eval", 11, "x", 9, [])]
    H["combine-defining-constraint"] = [("branch", 0, 1), ("add", 0, ["x+1==K0"]), ("add", 1, ["y==K1"]), ("eval", 0, "x", 2, []), ("combine", 0, [1], 2), ("eval", 2, "x", 9, []), ("eval", 2, "y", 9, [])]
    H["what-if-extra-then-plain"] = [("add", 0, [A]), ("eval", 0, "x", 3, ["x==K1"]), ("eval", 0, "x", 9, []), ("max", 0, "x+1", False, []), ("branch", 0, 1), ("add", 1, ["x!=K1"]), ("sat", 1, [])]
    # an expression pinned by an equality is replaced by the constant: signed optimum queries answer with the signed reading all the same
    H["pinned-signed-optimum"] = [("add", 0, ["x==K1"]), ("min", 0, "x", True, []), ("max", 0, "x", True, []), ("max", 0, "x+1", True, []), ("min", 0, "x", False, [])]
    return H


def approx_histories():
    """C13, approximate modes: SolverHybrid asked with exact=False.  Containment only: no value or model that exists is excluded, a
    satisfiable set is never reported unsatisfiable.  n = 9 exceeds the number of values of the (<= 3-bit) variables, so a shorter answer
    claims to be complete."""
    H = {}
    H["approx-bounds"] = [("add", 0, [A]), ("aeval", 0, "x", 9, []), ("amax", 0, "x", False, []), ("amin", 0, "x", False, []), ("asat", 0, [])]
    H["approx-two-bounds"] = [("add", 0, [A]), ("add", 0, ["x>=K1"]), ("asat", 0, []), ("aeval", 0, "x", 9, []), ("amin", 0, "x", False, []), ("asolution", 0, "x", 2, [])]
    H["approx-eq"] = [("add", 0, ["x==K0"]), ("aeval", 0, "x", 9, []), ("aeval", 0, "x+1", 9, []), ("asolution", 0, "x", 0, []), ("amax", 0, "x+1", False, [])]
    H["approx-ne"] = [("add", 0, ["x!=K2"]), ("aeval", 0, "x", 9, []), ("amax", 0, "x", False, []), ("asolution", 0, "x", 1, [])]
    H["approx-or"] = [("add", 0, ["x==K0|x==K1"]), ("aeval", 0, "x", 9, []), ("amin", 0, "x", False, []), ("amax", 0, "x", True, [])]
    H["approx-two-vars"] = [("add", 0, [A, "y<=K2"]), ("aeval", 0, "x+y", 9, []), ("amax", 0, "x+y", False, []), ("add", 0, ["x==y"]), ("aeval", 0, "x", 9, []), ("asat", 0, [])]
    H["approx-signed"] = [("add", 0, ["x<=sK1"]), ("aeval", 0, "x", 9, []), ("amin", 0, "x", True, []), ("amax", 0, "x", True, []), ("amax", 0, "x", False, [])]
    H["approx-extra"] = [("add", 0, [A]), ("aeval", 0, "x", 9, ["x!=K2"]), ("asat", 0, ["x==K1"]), ("amax", 0, "x", False, ["x>=K1"]), ("aeval", 0, "x", 9, [])]
    H["approx-after-exact"] = [("add", 0, [A]), ("eval", 0, "x", 9, []), ("max", 0, "x", False, []), ("aeval", 0, "x", 9, []), ("add", 0, ["x!=K2"]), ("aeval", 0, "x", 9, []), ("amax", 0, "x", False, [])]
    H["approx-tighten"] = [("add", 0, [A]), ("aeval", 0, "x+1", 9, []), ("add", 0, ["x<=K1"]), ("aeval", 0, "x+1", 9, []), ("amax", 0, "x+1", False, [])]
    H["approx-branch"] = [("add", 0, [A]), ("aeval", 0, "x", 9, []), ("branch", 0, 1), ("add", 1, ["x>=K1"]), ("aeval", 1, "x", 9, []), ("aeval", 0, "x", 9, []), ("amin", 0, "x", False, [])]
    H["approx-pickle-tighten"] = [("add", 0, [A]), ("aeval", 0, "x+1", 9, []), ("pickle", 0), ("add", 0, ["x<=K1"]), ("aeval", 0, "x+1", 9, []), ("amax", 0, "x+1", False, []), ("aeval", 0, "x", 9, [])]
    # downsize() before the round trip: what the solver learned from its constraints is still applied by both, the original and the copy
    H["approx-pickle-downsize"] = [("add", 0, [A]), ("aeval", 0, "x", 9, []), ("downsize", 0), ("pickle", 0), ("amax", 0, "x", False, []), ("aeval", 0, "x", 9, []), ("amin", 0, "x+1", False, [])]
    H["approx-pickle-downsize-add"] = [("add", 0, [A]), ("downsize", 0), ("pickle", 0), ("add", 0, ["x>=K1"]), ("amax", 0, "x", False, []), ("aeval", 0, "x", 9, [])]
    H["approx-pickle-bounds"] = [("add", 0, [A]), ("add", 0, ["x>=K1"]), ("aeval", 0, "x", 9, []), ("pickle", 0), ("aeval", 0, "x", 9, []), ("add", 0, ["x!=K2"]), ("aeval", 0, "x", 9, []), ("amax", 0, "x", False, [])]
    H["approx-merge"] = [("branch", 0, 1), ("add", 0, [A]), ("add", 1, ["x>=K1"]), ("aeval", 0, "x", 9, []), ("merge", 0, [1], ["b", "!b"], 2), ("aeval", 2, "x", 9, []), ("asolution", 2, "x", 2, []), ("asat", 2, [])]
    H["approx-unsat"] = [("add", 0, [A]), ("add", 0, ["x>K2"]), ("asat", 0, []), ("add", 0, ["y<=K2"]), ("asat", 0, [])]
    return H


def branch_histories():
    H = {}
    H["child-add"] = [("add", 0, [A]), ("branch", 0, 1), ("add", 1, ["x!=K2"]), ("eval", 1, "x", 9, []), ("eval", 0, "x", 9, []), ("sat", 0, ["x==K1"])]
    H["parent-add-after-branch"] = [("add", 0, [A]), ("branch", 0, 1), ("add", 0, ["x!=K2"]), ("eval", 0, "x", 9, []), ("eval", 1, "x", 9, []), ("max", 1, "x", False, [])]
    H["both-add"] = [("add", 0, [A]), ("eval", 0, "x", 2, []), ("branch", 0, 1), ("add", 1, [U]), ("add", 0, ["x!=K2"]), ("min", 1, "x", False, []), ("min", 0, "x", False, []), ("eval", 1, "x", 9, [])]
    H["queries-before-branch-cached"] = [("add", 0, [A]), ("eval", 0, "x", 9, []), ("max", 0, "x", False, []), ("branch", 0, 1), ("add", 1, ["x!=K2"]), ("max", 1, "x", False, []), ("eval", 1, "x", 9, []), ("max", 0, "x", False, [])]
    H["nested"] = [("add", 0, [A]), ("branch", 0, 1), ("add", 1, [U]), ("branch", 1, 2), ("add", 2, ["x!=K2"]), ("eval", 2, "x", 9, []), ("eval", 1, "x", 9, []), ("eval", 0, "x", 9, [])]
    H["nested-parent-continues"] = [("add", 0, [A]), ("branch", 0, 1), ("branch", 1, 2), ("add", 1, ["x!=K2"]), ("add", 0, [U]), ("eval", 2, "x", 9, []), ("eval", 1, "x", 9, []), ("eval", 0, "x", 9, [])]
    H["child-unsat"] = [("add", 0, [A]), ("sat", 0, []), ("branch", 0, 1), ("add", 1, ["x>K2"]), ("add", 1, [U]), ("sat", 1, []), ("sat", 0, []), ("eval", 0, "x", 2, [])]
    H["child-simplify-downsize"] = [("add", 0, [A, U]), ("eval", 0, "x", 2, []), ("branch", 0, 1), ("simplify", 1), ("downsize", 1), ("add", 1, ["x!=K2"]), ("eval", 1, "x", 9, []), ("eval", 0, "x", 9, [])]
    H["parent-simplify"] = [("add", 0, [A, U]), ("branch", 0, 1), ("simplify", 0), ("add", 0, ["x!=K2"]), ("eval", 1, "x", 9, []), ("eval", 0, "x", 9, [])]
    H["two-vars"] = [("add", 0, [A, "y<=K2"]), ("branch", 0, 1), ("add", 1, ["x==y"]), ("add", 0, ["y!=K1"]), ("eval", 1, "x", 9, []), ("eval", 0, "y", 9, []), ("eval", 1, "y", 9, [])]
    H["solution-leak"] = [("add", 0, [A]), ("branch", 0, 1), ("solution", 1, "x", 1, []), ("add", 1, ["x!=K1"]), ("solution", 0, "x", 1, []), ("solution", 1, "x", 1, [])]
    # constraints added after the last query are still pending (not yet in the native solver) when the branch is taken
    H["branch-with-pending-add"] = [("add", 0, [A]), ("eval", 0, "x", 2, []), ("add", 0, [U]), ("branch", 0, 1), ("sat", 1, []), ("eval", 1, "x", 9, []), ("min", 1, "x", False, []), ("eval", 0, "x", 9, [])]
    H["branch-with-pending-unsat"] = [("add", 0, [A]), ("sat", 0, []), ("add", 0, ["x>K2"]), ("branch", 0, 1), ("sat", 1, []), ("sat", 0, [])]
    H["branch-with-pending-then-solution"] = [("add", 0, [A]), ("max", 0, "x", False, []), ("add", 0, ["x!=K2"]), ("branch", 0, 1), ("solution", 1, "x", 2, []), ("max", 1, "x", False, [])]
    H["cross-query-branch-link"] = [("add", 0, [A, "y<=K2"]), ("eval", 0, "x+y", 2, []), ("branch", 0, 1), ("add", 0, ["x+y==K0"]), ("eval", 1, "x+y", 9, []), ("eval", 0, "x+y", 9, [])]
    # one side holds a cached, non-optimal model; the OTHER side's signed optimum query must not change what this side answers
    H["signed-optimum-other-side"] = [("add", 0, ["x!=K2"]), ("eval", 0, "x", 1, ["x==K1"]), ("branch", 0, 1), ("max", 1, "x", True, []), ("max", 0, "x", True, []), ("min", 0, "x", True, []),
                                      ("min", 1, "x", True, [])]
    H["signed-optimum-other-side-2"] = [("add", 0, [A]), ("eval", 0, "x", 1, ["x==K1"]), ("branch", 0, 1), ("min", 0, "x", True, []), ("min", 1, "x", True, []), ("max", 1, "x", False, []),
                                        ("max", 0, "x", False, [])]
    H["replacement-added-on-branch"] = [("add", 0, [A]), ("branch", 0, 1), ("add_repl", 1, "x", 1), ("eval", 0, "x", 9, []), ("max", 0, "x+1", False, [])]
    H["replacement-added-on-parent"] = [("add", 0, [A]), ("eval", 0, "x", 2, []), ("branch", 0, 1), ("branch", 1, 2), ("add_repl", 0, "x", 1), ("eval", 2, "x", 9, []), ("eval", 1, "x", 9, [])]
    H["minmax-expansion-leak"] = [("add", 0, [A]), ("branch", 0, 1), ("max", 1, "x", False, ["x!=K2"]), ("max", 1, "x", False, []), ("add", 0, [U]), ("max", 0, "x", False, []), ("min", 1, "x", False, [])]
    return H


def merge_histories():
    H = {}
    H["merge-two"] = [("add", 0, [A]), ("branch", 0, 1), ("add", 0, ["x!=K2"]), ("add", 1, [U]), ("merge", 0, [1], ["b", "!b"], 2), ("eval", 2, "x", 9, []), ("sat", 2, ["b"])]
    H["merge-overlapping-conds"] = [("add", 0, [A]), ("branch", 0, 1), ("add", 1, [U]), ("merge", 0, [1], ["b", "b|x==K0"], 2), ("eval", 2, "x", 9, []), ("max", 2, "x", False, [])]
    H["merge-ancestor"] = [("add", 0, [A]), ("branch", 0, 1), ("branch", 0, 2), ("add", 1, ["x!=K2"]), ("add", 2, [U]), ("merge", 1, [2], ["b", "!b"], 0, 3), ("eval", 3, "x", 9, []), ("sat", 3, ["b"])]
    H["merge-three"] = [("add", 0, [A]), ("branch", 0, 1), ("branch", 0, 2), ("add", 1, ["x==K1"]), ("add", 2, ["x!=K2"]), ("merge", 0, [1, 2], ["x==K0", "b", "!b"], 3), ("eval", 3, "x", 9, [])]
    H["merge-after-queries"] = [("add", 0, [A]), ("eval", 0, "x", 9, []), ("branch", 0, 1), ("add", 1, [U]), ("max", 1, "x", False, []), ("merge", 0, [1], ["b", "!b"], 2), ("max", 2, "x", False, []), ("eval", 2, "x", 9, ["!b"])]
    H["merge-different-vars"] = [("add", 0, [A]), ("branch", 0, 1), ("add", 0, ["y<=K2"]), ("add", 1, ["y==K1"]), ("merge", 0, [1], ["b", "!b"], 2), ("eval", 2, "y", 9, []), ("eval", 2, "x", 9, [])]
    H["combine-disjoint"] = [("add", 0, [A]), ("eval", 0, "x", 2, []), ("branch", 0, 1), ("add", 1, ["y<=K2"]), ("eval", 1, "y", 2, []), ("combine", 0, [1], 2), ("eval", 2, "x", 9, []), ("eval", 2, "y", 9, [])]
    H["combine-overlapping"] = [("add", 0, [A]), ("eval", 0, "x", 9, []), ("branch", 0, 1), ("add", 1, ["x!=K2"]), ("eval", 1, "x", 9, []), ("add", 0, [U]), ("combine", 0, [1], 2), ("eval", 2, "x", 9, []), ("sat", 2, [])]
    H["combine-models-carry"] = [("add", 0, ["x==K0"]), ("eval", 0, "x", 2, []), ("branch", 0, 1), ("add", 1, ["x==K1"]), ("combine", 0, [1], 2), ("sat", 2, []), ("eval", 2, "x", 2, [])]
    H["combine-three"] = [("add", 0, [A]), ("branch", 0, 1), ("branch", 0, 2), ("add", 1, ["y==K1"]), ("add", 2, ["z==K2"]), ("eval", 1, "y", 2, []), ("eval", 2, "z", 2, []), ("combine", 0, [1, 2], 3), ("eval", 3, "x", 9, []), ("batch", 3, ["y", "z"], 2, [])]
    # three-way merge / combine where only SOME of the participants share a child or a variable
    H["merge-three-partial-share"] = [("branch", 0, 3), ("add", 0, [A]), ("branch", 0, 1), ("branch", 0, 2), ("add", 1, ["y==K1"]), ("add", 3, ["x>=K1"]),
                                      ("merge", 1, [2, 3], ["b", "!b", "b|x==K0"], 4), ("eval", 4, "x", 9, []), ("sat", 4, ["x>K2"])]
    H["merge-three-partial-share-2"] = [("branch", 0, 3), ("add", 0, [A]), ("branch", 0, 1), ("branch", 0, 2), ("add", 2, ["y!=K1"]), ("add", 3, ["x!=K2"]),
                                        ("merge", 2, [1, 3], ["b", "!b", "x==K0"], 4), ("max", 4, "x", False, [])]
    H["merge-three-partial-share-3"] = [("add", 0, [A]), ("branch", 0, 1), ("branch", 0, 2), ("branch", 0, 3), ("add", 1, ["y==K1"]), ("add", 3, ["x!=K2"]),
                                        ("merge", 1, [2, 3], ["b", "!b", "b|x==K0"], 4), ("eval", 4, "x", 9, [])]
    H["merge-cond-over-shared-var"] = [("add", 0, [A]), ("branch", 0, 1), ("add", 0, ["y==K1"]), ("add", 1, ["y<=K2"]), ("merge", 0, [1], ["x==K0", "x==K1"], 2), ("eval", 2, "x", 9, []), ("sat", 2, ["x>K2"])]
    H["combine-three-others-overlap"] = [("branch", 0, 1), ("branch", 0, 2), ("add", 0, ["x==K0"]), ("add", 1, ["y<=K2"]), ("add", 2, ["y>=K0"]), ("eval", 0, "x", 2, []), ("eval", 1, "y", 2, []),
                                         ("eval", 2, "y", 2, []), ("combine", 0, [1, 2], 3), ("sat", 3, []), ("eval", 3, "y", 9, [])]
    H["combine-three-others-overlap-eq"] = [("branch", 0, 1), ("branch", 0, 2), ("add", 0, [A]), ("add", 1, ["y==K1"]), ("add", 2, ["y!=K1"]), ("eval", 0, "x", 2, []), ("eval", 1, "y", 2, []),
                                            ("eval", 2, "y", 2, []), ("combine", 0, [1, 2], 3), ("sat", 3, []), ("eval", 3, "y", 2, [])]
    # only the receiver has been queried (has cached models); the other solver's constraints must still bind the combination
    H["combine-unsolved-other"] = [("branch", 0, 1), ("add", 0, [A]), ("add", 1, ["y>=K0"]), ("eval", 0, "x", 2, []), ("combine", 0, [1], 2), ("eval", 2, "y", 9, []), ("min", 2, "y", False, [])]
    H["combine-unsolved-middle"] = [("branch", 0, 1), ("branch", 0, 2), ("add", 0, ["x==K0"]), ("add", 1, ["y>=K0"]), ("add", 2, ["z<=K0"]), ("eval", 2, "z", 2, []), ("combine", 0, [1, 2], 3), ("eval", 3, "y", 9, []),
                                   ("sat", 3, ["y!=K1"])]
    H["merge-three-first-two-share-constraint"] = [("branch", 0, 1), ("branch", 0, 2), ("add", 0, [A, "y==K1"]), ("add", 1, [A, "y<=K2"]), ("add", 2, ["y!=K1"]), ("merge", 0, [1, 2], ["b", "!b", "z==K2"], 3),
                                                   ("eval", 3, "x", 9, []), ("sat", 3, ["x>K2"])]
    # a concrete False among the constraints (kept as a flag by SolverComposite): derived solvers must still be unsatisfiable
    H["false-then-split"] = [("add", 0, [A]), ("add", 0, ["false"]), ("sat", 0, []), ("split", 0, 10)]
    H["false-then-combine"] = [("branch", 0, 1), ("add", 0, [A]), ("add", 0, ["false"]), ("add", 1, ["y<=K2"]), ("combine", 0, [1], 2), ("sat", 2, [])]
    H["false-then-merge"] = [("branch", 0, 1), ("add", 0, [A]), ("add", 0, ["false"]), ("add", 1, ["x>=K1"]), ("merge", 0, [1], ["b", "!b"], 2), ("sat", 2, ["b"]), ("eval", 2, "x", 9, [])]
    H["merge-unsat-shared-child"] = [("add", 0, [A, "x>K2"]), ("branch", 0, 1), ("branch", 0, 2), ("add", 1, ["y==K1"]), ("add", 2, ["y<=K2"]), ("merge", 1, [2], ["b", "!b"], 3), ("sat", 3, []), ("sat", 3, ["b"])]
    H["split-two-groups"] = [("add", 0, [A, "y<=K2", "x!=K2"]), ("eval", 0, "x", 2, []), ("split", 0, 10), ("sat", 0, [])]
    H["split-connected"] = [("add", 0, [A, "y<=K2", "x==y"]), ("split", 0, 10)]
    H["split-three"] = [("add", 0, [A, "y<=K2", "z==K2", "y==z"]), ("eval", 0, "x", 2, []), ("split", 0, 10)]
    H["split-with-concrete"] = [("add", 0, [A, "true", "y==K1"]), ("split", 0, 10)]
    H["split-then-query-parts"] = [("add", 0, [A, "y<=K2"]), ("eval", 0, "x", 9, []), ("eval", 0, "y", 9, []), ("split", 0, 10), ("eval", 10, "x", 9, []), ("eval", 11, "y", 9, [])]
    return H


def core_histories():
    H = {}
    H["pair-contradiction"] = [("add", 0, [A]), ("add", 0, ["x>K2"]), ("unsat_core", 0)]
    H["pair-contradiction-one-add"] = [("add", 0, [A, "x>K2"]), ("unsat_core", 0)]
    H["three-way"] = [("add", 0, [A]), ("add", 0, [U]), ("add", 0, ["x!=K2"]), ("unsat_core", 0)]
    H["irrelevant-first"] = [("add", 0, ["y<=K2"]), ("add", 0, [A]), ("add", 0, ["x>K2"]), ("unsat_core", 0)]
    H["sat-gives-empty"] = [("add", 0, [A]), ("add", 0, [U]), ("unsat_core", 0), ("add", 0, ["x>K2"]), ("unsat_core", 0)]
    H["false-added"] = [("add", 0, [A]), ("add", 0, ["false"]), ("unsat_core", 0)]
    H["after-queries"] = [("add", 0, [A]), ("eval", 0, "x", 9, []), ("add", 0, ["x>K2"]), ("sat", 0, []), ("unsat_core", 0)]
    H["eq-eq"] = [("add", 0, ["x==K0"]), ("add", 0, ["x==K1"]), ("unsat_core", 0)]
    H["two-groups"] = [("add", 0, [A, "y<=K2"]), ("add", 0, ["y>=K0"]), ("add", 0, ["x>K2"]), ("unsat_core", 0)]
    # the pairwise shortcut caches a core; solvers derived by split / merge / combine must not inherit it
    H["core-then-split"] = [("add", 0, ["y<=K2"]), ("add", 0, ["x==K0"]), ("add", 0, ["x==K1"]), ("unsat_core", 0), ("split", 0, 10), ("unsat_core", 10), ("unsat_core", 11)]
    H["core-then-merge"] = [("add", 0, ["x==K0"]), ("branch", 0, 1), ("add", 0, ["x==K1"]), ("unsat_core", 0), ("add", 1, ["y<=K2"]), ("merge", 0, [1], ["b", "!b"], 2), ("unsat_core", 2), ("sat", 2, [])]
    H["core-then-combine"] = [("add", 0, ["x==K0"]), ("add", 0, ["x==K1"]), ("unsat_core", 0), ("branch", 0, 1), ("combine", 0, [1], 2), ("unsat_core", 2)]
    H["core-branch-after-unsat"] = [("add", 0, [A]), ("add", 0, ["x>K2"]), ("sat", 0, []), ("branch", 0, 1), ("add", 1, ["y<=K2"]), ("unsat_core", 1), ("unsat_core", 0)]
    # the core of a solver whose unsatisfiability is only known from a cache (a branch of an unsatisfiable solver, a concrete False)
    H["core-branch-after-unsat-3way"] = [("add", 0, [A]), ("add", 0, ["x>=K1"]), ("add", 0, ["x!=K2"]), ("sat", 0, []), ("branch", 0, 1), ("add", 1, ["y<=K2"]), ("unsat_core", 1), ("unsat_core", 0)]
    H["core-branch-after-unsat-queries"] = [("add", 0, [A, "x>=K1"]), ("add", 0, ["x!=K2"]), ("eval", 0, "x", 2, []), ("branch", 0, 1), ("branch", 1, 2), ("add", 2, ["y==K1"]), ("unsat_core", 2), ("unsat_core", 1)]
    H["false-added-later-core"] = [("add", 0, ["x==y"]), ("sat", 0, []), ("add", 0, ["false"]), ("unsat_core", 0), ("sat", 0, [])]
    H["annotated-three-way"] = [("add", 0, ["x<=K0@"]), ("add", 0, ["x>=K1"]), ("add", 0, ["x!=K1@"]), ("unsat_core", 0)]
    H["annotated-pair"] = [("add", 0, ["x<=K0@"]), ("add", 0, ["x>K2@"]), ("unsat_core", 0)]
    H["annotated-on-branch"] = [("add", 0, ["x<=K0@", "y<=K2"]), ("branch", 0, 1), ("add", 1, ["x>K2@"]), ("unsat_core", 1), ("unsat_core", 0)]
    H["branch-core"] = [("add", 0, [A]), ("branch", 0, 1), ("add", 1, ["x>K2"]), ("unsat_core", 1), ("unsat_core", 0)]
    return H


def insert_everywhere(h, step, name):
    out = {}
    for pos in range(1, len(h) + 1):
        out[f"{name}@{pos}"] = h[:pos] + [step] + h[pos:]
    return out


def pickle_histories():
    base = {
        "cached-queries": [("add", 0, [A]), ("eval", 0, "x", 9, []), ("max", 0, "x", False, []), ("add", 0, ["x!=K2"]), ("eval", 0, "x", 9, []), ("min", 0, "x", True, [])],
        "sat-cache": [("add", 0, [A, "x>K2"]), ("sat", 0, []), ("add", 0, [U]), ("sat", 0, []), ("eval", 0, "x", 1, [])],
        "dedupe": [("add", 0, [A]), ("add", 0, [A]), ("add", 0, [U]), ("eval", 0, "x", 9, []), ("add", 0, [U]), ("sat", 0, [])],
        "two-groups": [("add", 0, [A, "y<=K2"]), ("eval", 0, "x", 2, []), ("add", 0, ["x==y"]), ("eval", 0, "y", 9, []), ("max", 0, "x", False, [])],
        "replacements": [("add", 0, ["x==K0"]), ("add", 0, ["x+y==K0"]), ("eval", 0, "y", 9, []), ("add", 0, ["y<=K2"]), ("sat", 0, [])],
        "branch-then-pickle-child": [("add", 0, [A]), ("branch", 0, 1), ("add", 1, ["x!=K2"]), ("eval", 1, "x", 9, []), ("eval", 0, "x", 9, [])],
    }
    H = {}
    for n, h in base.items():
        for k, v in insert_everywhere(h, ("pickle", 0), n).items():
            H[k] = v
    # a solver and its branch in one pickle: what they shared must stay copy-on-write
    H["pickle-pair-then-diverge"] = [("add", 0, [A]), ("branch", 0, 1), ("pickle2", 0, 1), ("add", 0, ["x!=K2"]), ("eval", 1, "x", 9, []), ("eval", 0, "x", 9, []), ("add", 1, [U]), ("eval", 0, "x", 9, [])]
    H["pickle-pair-two-groups"] = [("add", 0, [A, "y<=K2"]), ("eval", 0, "x", 2, []), ("branch", 0, 1), ("pickle2", 0, 1), ("add", 1, ["y!=K1"]), ("eval", 0, "y", 9, []), ("add", 0, ["x==y"]), ("eval", 1, "x", 9, [])]
    # unsatisfiable through the pairwise shortcut (which caches the contradicting pair as the core): the round trip keeps the answer
    for k, v in insert_everywhere([("add", 0, ["x==0!"]), ("add", 0, ["x==1!"]), ("unsat_core", 0), ("sat", 0, [])], ("pickle", 0), "pairwise-core").items():
        H[k] = v
    H["branch-then-pickle-child@c"] = [("add", 0, [A]), ("branch", 0, 1), ("add", 1, ["x!=K2"]), ("pickle", 1), ("eval", 1, "x", 9, []), ("add", 1, [U]), ("eval", 1, "x", 9, []), ("eval", 0, "x", 9, [])]
    return H


def truth_histories():
    """C10: a solver's is_true / is_false; the answers are memoised per expression (shared by every solver of the backend), so the ORDER of
    the questions and what other solvers were asked matters"""
    H = {}
    for atom in ("x!=K2", "x<=K0", "x==K0|x==K1", "b", "x&K0==K1"):
        H[f"true-then-false:{atom}"] = [("add", 0, [A]), ("is_true", 0, atom, []), ("is_false", 0, atom, []), ("is_true", 0, atom, [])]
        H[f"false-then-true:{atom}"] = [("add", 0, [A]), ("is_false", 0, atom, []), ("is_true", 0, atom, []), ("is_false", 0, atom, [])]
    H["extra-then-plain"] = [("add", 0, [A]), ("is_true", 0, "x!=K2", ["x==K0"]), ("is_true", 0, "x!=K2", []), ("is_false", 0, "x!=K2", ["x==K1"]), ("is_false", 0, "x!=K2", [])]
    H["other-solver-asked-first"] = [("branch", 0, 1), ("add", 1, ["x==K0"]), ("is_true", 1, "x<=K0", []), ("is_false", 1, "x>K2", []), ("is_true", 0, "x<=K0", []), ("is_false", 0, "x>K2", [])]
    H["constraints-then-truth"] = [("add", 0, ["x==K0"]), ("is_true", 0, "x==K0", []), ("is_false", 0, "x!=K0", []), ("is_true", 0, "x<=K0", []), ("is_false", 0, "x==K1", [])]
    H["unsat-set"] = [("add", 0, [A, "x>K2"]), ("is_true", 0, "x==K1", []), ("is_false", 0, "x==K1", [])]
    H["literal"] = [("add", 0, [A]), ("is_true", 0, "true", []), ("is_false", 0, "true", []), ("is_true", 0, "false", []), ("is_false", 0, "false", [])]
    return H


def fault_histories():
    T = p_c11.targeted()
    keep = ["exh-eval-min-u-x", "exh-eval-max-s-x", "max-then-eval-x", "eval-few-then-eval-x", "model-invalidation", "sat-cache-contradiction",
            "batch-then-single", "solution-true-then-minmax", "min-add-min-u-x", "branch-continue", "eval-extra-then-eval-x", "ne-shortcut-eval-all"]
    H = {k: T[k] for k in keep if k in T}
    H["eval-then-eval-more"] = [("add", 0, [A]), ("eval", 0, "x", 2, []), ("eval", 0, "x", 9, []), ("eval", 0, "x", 9, [])]
    H["sat-then-eval"] = [("add", 0, [A]), ("sat", 0, []), ("eval", 0, "x", 9, []), ("sat", 0, ["x==K1"]), ("max", 0, "x", False, [])]
    # the same query repeated after the faulted one (nothing invalidates what the faulted call may have cached), also on a branch
    H["min-fault-min"] = [("add", 0, [A]), ("min", 0, "x", False, []), ("min", 0, "x", False, []), ("branch", 0, 1), ("min", 1, "x", False, [])]
    H["max-fault-max"] = [("add", 0, [A]), ("max", 0, "x", False, []), ("max", 0, "x", False, []), ("branch", 0, 1), ("max", 1, "x", False, [])]
    H["smax-fault-smax"] = [("add", 0, ["x!=K2"]), ("max", 0, "x", True, []), ("max", 0, "x", True, []), ("min", 0, "x", True, []), ("min", 0, "x", True, [])]
    H["eval-fault-eval"] = [("add", 0, [A]), ("eval", 0, "x", 9, []), ("eval", 0, "x", 9, []), ("max", 0, "x", False, [])]
    # two independent groups, one of them possibly unsatisfiable (only the backend can tell): a fault during the satisfiability check must
    # not make the solver forget that a group was never checked
    H["two-groups-sat-fault-sat"] = [("add", 0, ["x<=K0"]), ("add", 0, ["y<=K2", "y>=K0"]), ("sat", 0, []), ("sat", 0, []), ("eval", 0, "x", 2, [])]
    H["two-groups-sat-fault-branch"] = [("add", 0, ["y<=K2", "y>=K0"]), ("add", 0, ["x<=K0"]), ("sat", 0, []), ("branch", 0, 1), ("sat", 1, []), ("eval", 1, "x", 2, [])]
    H["two-groups-presolved-fault"] = [("add", 0, ["x<=K0"]), ("sat", 0, []), ("add", 0, ["y<=K2", "y>=K0"]), ("sat", 0, []), ("sat", 0, []), ("eval", 0, "x", 2, [])]
    return H


PROPS = {
    # prop: (histories, classes, options)
    "C10": (truth_histories, ["Solver", "SolverComposite", "SolverReplacement", "SolverHybridExact"], {}),
    "C12": (lambda: {**composite_histories(), **{k: v for k, v in p_c11.targeted().items() if hmod(k, 5) == 0}}, ["SolverComposite"], {}),
    "C13": (lambda: {**replacement_histories(), **approx_histories(), **{k: v for k, v in p_c11.targeted().items() if hmod(k, 4) == 0}},
            ["SolverReplacement", "SolverHybridExact", "SolverHybridApprox"], {}),
    "C18": (lambda: {**pickle_histories(), **{k: v for k, v in approx_histories().items() if "pickle" in k}}, ALLCLS + ["SolverHybridApprox"], {}),
    "C14": (branch_histories, ALLCLS, {}),
    "C15": (merge_histories, ALLCLS, {}),
    "C16": (core_histories, ["Solver", "SolverComposite", "SolverHybridExact"], {"track": True}),
    "C17": (fault_histories, ["Solver", "SolverCacheless", "SolverComposite"], {"fault": True}),
}


# histories whose point is lost with 1-bit variables (a range constraint over one bit is rewritten to an equality, and two contradicting
# equalities are caught by the pairwise shortcut before the code under test is reached)
NEEDS_TWO_BITS = {"combine-three-others-overlap", "combine-unsolved-other", "combine-unsolved-middle"}


def obligations(prop, tier):
    quick = tier == "quick"
    hs, classes, opts = PROPS[prop]
    out = []
    for name, h in hs().items():
        nv = len(p_hist.vars_of_history(h) - {"b"})
        for cls in classes:
            if (cls == "SolverHybridApprox") != name.startswith("approx-"):
                continue   # approximate histories run on the hybrid solver asked with exact=False, and only there
            if cls == "SolverReplacement" and any(st[0] == "unsat_core" for st in h):
                continue   # SolverReplacement has no unsat_core()
            if name.startswith("annotated-") and cls.startswith("SolverHybrid"):
                # stated bound: the VSA backend of the hybrid solver rejects every annotation type it does not know (ValueError at add,
                # BackendVSA.apply_annotation) - adding a user-annotated constraint is outside what that solver accepts
                continue
            if quick and prop in ("C14", "C15", "C18") and cls in ("SolverCacheless", "SolverHybridExact") and hmod(name + cls, 3):
                continue
            if quick and prop == "C18" and hmod(name + cls, 2):
                continue
            for reuse in (False, True):
                if reuse and (quick and hmod(name + cls, 4) or cls in ("SolverCacheless",)):
                    continue
                N = 2 if (quick or nv > 1) else 3
                if nv >= 3:
                    N = 2 if not quick else 1
                if quick and (len(h) >= 7 or (nv >= 2 and len(h) >= 6)):
                    N = 1   # long histories: 1-bit variables in the quick tier (2-3 bits in the thorough tier)
                if name in NEEDS_TWO_BITS:
                    N = max(N, 2)
                p = {"hist": h, "cls": cls, "N": N, "reuse": reuse}
                p.update(opts)
                if prop == "C17" and quick:
                    # the symbolic fault position multiplies the paths by the number of backend checks: one arbitrary model choice,
                    # 1-bit variables for the longer histories
                    p["free_choices"] = 1
                    if len(h) >= 5:
                        p["N"] = 1
                out.append((f"hist:{cls}:{'reuse' if reuse else 'fresh'}:{name}", p))
    return out


def run_obligation(oid, params, tier):
    if oid.startswith("kernel:"):
        return p_z3kernel.run_obligation(oid, params, tier, params["prop"])
    return p_hist.run_obligation_generic(oid, params, tier, params["prop"])


LEVELS = {"C10": "model_checking", "C12": "model_checking", "C13": "model_checking", "C14": "model_checking", "C15": "model_checking", "C16": "model_checking",
          "C17": "fault_enumeration", "C18": "model_checking"}

EXTRA_FUNCS = {
    "C12": ["claripy.frontend.composite_frontend.CompositeFrontend (_solver_for_names, _merged_solver_for, _reabsorb_solver, _claim, _store_child, _split_child, all queries)",
            "claripy.frontend.mixin.composited_cache_mixin", "claripy.frontend.constrained_frontend._split_constraints"],
    "C13": ["claripy.frontend.replacement_frontend.ReplacementFrontend (_add, _replacement, add_replacement, all queries)",
            "claripy.frontend.hybrid_frontend.HybridFrontend (_do_call, _exact_call, _approximate_first_call)"],
    "C14": ["Frontend.branch / _blank_copy / _copy chains of every mixin", "FullFrontend._get_solver (finalize + clone)", "CompositeFrontend._claim (copy-on-write)"],
    "C15": ["ConstrainedFrontend.merge / combine / split / _split_constraints", "CompositeFrontend.merge / combine / split", "ModelCacheMixin.combine / split",
            "HybridFrontend.merge / combine / split", "ReplacementFrontend.merge / combine / split"],
    "C16": ["BackendZ3.add(track=True) / _add / unsat_core / _unsat_core (kernel leg, real z3.Solver)", "FullFrontend.unsat_core", "SatCacheMixin._add (_cached_unsat_core) / unsat_core", "CompositeFrontend.unsat_core"],
    "C17": ["every frontend query path with a backend check that raises ClaripySolverInterruptError at a symbolic position"],
    "C18": ["__getstate__/__setstate__ of every frontend class and mixin", "claripy.ast.base.Base.__reduce__ / _d (in-process)"],
}


def check(prop, tier, cap, only=None, procs=None, list_only=False, t0=None):
    obs = obligations(prop, tier) + p_z3kernel.obligations(prop, tier)
    for _, p in obs:
        p["prop"] = prop
    if only:
        obs = [o for o in obs if fnmatch.fnmatchcase(o[0], only)]
    if list_only:
        for o, _ in obs:
            print(o)
        return 0
    results = common.run_pool("harness.p_solvers", obs, tier, cap, procs=procs)
    if prop == "C13":
        # non-bit-vector sorts (IEEE equality is not identity) through the replacement / hybrid solvers on the real backends
        from . import p_c13x

        xobs = p_c13x.obligations(tier)
        if only:
            xobs = [o for o in xobs if fnmatch.fnmatchcase(o[0], only)]
        results += common.run_pool("harness.p_c13x", xobs, tier, cap, procs=procs)
    if prop == "C18":
        # expressions: in-process identity and cross-process round trips under different hash seeds
        from . import p_c18x

        xobs = p_c18x.obligations(tier)
        if only:
            xobs = [o for o in xobs if fnmatch.fnmatchcase(o[0], only)]
        results += common.run_pool("harness.p_c18x", xobs, tier, cap, procs=procs)
    b = p_c11.BOUNDS(tier)
    b["histories"] = {"C12": "17 composite histories connecting / disconnecting variable groups in different orders + a fifth of the C11 targeted families",
                      "C13": "17 replacement histories (equality, Boolean, bound replacements, conflicts, branches, merge / split / combine of solvers that learned replacements) + a quarter of the C11 families; "
                             "SolverReplacement with default options and SolverHybrid in exact mode",
                      "C14": "16 histories on trees of up to 3 branched solvers with interleaved adds and queries, every frontend class",
                      "C15": "21 merge / combine / split histories (with and without ancestor, 2-4 solvers sharing all / some / no children or variables, merge conditions over shared variables, after cached queries), every frontend class",
                      "C16": "14 histories (also cores asked of solvers derived by split / merge / combine / branch from an unsatisfiable one) + the BackendZ3 tracked-add kernel leg; histories reaching unsatisfiability in different orders on tracked Solver / SolverComposite / SolverHybrid; the oracle may "
                             "return any unsatisfiable subset as the core",
                      "C17": "18 histories (also the same query repeated after the faulted one) + BackendZ3 kernel legs (_extrema, _batch_eval, public entry points); the backend check that times out is a symbolic position (<= 40) - every position of every check call is covered",
                      "C18": "a pickle round trip inserted at every position of 6 base histories, every frontend class; expressions: 4 pools (64 expressions of every sort and annotation kind, stripped / replaced annotations) in-process and across processes with 3 (quick) / 4 hash-seed pairs"}[prop]
    return common.finish(prop, tier, LEVELS[prop], results, t0, functions=p_c11.FUNCTIONS + EXTRA_FUNCS[prop], bounds=b,
                         assumptions=p_c11.ASSUMPTIONS + (["the injected fault is ClaripySolverInterruptError raised by the backend's check at a symbolic "
                                                           "position; at most one fault per history"] if prop == "C17" else []),
                         rule=p_c11.RULE, trusted_base=p_c11.TRUSTED)
