"""Kernel leg for C11 / C17: the REAL BackendZ3._extrema and BackendZ3._batch_eval run against an oracle solver object whose
feasible set is symbolic.

The Z3 solver object is replaced by a fake that records push / pop / add and whose check is answered by the stubbed module-level
`z3_solver_sat`: the set S of feasible values of the queried n-bit expression is a symbolic 2^n-bit mask (every one of the
2^(2^n) feasible sets at once); a check is satisfiable iff some v in S satisfies every asserted frame constraint and every extra
constraint (the constraints are the real Z3 terms the backend builds - ground once v is substituted); the model value is a
skolem member concretised by forking.  Optionally the k-th check raises ClaripySolverInterruptError for a symbolic k.

Checked: _extrema returns the true signed / unsigned optimum of S; _batch_eval returns distinct members of S, all of them when
fewer than requested exist; after the call - also after an injected timeout - the solver's assertion stack is exactly what it was
before (no frame left pushed, no blocking clause left asserted).
"""
from __future__ import annotations

import z3

from . import common, symrun
from .symrun import Fail


class FakeModel:
    def __init__(self, name, value):
        self.name = name
        self.value = value


class FakeSolver:
    def __init__(self):
        self.frames = [[]]
        self.last_model = None

    def push(self):
        self.frames.append([])

    def pop(self):
        if len(self.frames) == 1:
            raise RuntimeError("pop without push")
        self.frames.pop()

    def add(self, *cs):
        self.frames[-1].extend(cs)

    def model(self):
        return self.last_model

    def snapshot(self):
        return [list(f) for f in self.frames]


def obligations(prop, tier):
    quick = tier == "quick"
    out = []
    if prop == "C11":
        for n in ([2, 3, 4] if quick else [2, 3, 4, 5, 6]):
            for is_max in (False, True):
                for signed in (False, True):
                    out.append((f"kernel:extrema:{'max' if is_max else 'min'}:{'s' if signed else 'u'}:{n}",
                                {"kind": "extrema", "n": n, "is_max": is_max, "signed": signed}))
        for n in ([2, 3] if quick else [2, 3, 4]):
            for k in (1, 2, 3, 2 ** n + 1):
                out.append((f"kernel:batch_eval:{k}:{n}", {"kind": "batch", "n": n, "k": k, "fault": False}))
    if prop == "C16":
        for n in ([3] if quick else [3, 4]):
            out.append((f"kernel:core:{n}", {"kind": "core", "n": n}))
    if prop == "C17":
        for n in ([2] if quick else [2, 3]):
            for k in (1, 2, 3, 5):
                out.append((f"kernel:batch_eval-fault:{k}:{n}", {"kind": "batch", "n": n, "k": k, "fault": True}))
            for is_max in (False, True):
                out.append((f"kernel:extrema-fault:{'max' if is_max else 'min'}:{n}", {"kind": "extrema", "n": n, "is_max": is_max, "signed": False, "fault": True}))
        for entry in ("satisfiable", "check_satisfiability", "solution", "eval", "min", "max"):
            out.append((f"kernel:entry-fault:{entry}", {"kind": "entry", "n": 2, "entry": entry, "fault": True}))
    return out


def run_core(oid, params, tier, prop):
    """C16 kernel: the REAL BackendZ3.add(track=True) / unsat_core on a real z3.Solver whose unsat_core() answer is replaced by an arbitrary
    (symbolic) subset of the tracked assertions.  Symbolic configuration: which of the n constraints are added as an annotated variant,
    and what was cached for the same Z3 term before (nothing / the plain twin through the term abstraction used by simplify / the plain
    twin tracked in another solver).  Checked: every element returned is IDENTICALLY one of the ASTs given to add, exactly the reported
    subset, no duplicates."""
    import claripy
    from pysym import engine as E

    n = params["n"]
    be = claripy.backends.z3
    known = common.known_for(common.load_known(prop), oid)
    sel = z3.BitVec("core_sel", n)
    cfg = z3.BitVec("annotated", n)
    pre = z3.BitVec("precache", 2)
    zconsts = {"core_sel": sel, "annotated": cfg, "precache": pre}

    class Tag(claripy.Annotation):
        eliminatable = False
        relocatable = True

    vs = [claripy.BVS(f"kc{i}", 4, explicit_name=True) for i in range(n + 1)]

    def plain(i):
        return claripy.ULE(vs[i], vs[i + 1]) if i < n - 1 else claripy.UGT(vs[0], vs[n - 1])

    def annotated(i):
        a = vs[i].annotate(Tag())
        return claripy.ULE(a, vs[i + 1]) if i < n - 1 else claripy.UGT(vs[0].annotate(Tag()), vs[n - 1])

    class CoreSolver:
        """a real z3.Solver; only unsat_core() is replaced"""

        def __init__(self, real):
            self.real = real
            self.chosen = None

        def __getattr__(self, k):
            return getattr(self.real, k)

        def unsat_core(self):
            lits = [impl.children()[0] for impl in self.real.assertions()]
            self.chosen = [i for i in range(len(lits)) if E.ENG.branch(z3.Extract(i, i, sel) == 1)]
            return [lits[i] for i in self.chosen]

    def build():
        E.ENG.assume(z3.ULE(pre, 2))
        be.downsize()
        use_ann = [E.ENG.branch(z3.Extract(i, i, cfg) == 1) for i in range(n)]
        pc = E.ENG.concretize(pre, signed=False)
        cons = [annotated(i) if use_ann[i] else plain(i) for i in range(n)]
        twins = [plain(i) for i in range(n)]
        if pc == 1:
            for t in twins:
                be._abstract(be.convert(t))          # what BackendZ3.simplify does with its result
        elif pc == 2:
            other = z3.Solver(ctx=be._context)
            be.add(other, twins, track=True)
        s = CoreSolver(z3.Solver(ctx=be._context))
        be.add(s, cons, track=True)
        core = be.unsat_core(s)
        return cons, core, s.chosen

    def check(path, s, out):
        if path.kind == "exc":
            e = path.result
            return [Fail("exception", f"raised {type(e).__name__}: {str(e)[:160]}", None, known_key="exc")]
        cons, core, chosen = out
        fails = []
        want = [cons[i] for i in chosen]
        if len(core) != len(want) or any(all(c is not w for w in want) for c in core) or any(all(c is not w for c in core) for w in want):
            fails.append(Fail("membership", f"unsat_core returned {[repr(c)[:60] + ' ' + repr(tuple(map(repr, getattr(c.args[0], 'annotations', ())))) for c in core]} "
                                            f"for the tracked subset {[repr(w)[:60] for w in want]}: an element is not (identically) a constraint that was added"))
        return fails

    def make_case(vals, f):
        return {"harness": "harness.p_z3kernel", "params": params, "vals": vals, "obligation": oid, "fail_kind": f.kind, "detail": f.detail[:300]}

    return symrun.run(oid, width=24, zconsts=zconsts, build=build, check=check, make_case=make_case, max_paths=4000, known=known,
                      sample={"obligation": oid}, reset=False)


def _replay_core(case):
    """native: real z3 solver; the 3-way conflict makes the whole set the core; configuration from the counterexample"""
    import claripy

    params, vals = case["params"], case["vals"]
    n = params["n"]
    be = claripy.backends.z3
    be.downsize()
    cfg, pc = int(vals.get("annotated", 0)), int(vals.get("precache", 0))

    class Tag(claripy.Annotation):
        eliminatable = False
        relocatable = True

    vs = [claripy.BVS(f"kc{i}", 4, explicit_name=True) for i in range(n + 1)]

    def plain(i):
        return claripy.ULE(vs[i], vs[i + 1]) if i < n - 1 else claripy.UGT(vs[0], vs[n - 1])

    def annotated(i):
        a = vs[i].annotate(Tag())
        return claripy.ULE(a, vs[i + 1]) if i < n - 1 else claripy.UGT(vs[0].annotate(Tag()), vs[n - 1])

    cons = [annotated(i) if (cfg >> i) & 1 else plain(i) for i in range(n)]
    twins = [plain(i) for i in range(n)]
    if pc == 1:
        for t in twins:
            be._abstract(be.convert(t))
    elif pc == 2:
        other = z3.Solver(ctx=be._context)
        be.add(other, twins, track=True)
    s = z3.Solver(ctx=be._context)
    be.add(s, cons, track=True)
    if s.check() != z3.unsat:
        return {"violated": False, "detail": "constraints satisfiable natively"}
    core = be.unsat_core(s)
    bad = [c for c in core if all(c is not w for w in cons)]
    return {"violated": bool(bad), "detail": f"annotated={cfg:b} precache={pc}: unsat_core returned {len(core)} elements, {len(bad)} of them not identically an added constraint"
                                             + (f" (e.g. {bad[0]!r} with operand annotations {[a.annotations for a in bad[0].args]})" if bad else "")}


def run_entry(oid, params, tier, prop):
    """C17 kernel: the PUBLIC BackendZ3 entry points (Backend.satisfiable / check_satisfiability / solution / eval / min / max -> the Z3
    specific _satisfiable, _check_satisfiability, _solution, _eval, _extrema) on the oracle solver object of this module; the k-th check
    (symbolic k) times out.  A call during which a check timed out must raise a claripy error: any returned answer is a violation.
    Without a fault the answer must be correct for the symbolic feasible set."""
    import claripy
    import claripy.backends.backend_z3 as bz
    from claripy.errors import ClaripyError, ClaripySolverInterruptError
    from pysym import engine as E

    n, entry = params["n"], params["entry"]
    size = 1 << n
    S = z3.BitVec("S", size)
    xz = z3.BitVec("kx", n)
    fault_at = z3.BitVec("fault_at", 6)
    zconsts = {"S": S, "fault_at": fault_at}
    be = claripy.backends.z3
    known = common.known_for(common.load_known(prop), oid)
    xc = claripy.BVS("kx", n, explicit_name=True)
    state = {}

    def inS(v):
        return z3.Extract(v, v, S) == 1

    def holds(cs, v):
        for c in cs:
            g = z3.simplify(z3.substitute(c, (xz, z3.BitVecVal(v, n))))
            if z3.is_false(g):
                return False
            if not z3.is_true(g):
                raise RuntimeError(f"constraint not ground after substitution: {g}")
        return True

    def stub_sat(solver, extra_constraints, occasion):
        k = state["calls"]
        state["calls"] += 1
        if E.ENG.branch(fault_at == k):
            state["faulted"] = True
            raise ClaripySolverInterruptError("timeout")
        cs = [c for f in solver.frames for c in f] + list(extra_constraints)
        cand = [v for v in range(size) if holds(cs, v)]
        feas = z3.Or(*[inS(v) for v in cand]) if cand else z3.BoolVal(False)
        if not E.ENG.branch(feas):
            solver.last_model = None
            return False
        sk = z3.BitVec(f"sk{k}", n)
        E.ENG.assume(z3.Or(*[z3.And(sk == v, inS(v)) for v in cand]))
        solver.last_model = FakeModel("kx", E.ENG.concretize(sk, signed=False))
        return True

    def build():
        state.clear()
        state.update(calls=0, faulted=False)
        E.ENG.assume(z3.ULT(fault_at, 12))
        if entry in ("min", "max"):
            E.ENG.assume(S != 0)
        saved = (bz.z3_solver_sat, type(be)._primitive_from_model, type(be)._generic_model)
        bz.z3_solver_sat = stub_sat
        type(be)._primitive_from_model = lambda self, model, expr: model.value
        type(be)._generic_model = lambda self, model: {model.name: model.value}
        solver = FakeSolver()
        try:
            try:
                if entry == "satisfiable":
                    r = be.satisfiable(solver=solver)
                elif entry == "check_satisfiability":
                    r = be.check_satisfiability(solver=solver)
                elif entry == "solution":
                    r = be.solution(xc, 1, solver=solver)
                elif entry == "eval":
                    r = be.eval(xc, 2, solver=solver)
                else:
                    r = getattr(be, entry)(xc, solver=solver)
                exc = None
            except ClaripyError as e:
                r, exc = None, e
        finally:
            bz.z3_solver_sat, type(be)._primitive_from_model, type(be)._generic_model = saved
        return r, exc, state["faulted"]

    def check(path, s, out):
        if path.kind == "exc":
            e = path.result
            return [Fail("exception", f"raised {type(e).__name__}: {str(e)[:160]}", None, known_key="exc")]
        r, exc, faulted = out
        if faulted:
            if exc is None:
                return [Fail("fault-swallowed", f"a check timed out during BackendZ3.{entry} but it returned {r!r:.60} instead of raising a claripy error")]
            return []
        if exc is not None:
            return [Fail("exception", f"BackendZ3.{entry} raised {type(exc).__name__} without an injected fault")]
        anyS = S != 0
        if entry == "satisfiable":
            return [Fail("answer", f"satisfiable() = {r}", anyS != z3.BoolVal(bool(r)))]
        if entry == "check_satisfiability":
            return [Fail("answer", f"check_satisfiability() = {r!r}", z3.Not(z3.If(anyS, z3.BoolVal(r == "SAT"), z3.BoolVal(r == "UNSAT"))))]
        if entry == "solution":
            return [Fail("answer", f"solution(x, 1) = {r}", inS(1) != z3.BoolVal(bool(r)))]
        if entry == "eval":
            vals = list(r)
            fl = [Fail("answer", f"eval returned {vals}, not all feasible", z3.Or(*[z3.Not(inS(v)) for v in vals]) if vals else z3.BoolVal(False))]
            if len(vals) < 2:
                others = [u for u in range(size) if u not in vals]
                fl.append(Fail("answer", f"eval returned {vals} (< 2) but another feasible value exists", z3.Or(*[inS(u) for u in others])))
            return fl
        v = r & (size - 1)
        better = [u for u in range(size) if (u > v if entry == "max" else u < v)]
        return [Fail("answer", f"{entry} returned {r}", z3.Or(z3.Not(inS(v)), *[inS(u) for u in better]))]

    def make_case(vals, f):
        return {"harness": "harness.p_z3kernel", "params": params, "vals": vals, "obligation": oid, "fail_kind": f.kind, "detail": f.detail[:300]}

    return symrun.run(oid, width=24, zconsts=zconsts, build=build, check=check, make_case=make_case, max_paths=4000, known=known,
                      sample={"obligation": oid}, reset=False)


def _replay_entry(case):
    import claripy
    import claripy.backends.backend_z3 as bz
    from claripy.errors import ClaripyError, ClaripySolverInterruptError

    params, vals = case["params"], case["vals"]
    n, entry = params["n"], params["entry"]
    size = 1 << n
    Sv = int(vals.get("S", 0))
    members = [v for v in range(size) if (Sv >> v) & 1]
    fault_at = int(vals.get("fault_at", 99))
    be = claripy.backends.z3
    x = z3.BitVec("kx", n)
    xc = claripy.BVS("kx", n, explicit_name=True)
    solver = z3.Solver()
    solver.add(z3.Or(*[x == v for v in members]) if members else z3.BoolVal(False))
    calls = [0]
    real = bz.z3_solver_sat

    def wrapped(s, extra, occasion):
        k = calls[0]
        calls[0] += 1
        if k == fault_at:
            raise ClaripySolverInterruptError("timeout (injected)")
        return real(s, extra, occasion)

    bz.z3_solver_sat = wrapped
    try:
        try:
            if entry == "satisfiable":
                r = be.satisfiable(solver=solver)
            elif entry == "check_satisfiability":
                r = be.check_satisfiability(solver=solver)
            elif entry == "solution":
                r = be.solution(xc, 1, solver=solver)
            elif entry == "eval":
                r = be.eval(xc, 2, solver=solver)
            else:
                r = getattr(be, entry)(xc, solver=solver)
            exc = None
        except ClaripyError as e:
            r, exc = None, e
    finally:
        bz.z3_solver_sat = real
    desc = f"BackendZ3.{entry} on the feasible set {members}, timeout at check {fault_at} ({calls[0]} checks made)"
    if calls[0] > fault_at:
        return {"violated": exc is None, "detail": (f"returned {r!r:.60} although a check timed out" if exc is None else f"raised {type(exc).__name__}") + "; " + desc}
    if exc is not None:
        return {"violated": True, "detail": f"raised {type(exc).__name__} without a fault; " + desc}
    ok = {"satisfiable": lambda: bool(r) == bool(members), "check_satisfiability": lambda: r == ("SAT" if members else "UNSAT"),
          "solution": lambda: bool(r) == (1 in members), "eval": lambda: set(r) <= set(members) and (len(r) == 2 or set(r) == set(members)),
          "min": lambda: not members or (r & (size - 1)) == min(members), "max": lambda: not members or (r & (size - 1)) == max(members)}[entry]()
    return {"violated": not ok, "detail": f"answer {r!r:.60}; " + desc}


def run_obligation(oid, params, tier, prop):
    if params.get("kind") == "core":
        return run_core(oid, params, tier, prop)
    if params.get("kind") == "entry":
        return run_entry(oid, params, tier, prop)
    import claripy
    import claripy.backends.backend_z3 as bz
    from claripy.errors import ClaripyError, ClaripySolverInterruptError
    from pysym import engine as E

    n, kind = params["n"], params["kind"]
    size = 1 << n
    S = z3.BitVec("S", size)
    x = z3.BitVec("kx", n)
    fault_at = z3.BitVec("fault_at", 6) if params.get("fault") else None
    zconsts = {"S": S}
    if fault_at is not None:
        zconsts["fault_at"] = fault_at
    be = claripy.backends.z3
    known = common.known_for(common.load_known(prop), oid)

    def inS(v):
        return z3.Extract(v, v, S) == 1

    def holds(cs, v):
        """conjunction of the (real z3) constraints cs at x := v, as a python bool"""
        for c in cs:
            g = z3.simplify(z3.substitute(c, (x, z3.BitVecVal(v, n))))
            if z3.is_false(g):
                return False
            if not z3.is_true(g):
                raise RuntimeError(f"constraint not ground after substitution: {g}")
        return True

    state = {}

    def stub_sat(solver, extra_constraints, occasion):
        k = state["calls"]
        state["calls"] += 1
        if fault_at is not None and E.ENG.branch(fault_at == k):
            state["faulted"] = True
            raise ClaripySolverInterruptError("timeout")
        cs = [c for f in solver.frames for c in f] + list(extra_constraints)
        cand = [v for v in range(size) if holds(cs, v)]
        feas = z3.Or(*[inS(v) for v in cand]) if cand else z3.BoolVal(False)
        if not E.ENG.branch(feas):
            solver.last_model = None
            return False
        sk = z3.BitVec(f"sk{k}", n)
        E.ENG.assume(z3.Or(*[z3.And(sk == v, inS(v)) for v in cand]))
        v = E.ENG.concretize(sk, signed=False)
        solver.last_model = FakeModel("kx", v)
        return True

    def build():
        state.clear()
        state.update(calls=0, faulted=False)
        if kind == "extrema":
            E.ENG.assume(S != 0)   # the frontends only ask for an extremum of a satisfiable set
        if fault_at is not None:
            E.ENG.assume(z3.ULT(fault_at, 40))
        saved = (bz.z3_solver_sat, type(be)._primitive_from_model, type(be)._generic_model)
        bz.z3_solver_sat = stub_sat
        type(be)._primitive_from_model = lambda self, model, expr: model.value
        type(be)._generic_model = lambda self, model: {model.name: model.value}
        solver = FakeSolver()
        solver.add(z3.ULE(x, size - 1))   # something already asserted (must still be there afterwards)
        solver.push()
        before = solver.snapshot()
        models = []
        try:
            try:
                if kind == "extrema":
                    # the frontends only ask for an extremum of a satisfiable set
                    r = be._extrema(params["is_max"], x, (), params["signed"], solver, models.append)
                else:
                    r = be._batch_eval([x], params["k"], extra_constraints=(), solver=solver, model_callback=models.append)
                exc = None
            except ClaripyError as e:
                r, exc = None, e
        finally:
            bz.z3_solver_sat, type(be)._primitive_from_model, type(be)._generic_model = saved
        return r, exc, before, solver.snapshot(), state["faulted"], models

    def check(path, s, out):
        if path.kind == "exc":
            e = path.result
            return [Fail("exception", f"raised {type(e).__name__}: {str(e)[:160]}", None, known_key="exc")]
        r, exc, before, after, faulted, models = out
        fails = []
        same_stack = len(before) == len(after) and all(len(a) == len(b) and all(p.eq(q) for p, q in zip(a, b)) for a, b in zip(before, after))
        if not same_stack:
            fails.append(Fail("stack", f"the solver's assertion stack changed: {len(before)} frames / {sum(map(len, before))} assertions before, "
                                       f"{len(after)} frames / {sum(map(len, after))} assertions after" + (" (after an injected timeout)" if faulted else ""),
                              None, known_key="stack-after-fault" if faulted else "stack"))
        if faulted:
            if exc is None:
                fails.append(Fail("fault-swallowed", "a check timed out but the operation returned an answer instead of raising a claripy error"))
            return fails
        if exc is not None:
            fails.append(Fail("exception", f"raised {type(exc).__name__}: {exc} without an injected fault"))
            return fails
        for m in models:
            v = list(m.values())[0]
            fails.append(Fail("model", f"a model handed to the callback ({v}) is not feasible", z3.Not(inS(v))))
        if kind == "extrema":
            v = r & (size - 1)
            sg = lambda u: u - size if u >> (n - 1) else u  # noqa: E731
            key = sg if params["signed"] else (lambda u: u)
            better = [u for u in range(size) if (key(u) > key(v) if params["is_max"] else key(u) < key(v))]
            fails.append(Fail("extremum", f"_extrema returned {r}, which is not the {'max' if params['is_max'] else 'min'} of the feasible set",
                              z3.Or(z3.Not(inS(v)), *[inS(u) for u in better])))
        else:
            vals = [t[0] for t in r]
            if len(set(vals)) != len(vals):
                fails.append(Fail("duplicate", f"_batch_eval returned duplicates {vals}"))
            if len(vals) > params["k"]:
                fails.append(Fail("too-many", f"{len(vals)} results for n={params['k']}"))
            fails.append(Fail("infeasible", f"_batch_eval returned {vals}, not all feasible", z3.Or(*[z3.Not(inS(v)) for v in vals]) if vals else z3.BoolVal(False)))
            if len(vals) < params["k"]:
                others = [u for u in range(size) if u not in vals]
                fails.append(Fail("incomplete", f"_batch_eval returned {vals} (< {params['k']}) but another feasible value exists", z3.Or(*[inS(u) for u in others]) if others else z3.BoolVal(False)))
        return fails

    def make_case(vals, f):
        return {"harness": "harness.p_z3kernel", "params": params, "vals": vals, "obligation": oid, "fail_kind": f.kind, "detail": f.detail[:300]}

    return symrun.run(oid, width=24, zconsts=zconsts, build=build, check=check, make_case=make_case, max_paths=4000 if tier == "quick" else 40000,
                      known=known, sample={"obligation": oid}, reset=False)


def replay(case):
    """native: the real BackendZ3 function on a REAL z3.Solver whose constraints make exactly the counterexample's feasible set;
    the fault is injected by wrapping the module-level z3_solver_sat with a call counter."""
    import claripy
    import claripy.backends.backend_z3 as bz
    from claripy.errors import ClaripyError, ClaripySolverInterruptError

    params, vals = case["params"], case["vals"]
    if params.get("kind") == "core":
        return _replay_core(case)
    if params.get("kind") == "entry":
        return _replay_entry(case)
    n, kind = params["n"], params["kind"]
    size = 1 << n
    Sv = int(vals.get("S", 0))
    members = [v for v in range(size) if (Sv >> v) & 1]
    fault_at = int(vals["fault_at"]) if params.get("fault") and "fault_at" in vals else None
    be = claripy.backends.z3
    x = z3.BitVec("kx", n)
    solver = z3.Solver()
    solver.add(z3.Or(*[x == v for v in members]) if members else z3.BoolVal(False))
    solver.push()
    nbefore = len(solver.assertions())
    calls = [0]
    real = bz.z3_solver_sat

    def wrapped(s, extra, occasion):
        k = calls[0]
        calls[0] += 1
        if fault_at is not None and k == fault_at:
            raise ClaripySolverInterruptError("timeout (injected)")
        return real(s, extra, occasion)

    bz.z3_solver_sat = wrapped
    desc = f"{case['obligation']} feasible set {members}" + (f" timeout at check {fault_at}" if fault_at is not None else "")
    try:
        try:
            if kind == "extrema":
                r = be._extrema(params["is_max"], x, (), params["signed"], solver, None)
            else:
                r = be._batch_eval([x], params["k"], extra_constraints=(), solver=solver, model_callback=None)
            exc = None
        except ClaripyError as e:
            r, exc = None, e
    finally:
        bz.z3_solver_sat = real
    nafter = len(solver.assertions())
    depth_ok = True
    try:
        solver.pop()
        try:
            solver.pop()
            depth_ok = False   # a frame was left pushed
        except z3.Z3Exception:
            pass
    except z3.Z3Exception:
        depth_ok = False
    if nafter != nbefore or not depth_ok:
        return {"violated": True, "detail": f"assertion stack changed: {nbefore} assertions before, {nafter} after, frame depth restored: {depth_ok}; {desc}"}
    if fault_at is not None and calls[0] > fault_at:
        return {"violated": exc is None, "detail": ("the timeout was swallowed" if exc is None else f"raised {type(exc).__name__}, stack intact") + "; " + desc}
    if exc is not None:
        return {"violated": True, "detail": f"raised {type(exc).__name__}: {exc}; {desc}"}
    if kind == "extrema":
        if not members:
            return {"violated": False, "detail": "empty feasible set (not asked by the frontends); " + desc}
        sg = lambda u: u - size if u >> (n - 1) else u  # noqa: E731
        key = sg if params["signed"] else (lambda u: u)
        want = (max if params["is_max"] else min)(members, key=key)
        return {"violated": (r & (size - 1)) != want, "detail": f"_extrema = {r}, true optimum {want}; {desc}"}
    vals_ = [t[0] for t in r]
    bad = len(set(vals_)) != len(vals_) or not set(vals_) <= set(members) or len(vals_) > params["k"] or (len(vals_) < params["k"] and set(vals_) != set(members))
    return {"violated": bad, "detail": f"_batch_eval = {vals_}; {desc}"}
