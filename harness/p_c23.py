"""C23: discrete strided-interval sets and region value sets are sound abstractions.

DiscreteStridedIntervalSet and ValueSet objects are built from member intervals whose stride / bounds are symbolic n-bit
values (pysym shadows; one member per operand symbolic, the others from a small concrete pool), and every operation the
classes define is executed on them.  Per explored path Z3 decides, for all interval parameters of the path and all
concrete members, that the concrete result is contained in the abstract result (for value sets: per region), and that the
queries agree with the member set.

The member-level transfer functions are C21's subject: operand pairs listed in C21's exact tables of known-failing tuples
are excluded by assumption (so that a failure here is a defect of the set / region lifting, not of the interval
operation underneath), and operations whose interval version has no exact table at this width are attributed to the
C21 finding as a whole.
"""
from __future__ import annotations

import fnmatch
import itertools

import z3

from . import common, p_vsa, symrun, vsaglue
from .symrun import Fail

POOL = {  # concrete second members / operands per width: (stride, lb, ub), non-wrapping
    2: [(1, 0, 1), (0, 3, 3), (2, 1, 3)],
    3: [(1, 1, 3), (0, 6, 6), (2, 0, 6), (1, 5, 7)],
}

DSIS_BIN = {
    "add": ("__add__", lambda x, y: x + y, "add"), "sub": ("__sub__", lambda x, y: x - y, "sub"),
    "and": ("__and__", lambda x, y: x & y, "and"), "or": ("__or__", lambda x, y: x | y, "or"), "xor": ("__xor__", lambda x, y: x ^ y, "xor"),
    "udiv": ("__floordiv__", lambda x, y: z3.UDiv(x, y), "udiv"), "mod": ("__mod__", lambda x, y: z3.URem(x, y), "mod"),
    "shl": ("__lshift__", lambda x, y: x << y, "shl"), "ashr": ("__rshift__", lambda x, y: x >> y, "ashr"),
    "concat": ("concat", lambda x, y: z3.Concat(x, y), "concat"),
    "radd": ("__radd__", lambda x, y: y + x, "add"), "rsub": ("__rsub__", lambda x, y: y - x, "sub"),
    "rand": ("__rand__", lambda x, y: y & x, "and"), "rudiv": ("__rfloordiv__", lambda x, y: z3.UDiv(y, x), "udiv"),
    "rmod": ("__rmod__", lambda x, y: z3.URem(y, x), "mod"),
}
DSIS_CMP = {"eq": ("__eq__", lambda x, y: x == y), "ne": ("__ne__", lambda x, y: x != y), "ULT": ("ULT", z3.ULT), "ULE": ("ULE", z3.ULE),
            "UGT": ("UGT", z3.UGT), "UGE": ("UGE", z3.UGE)}
DSIS_UN = {"neg": ("__neg__", lambda x: -x, "neg"), "invert": ("__invert__", lambda x: ~x, "not")}
DSIS_SET = ["union", "union_si", "intersection", "intersection_si", "widen"]
DSIS_QUERY = ["eval", "eval2", "eval3", "cardinality", "minmax", "collapse"]
VS_BIN = {"add": ("__add__", lambda x, y: x + y, "add"), "radd": ("__radd__", lambda x, y: y + x, "add"), "sub": ("__sub__", lambda x, y: x - y, "sub"),
          "mod": ("__mod__", lambda x, y: z3.URem(x, y), "mod"), "and": ("__and__", lambda x, y: x & y, "and"),
          "lshr": ("LShR", lambda x, y: z3.LShR(x, y), "lshr"), "concat": ("concat", lambda x, y: z3.Concat(x, y), "concat")}
VS_SET = ["union", "union_si", "widen", "intersection", "intersection_si", "sub_vs", "eq_vs", "identical", "identical_sub"]
VS_QUERY = ["eval", "minmax", "cardinality", "extract", "eq_si", "cmp"]


def obligations(tier):
    quick = tier == "quick"
    out = []
    for n in ([2] if quick else [2, 3]):
        for op in DSIS_BIN:
            for rhs in ("si", "dsis", "int"):
                if op.startswith("r") and rhs == "dsis":
                    continue
                out.append((f"dsis:{op}:{rhs}:{n}", {"cls": "dsis", "kind": "bin", "op": op, "rhs": rhs, "n": n}))
        for op in DSIS_CMP:
            for rhs in ("si", "dsis", "int"):
                out.append((f"dsis:{op}:{rhs}:{n}", {"cls": "dsis", "kind": "cmp", "op": op, "rhs": rhs, "n": n}))
        for op in DSIS_UN:
            out.append((f"dsis:{op}:{n}", {"cls": "dsis", "kind": "un", "op": op, "n": n}))
        for k in (1, n):
            out.append((f"dsis:zext{k}:{n}", {"cls": "dsis", "kind": "ext", "op": "zext", "k": k, "n": n}))
            out.append((f"dsis:sext{k}:{n}", {"cls": "dsis", "kind": "ext", "op": "sext", "k": k, "n": n}))
        for hi in range(n):
            for lo in range(hi + 1):
                if hi - lo + 1 < n:
                    out.append((f"dsis:extract{hi}_{lo}:{n}", {"cls": "dsis", "kind": "ext", "op": "extract", "hi": hi, "lo": lo, "n": n}))
        for op in DSIS_SET:
            out.append((f"dsis:{op}:{n}", {"cls": "dsis", "kind": "set", "op": op, "n": n}))
        for op in DSIS_QUERY:
            out.append((f"dsis:{op}:{n}", {"cls": "dsis", "kind": "query", "op": op, "n": n}))
        for op in VS_BIN:
            for rhs in ("si", "int"):
                if op == "concat" and rhs == "int":
                    continue   # concat needs a sized operand
                for regs in (1, 2):
                    out.append((f"vs:{op}:{rhs}:{regs}r:{n}", {"cls": "vs", "kind": "bin", "op": op, "rhs": rhs, "regs": regs, "n": n}))
        for op in VS_SET:
            for regs in (1, 2):
                out.append((f"vs:{op}:{regs}r:{n}", {"cls": "vs", "kind": "set", "op": op, "regs": regs, "n": n}))
        for op in VS_QUERY:
            for regs in (1, 2):
                out.append((f"vs:{op}:{regs}r:{n}", {"cls": "vs", "kind": "query", "op": op, "regs": regs, "n": n}))
    return out


# ---------------------------------------------------------------------------------------------------------


def _c21_table(op, n):
    return p_vsa.tables().get(f"C21/si:{op}:{n}") or p_vsa.tables().get(f"C22/si:{op}:{n}")


def _c21_has_any(op):
    t = p_vsa.tables()
    return any(k.split(":")[1] == op and v["count"] for k, v in t.items())


def excl_pair(op, n, A, Bp):
    """formula: the operand pair (A, B) is not a known-failing tuple of the interval operation `op` at width n.
    A / B: lists of 3 z3 terms or 3 ints.  Returns (formula, coarse) - coarse=True if the operation has findings but no exact table."""
    tab = _c21_table(op, n)
    if tab is None:
        return z3.BoolVal(True), _c21_has_any(op)
    if not tab["count"]:
        return z3.BoolVal(True), False
    fa = [a if z3.is_expr(a) else z3.BitVecVal(a, n) for a in A]
    fb = [b if z3.is_expr(b) else z3.BitVecVal(b, n) for b in Bp] if Bp is not None else []
    key = z3.Concat(*fa, *fb) if len(fa) + len(fb) > 1 else fa[0]
    F = tab["keys"]
    if 2 * len(F) <= tab["total"] or Bp is None:
        return z3.Not(z3.Or(*[key == z3.BitVecVal(k, key.size()) for k in F])), False
    Fs = set(F)
    tri = p_vsa.wf_triples(n)
    P = [p_vsa.key_of(n, *c) for c in itertools.product(tri, repeat=2)]
    P = [k for k in P if k not in Fs]
    return z3.Or(*[key == z3.BitVecVal(k, key.size()) for k in P]), False


def run_obligation(oid, params, tier):
    if params["cls"] == "dsis":
        return run_dsis(oid, params, tier)
    return run_vs(oid, params, tier)


def _mkSI(SI, n, P):
    from pysym import engine as E

    if z3.is_expr(P[0]):
        return SI(bits=n, stride=E.SInt.unsigned(P[0]), lower_bound=E.SInt.unsigned(P[1]), upper_bound=E.SInt.unsigned(P[2]))
    return SI(bits=n, stride=P[0], lower_bound=P[1], upper_bound=P[2])


def _mem(z, P, n):
    P = [p if z3.is_expr(p) else z3.BitVecVal(p, n) for p in P]
    return vsaglue.member(z, *P)


def _sym(prefix, n):
    return [z3.BitVec(f"{prefix}_{k}", n) for k in ("s", "lb", "ub")]


def run_dsis(oid, params, tier):
    from claripy.backends.backend_vsa.discrete_strided_interval_set import DiscreteStridedIntervalSet as DSIS
    from claripy.backends.backend_vsa.strided_interval import StridedInterval as SI
    from pysym import engine as E

    vsaglue.install()
    n, kind, op = params["n"], params["kind"], params["op"]
    rhs = params.get("rhs")
    A1 = _sym("a1", n)
    B1 = _sym("b1", n)
    kint = z3.BitVec("k", n)
    x, y = z3.BitVec("x", n), z3.BitVec("y", n)
    zconsts = {str(t): t for t in (*A1, *B1, kint, x, y)}
    known = common.known_for(common.load_known("C23"), oid)
    pool = POOL[n]
    res_all = None
    # one exploration per choice of the concrete second members (keeps each exploration small)
    two_sided = rhs in ("si", "dsis") or kind == "set"
    combos = [(side, a2, b2) for side in (("a", "b") if two_sided else ("a",)) for a2 in pool[:2] for b2 in (pool[1:3] if rhs == "dsis" else [None])]
    A1s, B1s = A1, B1
    for side, a2, b2 in combos:
        # only one operand carries a symbolic member per exploration (two symbolic intervals do not finish in the budget)
        A1 = A1s if side == "a" else list(pool[-1])
        B1 = B1s if (side == "b" or not two_sided) else list(pool[0])
        amembers = [A1, list(a2)]
        if rhs == "dsis":
            bmembers = [B1, list(b2)]
        elif rhs == "si" or kind == "set":
            bmembers = [B1]
        else:
            bmembers = []
        pre = [vsaglue.wellformed(*A1)] if side == "a" else []
        if bmembers and side == "b":
            pre.append(vsaglue.wellformed(*B1))
        if not pre:
            pre = [z3.BoolVal(True)]
        coarse = False
        base = {"bin": lambda: DSIS_BIN[op][2], "cmp": lambda: op, "un": lambda: DSIS_UN[op][2],
                "ext": lambda: (op + (str(params["k"]) if op != "extract" else f"{params['hi']}_{params['lo']}")),
                "set": lambda: {"union": "union", "union_si": "union", "intersection": "intersection", "intersection_si": "intersection", "widen": "widen"}[op],
                "query": lambda: None}[kind]()
        if kind == "cmp" or (kind == "set" and op == "widen"):
            # these operate on the *collapsed* set (union of the members), whose operands are not the member pairs: no exclusion
            # by assumption is possible; failures are attributed per counterexample from the recorded interval-level calls
            base = None
        if base is not None:
            if kind in ("bin", "cmp", "set"):
                swap = kind == "bin" and op.startswith("r")
                bm = bmembers if bmembers else [[0, kint, kint]]
                for am in amembers:
                    for bm_ in bm:
                        f, c = excl_pair(base, n, bm_ if swap else am, am if swap else bm_)
                        pre.append(f)
                        coarse = coarse or c
                # union/collapse of the members is used by several lifted operations
                for am, am2 in itertools.combinations(amembers, 2):
                    f, c = excl_pair("union", n, am, am2)
                    pre.append(f)
            else:
                for am in amembers:
                    f, c = excl_pair(base, n, am, None)
                    pre.append(f)
                    coarse = coarse or c
        mem_a = z3.Or(*[_mem(x, am, n) for am in amembers])
        mem_b = z3.Or(*[_mem(y, bm_, n) for bm_ in bmembers]) if bmembers else (y == kint)

        def build(amembers=amembers, bmembers=bmembers, pre=pre, B1=B1):
            E.FORMAT_MODE[0] = "concretize"
            vsaglue.reset_calls()
            try:
                E.ENG.assume(z3.And(*pre))
                a = DSIS(bits=n, si_set={_mkSI(SI, n, m) for m in amembers})
                if rhs == "dsis":
                    b = DSIS(bits=n, si_set={_mkSI(SI, n, m) for m in bmembers})
                elif bmembers:
                    b = _mkSI(SI, n, bmembers[0])
                else:
                    b = E.SInt.unsigned(kint)
                if kind == "bin":
                    return getattr(a, DSIS_BIN[op][0])(b)
                if kind == "cmp":
                    return getattr(a, DSIS_CMP[op][0])(b)
                if kind == "un":
                    return getattr(a, DSIS_UN[op][0])()
                if kind == "ext":
                    if op == "zext":
                        return a.zero_extend(n + params["k"])
                    if op == "sext":
                        return a.sign_extend(n + params["k"])
                    return a.extract(params["hi"], params["lo"])
                if kind == "set":
                    if op == "union":
                        return a.union(DSIS(bits=n, si_set={b, _mkSI(SI, n, list(pool[2]))}))
                    if op == "union_si":
                        return a.union(b)
                    if op == "intersection":
                        return a.intersection(DSIS(bits=n, si_set={b, _mkSI(SI, n, list(pool[2]))}))
                    if op == "intersection_si":
                        return a.intersection(b)
                    return a.widen(b)
                if op == "eval":
                    return a.eval((1 << n) + 1)
                if op in ("eval2", "eval3"):
                    return a.eval(int(op[4:]))
                if op == "cardinality":
                    return a.cardinality
                if op == "minmax":
                    return (a.min(), a.max())
                if op == "collapse":
                    return a.collapse()
                raise ValueError(op)
            finally:
                E.FORMAT_MODE[0] = "opaque"

        def check(path, s, out, mem_a=mem_a, mem_b=mem_b, coarse=coarse, bmembers=bmembers):
            key = "inherits" if coarse else "lift"
            return [_with_classify(f) for f in _check(path, s, out, mem_a, mem_b, key, bmembers)]

        def _check(path, s, out, mem_a, mem_b, key, bmembers):
            if path.kind == "exc":
                ex = path.result
                if isinstance(ex, ZeroDivisionError) and op in ("udiv", "mod", "rudiv", "rmod"):
                    return []
                return [Fail("exception", f"{op} raised {type(ex).__name__}: {str(ex)[:160]}", None, known_key="exc:" + type(ex).__name__)]
            r = out
            if kind == "bin":
                z = DSIS_BIN[op][1](x, y)
                extra = []
                if op in ("udiv", "mod"):
                    extra.append(y != 0)
                if op in ("rudiv", "rmod"):
                    extra.append(x != 0)
                ni = vsaglue.not_in(r, z)
                if isinstance(ni, str):
                    return [Fail("structure", f"{op}: {ni}", None, known_key=key)]
                return [Fail("containment", f"DSIS {op} ({params.get('rhs')}): the result {r!r:.100} misses a concrete result", z3.And(mem_a, mem_b, ni, *extra), known_key=key)]
            if kind == "cmp":
                ni = vsaglue.not_in(r, DSIS_CMP[op][1](x, y))
                if isinstance(ni, str):
                    return [Fail("structure", f"{op}: {ni}", None, known_key=key)]
                return [Fail("containment", f"DSIS {op} ({params.get('rhs')}): answer {getattr(r, 'value', r)} misses a truth value that occurs", z3.And(mem_a, mem_b, ni), known_key=key)]
            if kind == "un":
                ni = vsaglue.not_in(r, DSIS_UN[op][1](x))
                if isinstance(ni, str):
                    return [Fail("structure", f"{op}: {ni}", None, known_key=key)]
                return [Fail("containment", f"DSIS {op}: the result {r!r:.100} misses a concrete result", z3.And(mem_a, ni), known_key=key)]
            if kind == "ext":
                z = z3.ZeroExt(params["k"], x) if op == "zext" else z3.SignExt(params["k"], x) if op == "sext" else z3.Extract(params["hi"], params["lo"], x)
                ni = vsaglue.not_in(r, z)
                if isinstance(ni, str):
                    return [Fail("structure", f"{op}: {ni}", None, known_key=key)]
                return [Fail("containment", f"DSIS {op}: the result {r!r:.100} misses a concrete result", z3.And(mem_a, ni), known_key=key)]
            if kind == "set":
                mb = mem_b
                if op in ("union", "intersection"):
                    mb = z3.Or(mem_b, _mem(y, list(pool[2]), n))
                if op in ("union", "union_si", "widen"):
                    nx, ny = vsaglue.not_in(r, x), vsaglue.not_in(r, y)
                    if isinstance(nx, str):
                        return [Fail("structure", f"{op}: {nx}", None, known_key=key)]
                    return [Fail("containment", f"DSIS {op}: the result {r!r:.100} misses a member of an operand", z3.Or(z3.And(mem_a, nx), z3.And(mb, ny)), known_key=key)]
                nx = vsaglue.not_in(r, x)
                if isinstance(nx, str):
                    return [Fail("structure", f"{op}: {nx}", None, known_key=key)]
                both = z3.And(mem_a, z3.substitute(mb, (y, x)))
                return [Fail("containment", f"DSIS {op}: the result {r!r:.100} misses a common member", z3.And(both, nx), known_key=key)]
            # queries
            if op == "eval":
                vals = [vsaglue.low(v, n) for v in r]
                fails = [Fail("eval-nonmember", f"DSIS.eval returned a non-member: {r!r:.100}", z3.Or(*[z3.Not(z3.substitute(mem_a, (x, v))) for v in vals]) if vals else z3.BoolVal(False))]
                fails.append(Fail("eval-missing", f"DSIS.eval(2^n+1) = {r!r:.100} misses a member", z3.And(mem_a, *[x != v for v in vals])))
                return fails
            if op in ("eval2", "eval3"):
                # eval(k) for a small k: only members, pairwise distinct, at most k, and fewer than k only when there are no more
                k = int(op[4:])
                vals = [vsaglue.low(v, n) for v in r]
                fails = [Fail("eval-nonmember", f"DSIS.eval({k}) returned a non-member: {r!r:.100}", z3.Or(*[z3.Not(z3.substitute(mem_a, (x, v))) for v in vals]) if vals else z3.BoolVal(False))]
                if len(vals) > k:
                    fails.append(Fail("eval-count", f"DSIS.eval({k}) returned {len(vals)} values"))
                if len(vals) >= 2:
                    fails.append(Fail("eval-duplicate", f"DSIS.eval({k}) = {r!r:.100} lists a value twice", z3.Or(*[vals[i] == vals[j] for i in range(len(vals)) for j in range(i + 1, len(vals))])))
                if len(vals) < k:
                    fails.append(Fail("eval-short", f"DSIS.eval({k}) = {r!r:.100} has fewer than {k} values although the set has another member", z3.And(mem_a, *[x != v for v in vals])))
                return fails
            if op == "cardinality":
                # documented as an over-approximation: at least 1 for a non-empty set, and >= the number of distinct members is
                # checked through "x, y distinct members => cardinality >= 2"
                t = E.term(r) if isinstance(r, int) else None
                if t is None:
                    return [Fail("structure", "cardinality is not an int")]
                return [Fail("cardinality", f"DSIS.cardinality = {r!r:.40} is below the number of members",
                             z3.Or(t < 1, z3.And(mem_a, z3.substitute(mem_a, (x, y)), x != y, t < 2)))]
            if op == "minmax":
                mn, mx = r
                tmn, tmx = vsaglue.low(mn, n), vsaglue.low(mx, n)
                return [Fail("minmax", f"DSIS.min/max = {mn!r:.30}/{mx!r:.30} but a member lies beyond or they are not members",
                             z3.Or(z3.And(mem_a, z3.Or(z3.ULT(x, tmn), z3.UGT(x, tmx))), z3.Not(z3.substitute(mem_a, (x, tmn))), z3.Not(z3.substitute(mem_a, (x, tmx)))),
                             known_key="minmax")]
            if op == "collapse":
                nx = vsaglue.not_in(r, x)
                return [Fail("containment", f"DSIS.collapse() = {r!r:.100} misses a member", z3.And(mem_a, nx), known_key=key)]
            return []

        def make_case(vals, f, a2=a2, b2=b2, A1=A1, B1=B1):
            return {"harness": "harness.p_c23", "cls": "dsis", "params": params, "a2": list(a2), "b2": list(b2) if b2 else None,
                    "A1c": None if z3.is_expr(A1[0]) else list(A1), "B1c": None if z3.is_expr(B1[0]) else list(B1),
                    "vals": vals, "obligation": oid, "fail_kind": f.kind, "detail": f.detail[:300]}

        r = symrun.run(oid, width=4 * n + 8, zconsts=zconsts, build=build, check=check, make_case=make_case,
                       max_paths=600 if tier == "quick" else 6000, known=known, sample={"obligation": oid}, reset=False)
        res_all = _merge(res_all, r)
        if r["status"] in ("violation", "error"):
            break
    return res_all


def _with_classify(f):
    """a failure is attributed to an interval-level finding iff a recorded StridedInterval call on the failing path had
    known-failing operands under the counterexample"""
    from pysym import engine as E

    def classify(m):
        def ev(v):
            if isinstance(v, E.SInt):
                return m.eval(E.term(v), model_completion=True).as_long()
            return int(v)

        return "inherits" if vsaglue.attribute(ev) else None

    if f.kind != "unknown" and f.classify is None:
        f.classify = classify
    return f


def _merge(acc, r):
    if acc is None:
        return r
    for k in ("paths", "queries", "validated", "ok_paths"):
        acc[k] = acc.get(k, 0) + r.get(k, 0)
    acc["inconclusive"] += r["inconclusive"]
    acc["known_hits"] += [h for h in r["known_hits"] if h not in acc["known_hits"]]
    if r["status"] in ("violation", "error"):
        acc["status"], acc["detail"], acc["cex"] = r["status"], r["detail"], r["cex"]
    elif r["status"] == "inconclusive" and acc["status"] == "holds":
        acc["status"], acc["detail"] = "inconclusive", r["detail"]
    return acc


# ---------------------------------------------------------------------------------------------------------
# value sets


REGIONS = ["global", "stack_1", "heap_0"]


def run_vs(oid, params, tier):
    from claripy.backends.backend_vsa.bool_result import BoolResult
    from claripy.backends.backend_vsa.strided_interval import StridedInterval as SI
    from claripy.backends.backend_vsa.valueset import ValueSet as VS
    from pysym import engine as E

    vsaglue.install()
    n, kind, op, regs = params["n"], params["kind"], params["op"], params["regs"]
    rhs = params.get("rhs")
    A1 = _sym("a1", n)
    B1 = _sym("b1", n)
    kint = z3.BitVec("k", n)
    x, y = z3.BitVec("x", n), z3.BitVec("y", n)
    zconsts = {str(t): t for t in (*A1, *B1, kint, x, y)}
    known = common.known_for(common.load_known("C23"), oid)
    pool = POOL[n]
    two_sided = rhs == "si" or kind == "set" or op in ("eq_si", "cmp")
    res_all = None
    for side in (("a", "b") if two_sided else ("a",)):
        r = _run_vs_side(oid, params, tier, side, A1 if side == "a" else list(pool[-1]), B1 if (side == "b" or not two_sided) else list(pool[0]),
                         kint, x, y, zconsts, known, two_sided)
        res_all = _merge(res_all, r)
        if r["status"] in ("violation", "error"):
            break
    return res_all


def _run_vs_side(oid, params, tier, side, A1, B1, kint, x, y, zconsts, known, two_sided):
    from claripy.backends.backend_vsa.bool_result import BoolResult
    from claripy.backends.backend_vsa.strided_interval import StridedInterval as SI
    from claripy.backends.backend_vsa.valueset import ValueSet as VS
    from pysym import engine as E

    n, kind, op, regs = params["n"], params["kind"], params["op"], params["regs"]
    rhs = params.get("rhs")
    pool = POOL[n]
    # operand a: region REGIONS[1] -> A1 [, "global" -> pool[0]];  VS operand b: REGIONS[1] -> B1 [, REGIONS[2] -> pool[1]]
    aregs = {REGIONS[1]: A1}
    if regs == 2:
        aregs["global"] = list(pool[0])
    bregs = {REGIONS[1]: B1}
    if regs == 2:
        bregs[REGIONS[2]] = list(pool[1])
    pre = [z3.BoolVal(True)]
    if z3.is_expr(A1[0]):
        pre.append(vsaglue.wellformed(*A1))
    if z3.is_expr(B1[0]):
        pre.append(vsaglue.wellformed(*B1))
    coarse = False
    base = {"bin": lambda: VS_BIN[op][2], "set": lambda: {"union": "union", "union_si": "union", "widen": "widen", "intersection": "intersection",
                                                         "intersection_si": "intersection", "sub_vs": "sub", "eq_vs": "eq", "identical": None, "identical_sub": None}[op],
            "query": lambda: {"eq_si": "eq", "extract": None, "eval": None, "minmax": None, "cardinality": None, "cmp": None}[op]}[kind]()
    other = B1 if (rhs == "si" or kind in ("set", "query")) else [0, kint, kint]
    if base is not None:
        for am in aregs.values():
            f, c = excl_pair(base, n, am, other)
            pre.append(f)
            coarse = coarse or c
        f, c = excl_pair("union", n, A1, list(pool[0]))
        pre.append(f)

    def mk_vs(regmap):
        v = VS(bits=n)
        for reg, P in regmap.items():
            v._set_si(reg, 0, _mkSI(SI, n, P))
        return v

    def build():
        E.FORMAT_MODE[0] = "concretize"
        vsaglue.reset_calls()
        try:
            E.ENG.assume(z3.And(*pre))
            a = mk_vs(aregs)
            if kind == "bin":
                b = _mkSI(SI, n, B1) if rhs == "si" else E.SInt.unsigned(kint)
                return getattr(a, VS_BIN[op][0])(b)
            if kind == "set":
                if op in ("union_si", "intersection_si"):
                    return getattr(a, op.split("_")[0])(_mkSI(SI, n, B1))
                b = mk_vs(bregs)
                if op == "sub_vs":
                    return a.__sub__(mk_vs({r: (B1 if r == REGIONS[1] else list(pool[1])) for r in aregs}))
                if op == "eq_vs":
                    return a == b
                if op == "identical":
                    return (a.identical(b), b.identical(a), a.identical(mk_vs(aregs)))
                if op == "identical_sub":
                    bigger = dict(aregs)
                    bigger[REGIONS[2]] = list(pool[1])
                    return (a.identical(mk_vs(bigger)), mk_vs(bigger).identical(a))
                return getattr(a, op)(b)
            if op == "eval":
                return a.eval((1 << n) * 2 + 1)
            if op == "minmax":
                try:
                    return (a.min(), a.max())
                except Exception as e:  # noqa: BLE001
                    return ("raised", type(e).__name__)
            if op == "cardinality":
                return a.cardinality
            if op == "extract":
                return a.extract(n - 1, 0) if n == 1 else (a.extract(n - 2, 0), a.extract(n - 1, 0))
            if op == "eq_si":
                return (a == _mkSI(SI, n, B1), a != _mkSI(SI, n, B1))
            if op == "cmp":
                b = _mkSI(SI, n, B1)
                return [getattr(a, m)(b) for m in ("ULE", "ULT", "UGT", "UGE", "SLT", "SGT", "SLE", "SGE")]
            raise ValueError(op)
        finally:
            E.FORMAT_MODE[0] = "opaque"

    def region_contains(r, reg, z, cond, key, what):
        """Fail if (cond and z not in gamma(r at region reg)) is satisfiable; r is a ValueSet or a StridedInterval"""
        if isinstance(r, VS):
            si = r.regions.get(reg)
            if si is None:
                return Fail("region-missing", f"{what}: the result has no region {reg}", cond, known_key=key)
            ni = vsaglue.not_in(si, z)
        else:
            ni = vsaglue.not_in(r, z)
        if isinstance(ni, str):
            return Fail("structure", f"{what}: {ni}", None, known_key=key)
        return Fail("containment", f"{what}: region {reg} of the result {r!r:.100} misses a concrete result", z3.And(cond, ni), known_key=key)

    def check(path, s, out):
        return [_with_classify(f) for f in _check(path, s, out) or []]

    def _check(path, s, out):
        key = "inherits" if coarse else "lift"
        if path.kind == "exc":
            ex = path.result
            if isinstance(ex, ZeroDivisionError) and op == "mod":
                return []
            if isinstance(ex, NotImplementedError):
                return []
            return [Fail("exception", f"ValueSet {op} raised {type(ex).__name__}: {str(ex)[:160]}", None, known_key="exc:" + type(ex).__name__)]
        r = out
        fails = []
        if kind == "bin":
            memb = _mem(y, B1, n) if rhs == "si" else (y == kint)
            zf = VS_BIN[op][1]
            extra = [y != 0] if op == "mod" else []
            for reg, P in aregs.items():
                fails.append(region_contains(r, reg, zf(x, y), z3.And(_mem(x, P, n), memb, *extra), key, f"ValueSet {op}"))
            return fails
        if kind == "set":
            if op in ("union", "widen"):
                for reg, P in aregs.items():
                    fails.append(region_contains(r, reg, x, _mem(x, P, n), key, f"ValueSet {op} (left operand)"))
                for reg, P in bregs.items():
                    fails.append(region_contains(r, reg, y, _mem(y, P, n), key, f"ValueSet {op} (right operand)"))
                return fails
            if op == "union_si":
                for reg, P in aregs.items():
                    fails.append(region_contains(r, reg, x, z3.Or(_mem(x, P, n), _mem(x, B1, n)), key, "ValueSet union with an interval"))
                return fails
            if op == "intersection":
                for reg, P in aregs.items():
                    if reg in bregs:
                        fails.append(region_contains(r, reg, x, z3.And(_mem(x, P, n), _mem(x, bregs[reg], n)), key, "ValueSet intersection"))
                return fails
            if op == "intersection_si":
                for reg, P in aregs.items():
                    fails.append(region_contains(r, reg, x, z3.And(_mem(x, P, n), _mem(x, B1, n)), key, "ValueSet intersection with an interval"))
                return fails
            if op == "sub_vs":
                for reg, P in aregs.items():
                    Pb = B1 if reg == REGIONS[1] else list(pool[1])
                    ni = vsaglue.not_in(r, x - y)
                    if isinstance(ni, str):
                        return [Fail("structure", f"ValueSet - ValueSet: {ni}", None, known_key=key)]
                    fails.append(Fail("containment", f"ValueSet - ValueSet = {r!r:.100} misses a difference of two offsets of region {reg}",
                                      z3.And(_mem(x, P, n), _mem(y, Pb, n), ni), known_key=key))
                return fails
            if op == "eq_vs":
                # same region and same offset possible => True must be among the answers; different (region, offset) pairs possible => False
                same = z3.And(_mem(x, A1, n), _mem(x, B1, n))
                ht, hf = BoolResult.has_true(r), BoolResult.has_false(r)
                if not ht:
                    fails.append(Fail("eq", "ValueSet == ValueSet answers without True although a common (region, offset) exists", same, known_key=key))
                if not hf:
                    diff = z3.And(_mem(x, A1, n), _mem(y, B1, n), x != y) if regs == 1 else z3.BoolVal(True)
                    fails.append(Fail("eq", "ValueSet == ValueSet answers without False although two different (region, offset) pairs exist", diff, known_key=key))
                return fails
            if op == "identical_sub":
                if r[0] or r[1]:
                    return [Fail("identical", f"identical() is True ({r}) between a value set and one with an additional non-empty region", None, known_key="identical")]
                return []
            if op == "identical":
                ab, ba, aa = r
                if not aa:
                    fails.append(Fail("identical", "a ValueSet is not identical to a copy built from the same intervals"))
                if ab != ba:
                    fails.append(Fail("identical", f"identical() is not symmetric: {ab} vs {ba}", None, known_key="identical-asym"))
                if ab:
                    # identical => same (region, offset) sets: a member of a region of a that is not in b's
                    fails.append(Fail("identical", "identical() is True although the two value sets differ",
                                      z3.Or(z3.BoolVal(set(aregs) != set(bregs)), z3.And(_mem(x, A1, n), z3.Not(_mem(x, B1, n))),
                                            z3.And(_mem(x, B1, n), z3.Not(_mem(x, A1, n)))), known_key="identical"))
                return fails
        # queries
        if op == "eval":
            vals = [vsaglue.low(v, n) for v in r]
            anymem = lambda t: z3.Or(*[_mem(t, P, n) for P in aregs.values()])  # noqa: E731
            fails.append(Fail("eval-nonmember", f"ValueSet.eval returned a non-member: {r!r:.100}", z3.Or(*[z3.Not(anymem(v)) for v in vals]) if vals else z3.BoolVal(False)))
            fails.append(Fail("eval-missing", f"ValueSet.eval(all) = {r!r:.100} misses an offset", z3.And(anymem(x), *[x != v for v in vals])))
            return fails
        if op == "minmax":
            if r[0] == "raised":
                return [] if regs != 1 else [Fail("minmax", f"min/max raised {r[1]} on a single-region value set")]
            tmn, tmx = vsaglue.low(r[0], n), vsaglue.low(r[1], n)
            return [Fail("minmax", "ValueSet.min/max are not the least/greatest offset",
                         z3.Or(z3.And(_mem(x, A1, n), z3.Or(z3.ULT(x, tmn), z3.UGT(x, tmx))), z3.Not(_mem(tmn, A1, n)), z3.Not(_mem(tmx, A1, n))), known_key="minmax")]
        if op == "cardinality":
            t = E.term(r) if isinstance(r, int) else None
            if t is None:
                return [Fail("structure", "cardinality is not an int")]
            return [Fail("cardinality", "ValueSet.cardinality is below the number of (region, offset) pairs",
                         z3.Or(t < regs, z3.And(_mem(x, A1, n), _mem(y, A1, n), x != y, t < regs + 1)))]
        if op == "extract":
            lowpart, full = r if isinstance(r, tuple) else (None, r)
            for reg, P in aregs.items():
                fails.append(region_contains(full, reg, x, _mem(x, P, n), key, "ValueSet.extract(full width)"))
                if lowpart is not None:
                    ni = vsaglue.not_in(lowpart, z3.Extract(n - 2, 0, x))
                    if isinstance(ni, str):
                        fails.append(Fail("structure", f"extract: {ni}"))
                    else:
                        fails.append(Fail("containment", f"ValueSet.extract(n-2, 0) = {lowpart!r:.80} misses the low bits of an offset", z3.And(_mem(x, P, n), ni), known_key=key))
            return fails
        if op == "eq_si":
            eq, ne = r
            # a value-set member in the global region can equal an interval member; other regions are pointers (never equal an integer)
            if "global" in aregs:
                Pg = aregs["global"]
                c_eq = z3.And(_mem(x, Pg, n), _mem(x, B1, n))
                c_ne = z3.And(_mem(x, Pg, n), _mem(y, B1, n), x != y)
                if not BoolResult.has_true(eq):
                    fails.append(Fail("eq", "ValueSet == interval lacks True although a global offset equals a member", c_eq, known_key=key))
                if not BoolResult.has_false(ne):
                    fails.append(Fail("eq", "ValueSet != interval lacks False although a global offset equals a member", c_eq, known_key=key))
                if not BoolResult.has_false(eq):
                    fails.append(Fail("eq", "ValueSet == interval lacks False although they can differ", c_ne, known_key=key))
            return fails
        if op == "cmp":
            for b in r:
                if not (BoolResult.has_true(b) and BoolResult.has_false(b)):
                    fails.append(Fail("cmp", "an ordered comparison of a ValueSet is not Maybe"))
            return fails
        return []

    def make_case(vals, f):
        return {"harness": "harness.p_c23", "cls": "vs", "params": params, "vals": vals, "obligation": oid, "fail_kind": f.kind, "detail": f.detail[:300],
                "A1c": None if z3.is_expr(A1[0]) else list(A1), "B1c": None if z3.is_expr(B1[0]) else list(B1)}

    return symrun.run(oid, width=4 * n + 8, zconsts=zconsts, build=build, check=check, make_case=make_case,
                      max_paths=600 if tier == "quick" else 6000, known=known, sample={"obligation": oid}, reset=False)


# ---------------------------------------------------------------------------------------------------------
# native replay: the same obligation with every symbolic parameter pinned to the counterexample's value; the exploration then
# has a single path and the checker's formulas range only over the concrete members (decided by Z3 on ground terms = evaluation)


def replay(case):
    params = dict(case["params"])
    vals = case["vals"]
    pin = {k: int(v) for k, v in vals.items() if k not in ("x", "y") and not isinstance(v, bool)}
    return _replay_pinned(case, pin)


def _replay_pinned(case, pin):
    """runs the real methods on plain ints (no shadows) and checks containment by enumeration"""
    from claripy.backends.backend_vsa.bool_result import BoolResult
    from claripy.backends.backend_vsa.discrete_strided_interval_set import DiscreteStridedIntervalSet as DSIS
    from claripy.backends.backend_vsa.strided_interval import StridedInterval as SI
    from claripy.backends.backend_vsa.valueset import ValueSet as VS

    params = case["params"]
    n, kind, op = params["n"], params["kind"], params["op"]
    rhs = params.get("rhs")
    mask = (1 << n) - 1
    A1 = case.get("A1c") or [pin.get(f"a1_{f}", 0) for f in ("s", "lb", "ub")]
    B1 = case.get("B1c") or [pin.get(f"b1_{f}", 0) for f in ("s", "lb", "ub")]
    k = pin.get("k", 0)
    pool = POOL[n]
    mk = lambda P: SI(bits=n, stride=P[0], lower_bound=P[1], upper_bound=P[2])  # noqa: E731
    mem = lambda P: p_vsa.py_members(n, *P)  # noqa: E731

    def zv(t):
        t = z3.simplify(t)
        return z3.is_true(t) if z3.is_bool(t) else t.as_long()

    X = lambda v, w=n: z3.BitVecVal(v, w)  # noqa: E731
    desc = f"{case['obligation']} a1={A1} b1={B1} k={k} a2={case.get('a2')} b2={case.get('b2')}"
    try:
        if case["cls"] == "dsis":
            amembers = [A1, case["a2"]]
            a = DSIS(bits=n, si_set={mk(m) for m in amembers})
            ma = set().union(*[mem(m) for m in amembers])
            if rhs == "dsis":
                bm = [B1, case["b2"]]
                b = DSIS(bits=n, si_set={mk(m) for m in bm})
                mb = set().union(*[mem(m) for m in bm])
            elif rhs == "si" or kind == "set":
                b = mk(B1)
                mb = mem(B1)
            else:
                b = k
                mb = {k & mask}
            if kind == "bin":
                r = getattr(a, DSIS_BIN[op][0])(b)
                for xv in ma:
                    for yv in mb:
                        if op in ("udiv", "mod") and yv == 0 or op in ("rudiv", "rmod") and xv == 0:
                            continue
                        z = zv(DSIS_BIN[op][1](X(xv), X(yv)))
                        if not vsaglue.py_covers(r, z):
                            return {"violated": True, "detail": f"{op}({xv},{yv}) = {z} is not in {r!r}; {desc}"}
                return {"violated": False, "detail": f"contained in {r!r}; {desc}"}
            if kind == "cmp":
                r = getattr(a, DSIS_CMP[op][0])(b)
                for xv in ma:
                    for yv in mb:
                        z = zv(DSIS_CMP[op][1](X(xv), X(yv)))
                        if not vsaglue.py_covers(r, z):
                            return {"violated": True, "detail": f"{op}({xv},{yv}) = {z} but the answer is {getattr(r, 'value', r)}; {desc}"}
                return {"violated": False, "detail": f"answers cover all truth values; {desc}"}
            if kind == "un":
                r = getattr(a, DSIS_UN[op][0])()
                for xv in ma:
                    z = zv(DSIS_UN[op][1](X(xv)))
                    if not vsaglue.py_covers(r, z):
                        return {"violated": True, "detail": f"{op}({xv}) = {z} is not in {r!r}; {desc}"}
                return {"violated": False, "detail": f"contained in {r!r}; {desc}"}
            if kind == "ext":
                if op == "zext":
                    r = a.zero_extend(n + params["k"])
                    f = lambda v: v  # noqa: E731
                elif op == "sext":
                    r = a.sign_extend(n + params["k"])
                    f = lambda v: zv(z3.SignExt(params["k"], X(v)))  # noqa: E731
                else:
                    r = a.extract(params["hi"], params["lo"])
                    f = lambda v: zv(z3.Extract(params["hi"], params["lo"], X(v)))  # noqa: E731
                for xv in ma:
                    if not vsaglue.py_covers(r, f(xv)):
                        return {"violated": True, "detail": f"{op}({xv}) = {f(xv)} is not in {r!r}; {desc}"}
                return {"violated": False, "detail": f"contained in {r!r}; {desc}"}
            if kind == "set":
                extra = mk(list(pool[2]))
                if op == "union":
                    r = a.union(DSIS(bits=n, si_set={b, extra}))
                    need = ma | mb | mem(list(pool[2]))
                elif op == "union_si":
                    r = a.union(b)
                    need = ma | mb
                elif op == "intersection":
                    r = a.intersection(DSIS(bits=n, si_set={b, extra}))
                    need = ma & (mb | mem(list(pool[2])))
                elif op == "intersection_si":
                    r = a.intersection(b)
                    need = ma & mb
                else:
                    r = a.widen(b)
                    need = ma | mb
                miss = [v for v in sorted(need) if not vsaglue.py_covers(r, v)]
                return {"violated": bool(miss), "detail": f"{op} = {r!r} misses {miss[:5]}; {desc}"}
            if op == "eval":
                r = a.eval((1 << n) + 1)
                got = {v & mask for v in r}
                return {"violated": got != ma, "detail": f"eval = {r} members = {sorted(ma)}; {desc}"}
            if op in ("eval2", "eval3"):
                k = int(op[4:])
                r = a.eval(k)
                got = [v & mask for v in r]
                bad = (not set(got) <= ma) or len(set(got)) != len(got) or len(got) != min(k, len(ma))
                return {"violated": bad, "detail": f"eval({k}) = {r} members = {sorted(ma)}; {desc}"}
            if op == "cardinality":
                return {"violated": a.cardinality < len(ma), "detail": f"cardinality {a.cardinality} < {len(ma)} members; {desc}"}
            if op == "minmax":
                mn, mx = a.min(), a.max()
                return {"violated": (mn & mask, mx & mask) != (min(ma), max(ma)), "detail": f"min/max = {mn}/{mx}, members {sorted(ma)}; {desc}"}
            if op == "collapse":
                r = a.collapse()
                miss = [v for v in sorted(ma) if not vsaglue.py_covers(r, v)]
                return {"violated": bool(miss), "detail": f"collapse = {r!r} misses {miss}; {desc}"}
        else:
            regs = params["regs"]
            aregs = {REGIONS[1]: A1}
            if regs == 2:
                aregs["global"] = list(pool[0])
            bregs = {REGIONS[1]: B1}
            if regs == 2:
                bregs[REGIONS[2]] = list(pool[1])

            def mk_vs(regmap):
                v = VS(bits=n)
                for reg, P in regmap.items():
                    v._set_si(reg, 0, mk(P))
                return v

            a = mk_vs(aregs)

            def rcovers(r, reg, v):
                if isinstance(r, VS):
                    si = r.regions.get(reg)
                    return si is not None and vsaglue.py_covers(si, v)
                return vsaglue.py_covers(r, v)

            if kind == "bin":
                b = mk(B1) if rhs == "si" else k
                mb = mem(B1) if rhs == "si" else {k & mask}
                r = getattr(a, VS_BIN[op][0])(b)
                for reg, P in aregs.items():
                    for xv in mem(P):
                        for yv in mb:
                            if op == "mod" and yv == 0:
                                continue
                            z = zv(VS_BIN[op][1](X(xv), X(yv)))
                            if not rcovers(r, reg, z):
                                return {"violated": True, "detail": f"region {reg}: {op}({xv},{yv}) = {z} is not in {r!r}; {desc}"}
                return {"violated": False, "detail": f"contained in {r!r}; {desc}"}
            if kind == "set":
                if op in ("union", "widen", "intersection"):
                    b = mk_vs(bregs)
                    r = getattr(a, op)(b)
                    for reg in set(aregs) | set(bregs):
                        ma_ = mem(aregs[reg]) if reg in aregs else set()
                        mb_ = mem(bregs[reg]) if reg in bregs else set()
                        need = (ma_ & mb_) if op == "intersection" else (ma_ | mb_)
                        miss = [v for v in sorted(need) if not rcovers(r, reg, v)]
                        if miss:
                            return {"violated": True, "detail": f"{op}: region {reg} of {r!r} misses {miss[:5]}; {desc}"}
                    return {"violated": False, "detail": f"{op} contained; {desc}"}
                if op in ("union_si", "intersection_si"):
                    r = getattr(a, op.split("_")[0])(mk(B1))
                    for reg, P in aregs.items():
                        need = (mem(P) | mem(B1)) if op == "union_si" else (mem(P) & mem(B1))
                        miss = [v for v in sorted(need) if not rcovers(r, reg, v)]
                        if miss:
                            return {"violated": True, "detail": f"{op}: region {reg} of {r!r} misses {miss[:5]}; {desc}"}
                    return {"violated": False, "detail": f"{op} contained; {desc}"}
                if op == "sub_vs":
                    bm = {r_: (B1 if r_ == REGIONS[1] else list(pool[1])) for r_ in aregs}
                    r = a - mk_vs(bm)
                    for reg, P in aregs.items():
                        for xv in mem(P):
                            for yv in mem(bm[reg]):
                                if not vsaglue.py_covers(r, (xv - yv) & mask):
                                    return {"violated": True, "detail": f"region {reg}: {xv} - {yv} is not in {r!r}; {desc}"}
                    return {"violated": False, "detail": f"differences contained in {r!r}; {desc}"}
                if op == "eq_vs":
                    r = a == mk_vs(bregs)
                    common_ = mem(A1) & mem(B1)
                    differ = regs == 2 or len(mem(A1) | mem(B1)) > 1
                    bad = (common_ and not BoolResult.has_true(r)) or (differ and not BoolResult.has_false(r))
                    return {"violated": bool(bad), "detail": f"== answers {getattr(r, 'value', r)}; common offsets {sorted(common_)}; {desc}"}
                if op == "identical_sub":
                    bigger = dict(aregs)
                    bigger[REGIONS[2]] = list(pool[1])
                    r = (a.identical(mk_vs(bigger)), mk_vs(bigger).identical(a))
                    return {"violated": bool(r[0] or r[1]), "detail": f"identical with an extra region: {r}; {desc}"}
                if op == "identical":
                    b = mk_vs(bregs)
                    ab, ba, aa = a.identical(b), b.identical(a), a.identical(mk_vs(aregs))
                    same = set(aregs) == set(bregs) and all(mem(aregs[r_]) == mem(bregs[r_]) for r_ in aregs)
                    bad = (not aa) or (ab != ba) or (ab and not same)
                    return {"violated": bool(bad), "detail": f"identical: a~b {ab}, b~a {ba}, a~a {aa}; really same: {same}; {desc}"}
            allm = set().union(*[mem(P) for P in aregs.values()])
            if op == "eval":
                r = a.eval((1 << n) * 2 + 1)
                return {"violated": {v & mask for v in r} != allm, "detail": f"eval = {r}; offsets {sorted(allm)}; {desc}"}
            if op == "minmax":
                if regs != 1:
                    return {"violated": False, "detail": "multi-region min/max is undefined"}
                return {"violated": (a.min() & mask, a.max() & mask) != (min(mem(A1)), max(mem(A1))), "detail": f"min/max {a.min()}/{a.max()} offsets {sorted(mem(A1))}; {desc}"}
            if op == "cardinality":
                tot = sum(len(mem(P)) for P in aregs.values())
                return {"violated": a.cardinality < tot, "detail": f"cardinality {a.cardinality} < {tot}; {desc}"}
            if op == "extract":
                full = a.extract(n - 1, 0)
                for reg, P in aregs.items():
                    for xv in mem(P):
                        if not rcovers(full, reg, xv):
                            return {"violated": True, "detail": f"extract(full) {full!r} misses {xv} of region {reg}; {desc}"}
                        if n > 1 and not vsaglue.py_covers(a.extract(n - 2, 0), xv & (mask >> 1)):
                            return {"violated": True, "detail": f"extract(n-2,0) {a.extract(n - 2, 0)!r} misses low bits of {xv}; {desc}"}
                return {"violated": False, "detail": "extract contained; " + desc}
            if op == "eq_si":
                eq, ne = a == mk(B1), a != mk(B1)
                if "global" in aregs:
                    g = mem(aregs["global"])
                    cm = g & mem(B1)
                    bad = (cm and (not BoolResult.has_true(eq) or not BoolResult.has_false(ne))) or (len(g | mem(B1)) > 1 and not BoolResult.has_false(eq))
                    return {"violated": bool(bad), "detail": f"== {getattr(eq, 'value', eq)} != {getattr(ne, 'value', ne)}; global offsets {sorted(g)}; {desc}"}
                return {"violated": False, "detail": "no global region"}
            if op == "cmp":
                b = mk(B1)
                rs = [getattr(a, m)(b) for m in ("ULE", "ULT", "UGT", "UGE", "SLT", "SGT", "SLE", "SGE")]
                return {"violated": not all(BoolResult.has_true(q) and BoolResult.has_false(q) for q in rs), "detail": "ordered comparisons; " + desc}
    except ZeroDivisionError:
        return {"violated": False, "detail": "division by zero (exempt); " + desc}
    except NotImplementedError:
        return {"violated": False, "detail": "NotImplementedError (declared unsupported); " + desc}
    except Exception as e:  # noqa: BLE001
        return {"violated": True, "detail": f"raised {type(e).__name__}: {str(e)[:200]}; {desc}"}
    return {"violated": False, "detail": "?; " + desc}


FUNCTIONS = [
    "claripy.backends.backend_vsa.discrete_strided_interval_set.DiscreteStridedIntervalSet (apply_on_each_si, convert_operand_to_si, collapse_operand, "
    "all operators, extract, eval, union/intersection/widen, collapse, normalize, _update_bounds)",
    "claripy.backends.backend_vsa.valueset.ValueSet (_set_si/_merge_si, __add__/__sub__/__mod__/__and__/LShR/concat, ==/!=, eval/min/max/cardinality, "
    "extract, union/widen/intersection, identical)", "claripy.backends.backend_vsa.strided_interval.StridedInterval (member operations as called)",
]


def check(prop, tier, cap, only=None, procs=None, list_only=False, t0=None):
    obs = obligations(tier)
    if only:
        obs = [o for o in obs if fnmatch.fnmatchcase(o[0], only)]
    if list_only:
        for o, _ in obs:
            print(o)
        return 0
    results = common.run_pool("harness.p_c23", obs, tier, cap, procs=procs)
    quick = tier == "quick"
    return common.finish(
        prop, tier, "other", results, t0, functions=FUNCTIONS,
        bounds={"widths": [2] if quick else [2, 3], "sets": "discrete sets of 2 member intervals (one symbolic, one from a concrete pool of 2); value sets of 1-2 "
                "regions (one symbolic interval, one concrete) from a pool of 3 region names; right operands: symbolic interval, 2-member set, symbolic integer",
                "collapse_threshold": "default (256): no collapsing at these widths except where the code collapses explicitly",
                "path_budget": 600 if quick else 6000,
                "outside": "more members / regions, wider intervals, max_cardinality thresholds other than the default, reversed value sets"},
        assumptions=["member intervals are well-formed; operand pairs listed in C21/C22's exact tables of known-failing interval operands are excluded by "
                     "assumption (the lifting is the subject here); where no exact table exists at the width the C21 finding is inherited as a whole",
                     "division / remainder: zero divisors exempt", "gamma as in C21; a value set denotes the set of (region, offset) pairs",
                     "shims: " + "; ".join(vsaglue.SHIMS)],
        rule="one obligation = one operation of DiscreteStridedIntervalSet / ValueSet at one width and operand kind; the real methods run on symbolic "
             "interval parameters, every path is explored, Z3 decides per-member / per-region containment for all parameters and members",
        trusted_base=["z3 4.13.0", "pysym operator models", "gamma formula", "shims listed in assumptions", "C21/C22 known-failing operand tables (exclusions)"],
    )
