"""C08: substitution, canonicalisation and ITE utilities preserve meaning.

Every utility runs on expressions built with symbolic constants (pysym); per explored path Z3 decides, for all
constants on that path and all variable assignments, that the utility's output equals its specification, which is
built independently as a Z3 term:

  replace / replace_dict     z3.substitute on the converted expression (variables: exact simultaneous substitution,
                             including swaps); for a non-leaf `old`: (old == new) => result == e, and `old` no longer
                             occurs in the result
  canonicalize               the returned map is injective, sort-preserving, onto fresh names; the canonical expression
                             with the map inverted equals the original
  excavate_ite / burrow_ite  equivalent to the written tree (also the second, cached, call)
  ite_cases / ite_dict       first-match semantics as nested z3.If;  reverse_ite_cases: exactly one condition holds and
                             its value is the value of the expression
  chop / get_bytes / get_byte   Extract specifications (byte and non-byte widths)
  identical(a, b)            an answer True implies equality up to a renaming of the variables
"""
from __future__ import annotations

import fnmatch
import itertools

import z3

from . import common, shapes, symrun
from .expr import BIN_BV, CMP, ClaripyInterp, Z3Interp, consts_of, is_leaf, show, vars_of, width_of
from .shapes import B, B2, C, L, X, Y, Z
from .symrun import Fail, equiv_fail


def _width_for(tree):
    from .astleg import _all_widths

    wmax = max(_all_widths(tree) + [8])
    return 2 * wmax + 8 if shapes.is_heavy(tree) else (max(2 * wmax + 8, 72) if wmax <= 32 else wmax + 16)


def _zconsts(trees):
    out = {}
    for t in trees:
        for i, w in consts_of(t):
            out[f"c{i}"] = z3.BitVec(f"c{i}", w)
    return out


def _mk_consts(tree_or_trees, zc):
    from pysym import glue

    trees = tree_or_trees if isinstance(tree_or_trees, tuple) else (tree_or_trees,)
    out = {}
    for t in trees:
        for i, w in consts_of(t):
            if i not in out:
                out[i] = glue.BVV(glue.mk(zc[f"c{i}"]), w)
    return out


def _native_consts(trees, vals):
    import claripy

    out = {}
    for t in trees:
        for i, w in consts_of(t):
            out[i] = claripy.BVV(int(vals[f"c{i}"]), w)
    return out


def _zi(vals=None, trees=()):
    if vals is None:
        return Z3Interp()
    cv = {}
    for t in trees:
        for i, w in consts_of(t):
            cv[i] = z3.BitVecVal(int(vals[f"c{i}"]), w)
    return Z3Interp(cv)


def conv(e):
    import claripy

    return claripy.backends.z3.convert(e)


# ---------------------------------------------------------------------------------------------------------
# shapes with If inside


def ite_shapes(n):
    x, y, z = X(n), Y(n), Z(n)
    c0, c1 = C(0, n), C(1, n)
    nb = ["Not", B]
    S = []
    ops = ["add", "sub", "and", "or", "xor", "shl", "lshr", "ashr", "eq", "ne", "ult", "sle", "sgt"]
    for op in ops:
        S.append((f"{op}-ifxc-y", [op, ["if", B, x, c0], y]))
        S.append((f"{op}-y-ifxc", [op, y, ["if", B, x, c0]]))
        S.append((f"{op}-ifxy-ifzc", [op, ["if", B, x, y], ["if", B, z, c0]]))
        S.append((f"{op}-ifxy-ifnot", [op, ["if", B, x, y], ["if", nb, z, c0]]))
        S.append((f"{op}-ifxy-ifb2", [op, ["if", B, x, y], ["if", B2, z, c0]]))
        S.append((f"{op}-ifcc-c", [op, ["if", B, c0, c1], C(2, n)]))
    S.append(("concat-if-y", ["concat", ["if", B, x, c0], y]))
    S.append(("concat-y-if-if", ["concat", y, ["if", B, x, c0], ["if", B, z, c1]]))
    S.append(("not-if", ["not", ["if", B, x, c0]]))
    S.append(("neg-if", ["neg", ["if", B, x, c0]]))
    if n >= 4:
        S.append(("extract-if", ["extract", n - 2, 1, ["if", B, x, c0]]))
    S.append(("zext-if", ["zext", 3, ["if", B, x, c0]]))
    S.append(("sext-if", ["sext", 3, ["if", B, x, c0]]))
    if n % 8 == 0:
        S.append(("reverse-if", ["reverse", ["if", B, x, c0]]))
    S.append(("if-b2-add-if", ["if", B2, ["add", ["if", B, x, c0], y], z]))
    S.append(("add-add-if-if", ["add", ["add", ["if", B, x, y], c0], ["if", B, z, c1]]))
    S.append(("if-cond-if", ["if", ["ult", ["if", B, x, y], c0], z, c1]))
    S.append(("and-bool-if", ["And", ["ult", ["if", B, x, c0], y], ["eq", ["if", B, y, z], c1]]))
    S.append(("not-bool-if", ["Not", ["eq", ["if", B, x, c0], y]]))
    S.append(("if-if-nested-same", ["add", ["if", B, ["if", B2, x, y], z], c0]))
    # burrow targets
    S.append(("bur-add-xy-xz", ["if", B, ["add", x, y], ["add", x, z]]))
    S.append(("bur-add-xc-xc", ["if", B, ["add", x, c0], ["add", x, c1]]))
    S.append(("bur-add-yx-zx", ["if", B, ["add", y, x], ["add", z, x]]))
    S.append(("bur-and-or", ["if", B, ["and", x, y], ["or", x, y]]))
    S.append(("bur-sub-xy-xz", ["if", B, ["sub", x, y], ["sub", x, z]]))
    S.append(("bur-shl-xy-zy", ["if", B, ["shl", x, y], ["shl", z, y]]))
    S.append(("bur-concat", ["if", B, ["concat", x, y], ["concat", x, z]]))
    S.append(("bur-if-if", ["if", B, ["if", B2, x, y], ["if", B2, x, z]]))
    S.append(("bur-nested", ["if", B, ["add", x, ["xor", y, z]], ["add", x, ["xor", y, c0]]]))
    S.append(("bur-bool-eq", ["if", B, ["eq", x, y], ["eq", x, z]]))
    S.append(("bur-bool-ult", ["if", B, ["ult", x, y], ["ult", z, y]]))
    S.append(("bur-both-differ", ["if", B, ["add", x, y], ["add", z, c0]]))
    S.append(("bur-not", ["if", B, ["not", ["add", x, y]], ["not", ["add", x, z]]]))
    if n >= 4:
        S.append(("bur-extract", ["if", B, ["extract", n - 2, 1, ["add", x, y]], ["extract", n - 2, 1, ["add", x, z]]]))
        S.append(("bur-extract-diffidx", ["if", B, ["extract", n - 2, 1, ["add", x, y]], ["extract", n - 1, 2, ["add", x, y]]]))
    S.append(("bur-outer-op", ["add", ["if", B, ["add", x, y], ["add", x, z]], c0]))
    # burrowing through width-changing / Boolean operations, with a compound condition
    cnd = ["ult", x, c0]
    S.append(("bur-concat-cond", ["if", cnd, ["concat", ["add", x, y], z], ["concat", ["add", x, z], z]]))
    S.append(("bur-concat-cond-2", ["if", cnd, ["concat", z, ["add", x, y]], ["concat", z, ["xor", x, y]]]))
    S.append(("bur-zext-cond", ["if", cnd, ["zext", 3, ["add", x, y]], ["zext", 3, ["add", x, z]]]))
    S.append(("bur-sext-cond", ["if", cnd, ["sext", 2, ["add", x, y]], ["sext", 2, ["add", x, z]]]))
    S.append(("bur-eq-cond", ["if", cnd, ["eq", ["add", x, y], z], ["eq", ["add", x, z], z]]))
    S.append(("bur-ult-cond", ["if", ["And", B, B2], ["ult", ["add", x, y], z], ["ult", ["xor", x, y], z]]))
    S.append(("bur-concat-outer", ["concat", ["if", cnd, ["concat", ["add", x, y], z], ["concat", ["add", x, z], z]], y]))
    return S


# ---------------------------------------------------------------------------------------------------------
# obligations


def obligations(tier):
    quick = tier == "quick"
    out = []
    widths = [8] if quick else [1, 4, 8, 32]
    for n in widths:
        pool = [(nm, t) for nm, t in list(shapes.seeds(n)) + list(shapes.grammar1(n)) if not is_leaf(t)]
        from .astleg import bad_rev

        pool = [(nm, t) for nm, t in pool if not bad_rev(t) and vars_of(t)]
        step = 3 if quick else 1
        for k, (nm, t) in enumerate(pool):
            if shapes.is_heavy(t) and n > 8:
                continue
            if k % step == 0:
                out.append((f"replace-var:{nm}:{n}", {"tree": t, "n": n}))
                out.append((f"canon:{nm}:{n}", {"tree": t, "n": n}))
            if k % step == 1 % step:
                out.append((f"replace-sub:{nm}:{n}", {"tree": t, "n": n}))
        for nm, t in ite_shapes(n):
            out.append((f"excavate:{nm}:{n}", {"tree": t, "n": n}))
            out.append((f"burrow:{nm}:{n}", {"tree": t, "n": n}))
        for k in range(0, 7):
            for style in ("eqc", "bools", "ultc", "mixed"):
                out.append((f"ite_cases:{style}:{k}:{n}", {"n": n, "k": k, "style": style}))
        for keys in ([], [0], [0, 1], [3, 1, 2], [0, 1, 2, 3], [5, 1, 200, 7, 0], [0, 255, 1, 254, 2, 253], list(range(9))):
            keys = [kk & ((1 << n) - 1) for kk in keys]
            if len(set(keys)) != len(keys):
                continue
            out.append((f"ite_dict:{'-'.join(map(str, keys)) or 'empty'}:{n}", {"n": n, "keys": keys}))
    for w in ([8, 12, 16, 24, 32, 64] if quick else [1, 7, 8, 9, 12, 16, 24, 31, 32, 33, 64, 128]):
        for nm, _ in _chop_exprs(w):
            out.append((f"chop:{w}:{nm}", {"w": w, "expr": nm}))
            out.append((f"get_bytes:{w}:{nm}", {"w": w, "expr": nm}))
    pairs = identical_pairs(8)
    for nm in pairs:
        out.append((f"identical:{nm}:8", {"n": 8, "name": nm}))
    return out


# ---------------------------------------------------------------------------------------------------------
# replace


def _sub_asts(e):
    """proper non-leaf sub-ASTs of e in a deterministic order"""
    import claripy

    out = []
    seen = set()
    stack = [a for a in e.args if isinstance(a, claripy.ast.Base)]
    while stack:
        a = stack.pop(0)
        if id(a) in seen:
            continue
        seen.add(id(a))
        if not a.is_leaf():
            out.append(a)
            stack.extend(x for x in a.args if isinstance(x, claripy.ast.Base))
    return out


def _occurs(e, target, stop):
    import claripy

    seen = set()
    stack = [e]
    while stack:
        a = stack.pop()
        if not isinstance(a, claripy.ast.Base) or id(a) in seen:
            continue
        seen.add(id(a))
        if a is stop:
            continue
        if a is target:
            return True
        stack.extend(a.args)
    return False


def _replace_var_build(tree, consts):
    """returns list of (label, e, result, pairs[(old,new)])"""
    import claripy

    e = ClaripyInterp(consts).ev(tree)
    if not isinstance(e, claripy.ast.Base):
        return []
    runs = []
    leaves = [v for v in e.leaf_asts() if v.op in ("BVS", "BoolS")]
    uniq = []
    for v in leaves:
        if all(v is not u for u in uniq):
            uniq.append(v)
    for v in uniq:
        if v.op == "BVS":
            w = claripy.BVS("w", v.length, explicit_name=True)
            news = [("fresh", w), ("expr", w + 1), ("self+1", v + 1)]
            news.append(("const", claripy.BVV(consts[min(consts)].args[0], v.length) if consts and consts[min(consts)].length == v.length else claripy.BVV(1, v.length)))
        else:
            w = claripy.BoolS("wb", explicit_name=True)
            news = [("fresh", w), ("expr", claripy.Not(w)), ("true", claripy.true())]
        for lab, new in news:
            r = claripy.replace(e, v, new)
            runs.append((f"{v.args[0]}->{lab}", e, r, [(v, new)]))
    # simultaneous swap / rotation through replace_dict
    bvs = [v for v in uniq if v.op == "BVS"]
    for a, b in itertools.combinations(bvs, 2):
        if a.length == b.length:
            r = claripy.replace_dict(e, {a.hash(): b, b.hash(): a})
            runs.append((f"swap-{a.args[0]}-{b.args[0]}", e, r, [(a, b), (b, a)]))
    if bvs:
        r = claripy.replace_dict(e, {}, leaf_operation=lambda l: (l + 1) if l.op == "BVS" else l)
        runs.append(("leafop+1", e, r, [(v, v + 1) for v in bvs]))
    return runs


def _replace_var_check(runs, s):
    fails = []
    if META[0]:
        for lab, e, r, pairs in runs:
            fails += meta_fails(r, lab)
        return fails[:1]
    for lab, e, r, pairs in runs:
        ze = conv(e)
        want = z3.substitute(ze, *[(conv(o), conv(n)) for o, n in pairs])
        f = equiv_fail(s, conv(r), want, "replace", f"[{lab}] replace on {e!r:.150} gave {r!r:.150}")
        if f:
            fails.append(f)
            break
        for o, n in pairs:
            if not (o.variables & n.variables) and len(pairs) == 1 and o.variables & r.variables:
                fails.append(Fail("replace-vars", f"[{lab}] replaced variable still in result.variables: {r!r:.150}"))
    return fails


def run_replace_var(oid, params, tier):
    tree = params["tree"]
    zc = _zconsts([tree])

    def build():
        return _replace_var_build(tree, _mk_consts(tree, zc))

    def check(path, s, out):
        if out is None:
            return []
        return _replace_var_check(out, s)

    return symrun.run(oid, width=_width_for(tree), zconsts=zc, build=build, check=check,
                      make_case=lambda vals, f: {"harness": "harness.p_c08", "kind": "replace-var", "tree": tree, "consts": vals,
                                                 "obligation": oid, "detail": f.detail[:300]},
                      max_paths=150 if tier == "quick" else 1500, known=common.known_for(common.load_known("C08"), oid),
                      sample={"obligation": oid, "tree": show(tree)})


def _replace_sub_build(tree, consts):
    import claripy

    e = ClaripyInterp(consts).ev(tree)
    if not isinstance(e, claripy.ast.Base):
        return []
    runs = []
    for k, old in enumerate(_sub_asts(e)[:4]):
        if isinstance(old, claripy.ast.BV):
            new = claripy.BVS("w", old.length, explicit_name=True)
        elif isinstance(old, claripy.ast.Bool):
            new = claripy.BoolS("wb", explicit_name=True)
        else:
            continue
        r = claripy.replace(e, old, new)
        runs.append((f"sub{k}", e, r, old, new))
    # a variable-free `old`: a constant leaf that occurs in the expression
    leaves = []
    for l in e.leaf_asts():
        if l.op == "BVV" and all(l is not x for x in leaves):
            leaves.append(l)
    for k, old in enumerate(leaves[:2]):
        new = claripy.BVS("w", old.length, explicit_name=True)
        r = claripy.replace(e, old, new)
        runs.append((f"const{k}", e, r, old, new))
    return runs


def _replace_sub_check(runs, s):
    from pysym import engine as E

    fails = []
    if META[0]:
        for lab, e, r, old, new in runs:
            fails += meta_fails(r, lab)
        return fails[:1]
    for lab, e, r, old, new in runs:
        s.push()
        s.add(conv(old) == conv(new))
        f = equiv_fail(s, conv(r), conv(e), "replace-sub", f"[{lab}] replacing {old!r:.80} in {e!r:.120} gave {r!r:.120}, different even when old == new")
        s.pop()
        if f:
            if f.extra is not None:
                f.extra = z3.And(conv(old) == conv(new), f.extra)
            fails.append(f)
            break
        if _occurs(r, old, new):
            fails.append(Fail("replace-sub-left", f"[{lab}] {old!r:.80} still occurs in {r!r:.150}"))
            break
    return fails


def run_replace_sub(oid, params, tier):
    tree = params["tree"]
    zc = _zconsts([tree])

    def build():
        return _replace_sub_build(tree, _mk_consts(tree, zc))

    def check(path, s, out):
        return _replace_sub_check(out, s) if out else []

    return symrun.run(oid, width=_width_for(tree), zconsts=zc, build=build, check=check,
                      make_case=lambda vals, f: {"harness": "harness.p_c08", "kind": "replace-sub", "tree": tree, "consts": vals,
                                                 "obligation": oid, "detail": f.detail[:300]},
                      max_paths=150 if tier == "quick" else 1500, known=common.known_for(common.load_known("C08"), oid),
                      sample={"obligation": oid, "tree": show(tree)})


# ---------------------------------------------------------------------------------------------------------
# canonicalize


def _canon_build(tree, consts):
    import claripy

    e = ClaripyInterp(consts).ev(tree)
    if not isinstance(e, claripy.ast.Base):
        return None
    vm, ctr, c = e.canonicalize()
    vm2, ctr2, c2 = e.canonicalize()
    return e, vm, ctr, c, c2


def _canon_check(out, s):
    import claripy

    e, vm, ctr, c, c2 = out
    if META[0]:
        return meta_fails(c, "canonicalize")[:1]
    fails = []
    leaves = {}
    for v in e.leaf_asts():
        if v.op in ("BVS", "BoolS", "FPS", "StringS"):
            leaves[v.hash()] = v
    # replace_dict records the rebuilt inner nodes in the same dictionary; only the entries for variables are the renaming
    vm = {h: nv for h, nv in vm.items() if h in leaves}
    if set(vm) != set(leaves):
        fails.append(Fail("canon-map", f"map does not cover exactly the variables of {e!r:.150}"))
        return fails
    names = [nv.args[0] for nv in vm.values()]
    if len(set(names)) != len(names):
        fails.append(Fail("canon-map", f"map is not injective: {names}"))
    back = []
    for h, nv in vm.items():
        ov = leaves[h]
        if type(nv) is not type(ov) or nv.length != ov.length or not nv.args[0].startswith("canonical_"):
            fails.append(Fail("canon-map", f"{ov!r} mapped to {nv!r}"))
        back.append((conv(nv), conv(ov)))
    if fails:
        return fails
    if c2 is not c:
        fails.append(Fail("canon-repeat", "canonicalize twice gives different objects"))
    if set(c.variables) - set(names):
        fails.append(Fail("canon-vars", f"canonical form still mentions {sorted(set(c.variables) - set(names))}"))
    got = z3.substitute(conv(c), *back) if back else conv(c)
    f = equiv_fail(s, got, conv(e), "canonicalize", f"canonical form {c!r:.150} renamed back differs from {e!r:.150}")
    if f:
        fails.append(f)
    return fails


def run_canon(oid, params, tier):
    tree = params["tree"]
    zc = _zconsts([tree])

    def build():
        return _canon_build(tree, _mk_consts(tree, zc))

    def check(path, s, out):
        return _canon_check(out, s) if out else []

    return symrun.run(oid, width=_width_for(tree), zconsts=zc, build=build, check=check,
                      make_case=lambda vals, f: {"harness": "harness.p_c08", "kind": "canon", "tree": tree, "consts": vals,
                                                 "obligation": oid, "detail": f.detail[:300]},
                      max_paths=150 if tier == "quick" else 1500, known=common.known_for(common.load_known("C08"), oid),
                      sample={"obligation": oid, "tree": show(tree)})


# ---------------------------------------------------------------------------------------------------------
# excavate / burrow


def _ite_util(kind):
    import claripy

    return claripy.excavate_ite if kind == "excavate" else claripy.burrow_ite


def run_ite_util(oid, params, tier):
    tree = params["tree"]
    kind = oid.split(":")[0]
    if kind.startswith("meta/"):
        kind = kind[5:]
    zc = _zconsts([tree])
    want_holder = {}

    def build():
        import claripy

        e = ClaripyInterp(_mk_consts(tree, zc)).ev(tree)
        if not isinstance(e, claripy.ast.Base):
            return None
        f = _ite_util(kind)
        r1 = f(e)
        r2 = f(e)
        r3 = f(r1)
        return e, r1, r2, r3

    def check(path, s, out):
        if out is None:
            return []
        e, r1, r2, r3 = out
        if "w" not in want_holder:
            want_holder["w"] = Z3Interp().ev(tree)
        want = want_holder["w"]
        fails = []
        if META[0]:
            for lab, r in (("first call", r1), ("cached call", r2), ("applied twice", r3)):
                fails += meta_fails(r, f"{kind}_ite {lab}")
            return fails[:1]
        for lab, r in (("first call", r1), ("cached call", r2), ("applied twice", r3)):
            f = equiv_fail(s, conv(r), want, kind, f"{kind}_ite ({lab}) of {e!r:.150} gave {r!r:.150}")
            if f:
                fails.append(f)
                break
        return fails

    return symrun.run(oid, width=_width_for(tree), zconsts=zc, build=build, check=check,
                      make_case=lambda vals, f: {"harness": "harness.p_c08", "kind": kind, "tree": tree, "consts": vals,
                                                 "obligation": oid, "detail": f.detail[:300]},
                      max_paths=200 if tier == "quick" else 2000, known=common.known_for(common.load_known("C08"), oid),
                      sample={"obligation": oid, "tree": show(tree)})


# ---------------------------------------------------------------------------------------------------------
# ite_cases / ite_dict / reverse_ite_cases


def _case_trees(style, k, n):
    """k (condition tree, value tree) pairs + default tree; constants c0.. are symbolic"""
    x = X(n)
    conds = []

    def K(j):
        # the first two conditions compare with symbolic constants, later ones with literals (the constant-identity
        # wrapper forks on equality between every pair of symbolic constants: Bell-number growth)
        return C(10 + j, n) if j < (2 if k <= 3 else 1) else L(3 * j + 1, n)

    for j in range(k):
        if style == "eqc":
            conds.append(["eq", x, K(j)])
        elif style == "bools":
            conds.append(["bvar", f"p{j}"])
        elif style == "ultc":
            conds.append(["ult", x, K(j)])
        else:
            conds.append([["eq", x, K(j)], ["bvar", f"p{j}"], ["ult", Y(n), K(j)], ["And", ["bvar", f"p{j}"], ["ne", x, Y(n)]]][j % 4])
    vals = [_val_tree(j, n, 2 if k <= 3 else 1) for j in range(k)]
    return list(zip(conds, vals)), C(9, n)


def _val_tree(j, n, nsym=2):
    if j < nsym:
        return C(j, n)
    return [["add", Z(n), L(j, n)], L(j, n), Z(n), ["xor", Y(n), L(j, n)]][j % 4]


def _spec_cases(zi, cases, default):
    r = zi.ev(default)
    for c, v in reversed(cases):
        r = z3.If(zi.ev(c), zi.ev(v), r)
    return r


def run_ite_cases(oid, params, tier):
    n, k, style = params["n"], params["k"], params["style"]
    cases, default = _case_trees(style, k, n)
    trees = tuple([c for c, _ in cases] + [v for _, v in cases] + [default])
    zc = _zconsts(trees)

    def build():
        import claripy

        it = ClaripyInterp(_mk_consts(trees, zc))
        cl = [(it.ev(c), it.ev(v)) for c, v in cases]
        d = it.ev(default)
        r = claripy.ite_cases(cl, d)
        rev = list(claripy.reverse_ite_cases(r))
        return r, rev

    def check(path, s, out):
        if out is None:
            return []
        r, rev = out
        want = _spec_cases(Z3Interp(), cases, default)
        fails = []
        f = equiv_fail(s, conv(r), want, "ite_cases", f"ite_cases with {k} {style} cases gave {r!r:.200}")
        if f:
            return [f]
        # reverse_ite_cases: exactly one condition holds, and its value is the expression's value
        zr = conv(r)
        cs = [(conv(c), conv(v)) for c, v in rev]
        from pysym import engine as E

        none = z3.Not(z3.Or(*[c for c, _ in cs])) if cs else z3.BoolVal(True)
        if E.check_sat(s, none) == "sat":
            fails.append(Fail("reverse_ite_cases", f"no condition holds for some assignment: {rev!r:.200}", none))
        for (c1, v1), (c2, v2) in itertools.combinations(cs, 2):
            both = z3.And(c1, c2)
            if E.check_sat(s, both) == "sat":
                fails.append(Fail("reverse_ite_cases", f"two conditions hold at once: {rev!r:.200}", both))
                break
        for c1, v1 in cs:
            bad = z3.And(c1, v1 != zr)
            if E.check_sat(s, bad) == "sat":
                fails.append(Fail("reverse_ite_cases", f"a case's value differs from the expression under its condition: {rev!r:.200}", bad))
                break
        return fails

    return symrun.run(oid, width=max(2 * n + 8, 72), zconsts=zc, build=build, check=check,
                      make_case=lambda vals, f: {"harness": "harness.p_c08", "kind": "ite_cases", "n": n, "k": k, "style": style,
                                                 "consts": vals, "obligation": oid, "detail": f.detail[:300]},
                      max_paths=2500 if tier == "quick" else 20000, known=common.known_for(common.load_known("C08"), oid),
                      sample={"obligation": oid})


def run_ite_dict(oid, params, tier):
    n, keys = params["n"], params["keys"]
    vals_t = [_val_tree(j, n, 2 if len(keys) <= 3 else 1) for j in range(len(keys))]
    default = C(9, n)
    trees = tuple(vals_t + [default])
    zc = _zconsts(trees)
    x = X(n)

    def build():
        import claripy

        it = ClaripyInterp(_mk_consts(trees, zc))
        d = {kk: it.ev(v) for kk, v in zip(keys, vals_t)}
        i = it.ev(x)
        return claripy.ite_dict(i, d, it.ev(default)), claripy.ite_dict(i, {claripy.BVV(kk, n).concrete_value: v for kk, v in d.items()}, it.ev(default))

    def check(path, s, out):
        if out is None:
            return []
        zi = Z3Interp()
        want = zi.ev(default)
        zx = zi.ev(x)
        for kk, v in zip(keys, vals_t):
            want = z3.If(zx == z3.BitVecVal(kk, n), zi.ev(v), want)
        for r in out:
            f = equiv_fail(s, conv(r), want, "ite_dict", f"ite_dict over keys {keys} gave {r!r:.200}")
            if f:
                return [f]
        return []

    return symrun.run(oid, width=max(2 * n + 8, 72), zconsts=zc, build=build, check=check,
                      make_case=lambda vals, f: {"harness": "harness.p_c08", "kind": "ite_dict", "n": n, "keys": keys,
                                                 "consts": vals, "obligation": oid, "detail": f.detail[:300]},
                      max_paths=2500 if tier == "quick" else 20000, known=common.known_for(common.load_known("C08"), oid),
                      sample={"obligation": oid})


# ---------------------------------------------------------------------------------------------------------
# chop / get_bytes


def _chop_exprs(w):
    x = X(w)
    return [("x", x), ("x+c", ["add", x, C(0, w)]), ("c", C(0, w)), ("if", ["if", B, x, C(0, w)])]


def run_chop(oid, params, tier):
    w = params["w"]
    exprs = [(nm, t) for nm, t in _chop_exprs(w) if nm == params.get("expr", nm)]
    trees = tuple(t for _, t in exprs)
    zc = _zconsts(trees)
    divs = [b for b in range(1, w + 1) if w % b == 0]
    if len(divs) > 6:
        divs = divs[:3] + divs[-3:]
    if params.get("expr") == "c":
        divs = [b for b in divs if w // b <= 4]   # every piece of a symbolic constant is a new symbolic constant

    def build():
        it = ClaripyInterp(_mk_consts(trees, zc))
        out = []
        for nm, t in exprs:
            e = it.ev(t)
            for b in divs:
                out.append((nm, t, b, e.chop(b)))
        return out

    def check(path, s, out):
        zi = Z3Interp()
        for nm, t, b, parts in out or []:
            ze = zi.ev(t)
            if len(parts) != w // b:
                return [Fail("chop", f"chop({b}) of a {w}-bit value returned {len(parts)} parts")]
            for j, p in enumerate(parts):
                hi = w - j * b - 1
                f = equiv_fail(s, conv(p), z3.Extract(hi, hi - b + 1, ze), "chop", f"chop({b}) part {j} of {nm} is {p!r:.120}")
                if f:
                    return [f]
        return []

    return symrun.run(oid, width=max(2 * w + 8, 72) if w <= 32 else w + 16, zconsts=zc, build=build, check=check,
                      make_case=lambda vals, f: {"harness": "harness.p_c08", "kind": "chop", "w": w, "expr": params.get("expr"), "consts": vals,
                                                 "obligation": oid, "detail": f.detail[:300]},
                      max_paths=200, known=common.known_for(common.load_known("C08"), oid), sample={"obligation": oid})


def _get_bytes_spec(ze, w, index, size):
    nbytes = (w + 7) // 8
    pad = nbytes * 8 - w
    zz = z3.ZeroExt(pad, ze) if pad else ze
    hi = (nbytes - index) * 8 - 1
    lo = (nbytes - index - size) * 8
    return z3.Extract(hi, lo, zz)


def run_get_bytes(oid, params, tier):
    w = params["w"]
    exprs = [(nm, t) for nm, t in _chop_exprs(w) if nm == params.get("expr", nm)]
    trees = tuple(t for _, t in exprs)
    zc = _zconsts(trees)
    nbytes = (w + 7) // 8
    combos = [(i, sz) for i in range(nbytes) for sz in range(1, nbytes - i + 1)]
    if len(combos) > 14:
        combos = combos[:5] + combos[len(combos) // 2 - 2: len(combos) // 2 + 2] + combos[-5:]

    def build():
        it = ClaripyInterp(_mk_consts(trees, zc))
        out = []
        for nm, t in exprs:
            e = it.ev(t)
            for i, sz in combos:
                out.append((nm, t, i, sz, e.get_bytes(i, sz)))
                if sz == 1:
                    out.append((nm, t, i, 1, e.get_byte(i)))
        return out

    def check(path, s, out):
        zi = Z3Interp()
        for nm, t, i, sz, r in out or []:
            want = _get_bytes_spec(zi.ev(t), w, i, sz)
            f = equiv_fail(s, conv(r), want, "get_bytes", f"get_bytes({i},{sz}) of {w}-bit {nm} is {r!r:.120}")
            if f:
                return [f]
        return []

    return symrun.run(oid, width=max(2 * w + 8, 72) if w <= 32 else w + 16, zconsts=zc, build=build, check=check,
                      make_case=lambda vals, f: {"harness": "harness.p_c08", "kind": "get_bytes", "w": w, "expr": params.get("expr"), "consts": vals,
                                                 "obligation": oid, "detail": f.detail[:300]},
                      max_paths=200, known=common.known_for(common.load_known("C08"), oid), sample={"obligation": oid})


# ---------------------------------------------------------------------------------------------------------
# identical


def identical_pairs(n):
    x, y = X(n), Y(n)
    c0, c1 = C(0, n), C(1, n)
    P = {
        "xaddc0|xaddc1": (["add", x, c0], ["add", x, c1]),
        "xadd1|xadd2": (["add", x, L(1, n)], ["add", x, L(2, n)]),
        "xaddy|yaddx": (["add", x, y], ["add", y, x]),
        "xsuby|ysubx": (["sub", x, y], ["sub", y, x]),
        "xandc0|xorc0": (["and", x, c0], ["or", x, c0]),
        "x|x": (x, x),
        "x|y": (x, y),
        "c0|c1": (c0, c1),
        "xxorc0|xxorc1": (["xor", x, c0], ["xor", x, c1]),
        "xmul2|xshl1": (["mul", x, L(2, n)], ["shl", x, L(1, n)]),
        "ult-xc0|ult-xc1": (["ult", x, c0], ["ult", x, c1]),
        "eq-xy|eq-yx": (["eq", x, y], ["eq", y, x]),
        "if-bxy|if-byx": (["if", B, x, y], ["if", B, y, x]),
        "xaddyaddc0|xaddyaddc1": (["add", ["add", x, y], c0], ["add", ["add", x, y], c1]),
        "ext-x|ext-x2": (["extract", n - 1, 1, x], ["extract", n - 2, 0, x]),
        "zext-c0|zext-c1": (["zext", 4, ["and", x, c0]], ["zext", 4, ["and", x, c1]]),
        "xshlc0|xshlc1": (["shl", x, c0], ["shl", x, c1]),
        "not-x|neg-x": (["not", x], ["neg", x]),
    }
    return P


def _via_vsa(a, b):
    """the True answer came from BV.identical's comparison of the two abstract (VSA) values"""
    import claripy

    if not (isinstance(a, claripy.ast.BV) and isinstance(b, claripy.ast.BV)):
        return False
    try:
        return bool(claripy.backends.vsa.convert(a).identical(claripy.backends.vsa.convert(b)))
    except Exception:  # noqa: BLE001
        return False


def _renamings(ta, tb):
    """candidate variable renamings (as z3 substitution lists) for 'equal up to a consistent renaming'"""
    va = [v for v in vars_of(ta)]
    vb = [v for v in vars_of(tb)]
    allv = []
    for v in va + vb:
        if v not in allv:
            allv.append(v)
    outs = []
    for perm in itertools.permutations(allv):
        ok = all(a[0] == b[0] and (a[0] == "bvar" or a[2] == b[2]) for a, b in zip(allv, perm))
        if ok:
            outs.append(list(zip(allv, perm)))
    return outs


def _zvar(v):
    return z3.BitVec(v[1], v[2]) if v[0] == "var" else z3.Bool(v[1])


def run_identical(oid, params, tier):
    n, name = params["n"], params["name"]
    ta, tb = identical_pairs(n)[name]
    trees = (ta, tb)
    zc = _zconsts(trees)

    def build():
        it = ClaripyInterp(_mk_consts(trees, zc))
        a, b = it.ev(ta), it.ev(tb)
        return a, b, a.identical(b), b.identical(a)

    def check(path, s, out):
        if out is None:
            return []
        from pysym import engine as E

        a, b, r1, r2 = out
        if not (r1 or r2):
            return []
        zi = Z3Interp()
        za, zb = zi.ev(ta), zi.ev(tb)
        # identical => exists renaming rho: a == b[rho] for all assignments.  The negation, for the finitely many
        # candidate renamings, needs one witness assignment per renaming: fresh copies of the variables per renaming.
        conj = []
        for k, ren in enumerate(_renamings(ta, tb)):
            zb_r = z3.substitute(zb, *[(_zvar(o), _zvar(nw)) for o, nw in ren]) if ren else zb
            allv = [v for v, _ in ren]
            fresh = [(_zvar(v), (z3.BitVec(f"{v[1]}__w{k}", v[2]) if v[0] == "var" else z3.Bool(f"{v[1]}__w{k}"))) for v in allv]
            ne = za != zb_r
            conj.append(z3.substitute(ne, *fresh) if fresh else ne)
        bad = z3.And(*conj) if conj else z3.BoolVal(False)
        q = E.check_sat(s, bad)
        if q == "sat":
            return [Fail("identical", f"identical() answered True for {a!r:.100} and {b!r:.100}, which are not equal under any renaming", bad,
                         known_key="bv-identical-vsa" if _via_vsa(a, b) else None)]
        if q == "unknown":
            return [Fail("unknown", "unknown: identical query")]
        return []

    return symrun.run(oid, width=max(2 * n + 8, 72), zconsts=zc, build=build, check=check,
                      make_case=lambda vals, f: {"harness": "harness.p_c08", "kind": "identical", "n": n, "name": name,
                                                 "consts": vals, "obligation": oid, "detail": f.detail[:300]},
                      max_paths=300, known=common.known_for(common.load_known("C08"), oid), sample={"obligation": oid})


# ---------------------------------------------------------------------------------------------------------


RUNNERS = {
    "replace-var": run_replace_var, "replace-sub": run_replace_sub, "canon": run_canon, "excavate": run_ite_util,
    "burrow": run_ite_util, "ite_cases": run_ite_cases, "ite_dict": run_ite_dict, "chop": run_chop,
    "get_bytes": run_get_bytes, "identical": run_identical,
}


META = [False]   # C05 mode: the same rewriting runs, the per-path check is on the METADATA of every result instead of its meaning


def meta_fails(r, label):
    """reported width / variable set / symbolic flag / depth of a rewritten expression against its own structure and denoted sort"""
    import claripy

    from .astleg import _depth, _free_names

    if not isinstance(r, claripy.ast.Base):
        return []
    fails = []
    try:
        got = conv(r)
    except Exception as ex:  # noqa: BLE001
        return [Fail("metadata", f"[{label}] result not translatable: {type(ex).__name__}: {str(ex)[:100]}")]
    if isinstance(r, claripy.ast.Bits):
        if not z3.is_bv(got) or r.length != got.size():
            fails.append(f"length {r.length} but denoted sort {got.sort()}")
        if len(r) != r.length or r.size() != r.length:
            fails.append("len()/size() disagree with length")
    elif getattr(r, "length", None) is not None and isinstance(r, claripy.ast.Bool):
        fails.append(f"Boolean expression reports a length {r.length}")
    leaves = {l.args[0] for l in r.leaf_asts() if l.op in ("BVS", "BoolS", "FPS", "StringS")}
    free = leaves
    if not leaves <= set(r.variables):
        fails.append(f"variables {sorted(r.variables)} miss occurring {sorted(leaves - set(r.variables))}")
    if not r.symbolic and free:
        fails.append(f"reported concrete but has variables {sorted(free)}")
    memo = {}
    if r.depth != _depth(r, memo):
        fails.append(f"depth {r.depth} but recomputed {_depth(r, memo)}")
    for sub in r.children_asts():
        if isinstance(sub, claripy.ast.Bits):
            try:
                zs = conv(sub)
                if sub.length != zs.size():
                    fails.append(f"sub-expression {sub!r:.60} reports length {sub.length}, denoted width {zs.size()}")
                    break
            except Exception:  # noqa: BLE001
                pass
        if not sub.variables <= r.variables:
            fails.append("sub-expression variables not contained in the parent's")
            break
    return [Fail("metadata", f"[{label}] " + "; ".join(fails) + f" on {r!r:.160}")] if fails else []


def run_setop_replace(oid, params, tier):
    """C05: substitution into the VSA set operations (no solver translation exists for them: structure-only check, concrete)"""
    op, form = params["op"], params["form"]

    def build():
        import claripy

        n = 8
        x, y, z, w = (claripy.BVS(nm, n, explicit_name=True) for nm in ("x", "y", "z", "w"))
        e = getattr(x, op)(y)
        if form == "nested":
            e = (e + z) ^ 1
        elif form == "inner":
            e = getattr(x + 1, op)(y)
        r1 = claripy.replace(e, x, w)
        r2 = claripy.replace(r1, w, z + 3)
        r3 = claripy.replace_dict(e, {x.hash(): y, y.hash(): x})
        return e, [("x->w", r1, {"w", "y"} | ({"z"} if form == "nested" else set())), ("x->w->z+3", r2, {"z", "y"}),
                   ("swap", r3, {"x", "y"} | ({"z"} if form == "nested" else set()))]

    def check(path, s, out):
        e, runs = out
        fails = []
        for lab, r, want in runs:
            leaves = {l.args[0] for l in r.leaf_asts() if l.op == "BVS"}
            if leaves != want:
                fails.append(Fail("replace", f"[{lab}] substitution into {e!r:.80} left the symbols {sorted(leaves)}, expected {sorted(want)}"))
            if not leaves <= set(r.variables):
                fails.append(Fail("metadata", f"[{lab}] {r!r:.100}: variables {sorted(r.variables)} miss occurring {sorted(leaves - set(r.variables))}"))
            for sub in r.children_asts():
                sl = {l.args[0] for l in sub.leaf_asts() if l.op == "BVS"}
                if not sl <= set(sub.variables):
                    fails.append(Fail("metadata", f"[{lab}] sub-expression {sub!r:.80}: variables {sorted(sub.variables)} miss {sorted(sl - set(sub.variables))}"))
                    break
        return fails

    return symrun.run(oid, width=24, zconsts={}, build=build, check=check,
                      make_case=lambda vals, f: {"harness": "harness.p_c08", "kind": "setop-replace", "params": params, "consts": {}, "obligation": oid,
                                                 "detail": f.detail[:300]},
                      max_paths=5, known=(), sample={"obligation": oid})


def _denoted_width(got):
    if z3.is_bv(got):
        return got.size()
    if z3.is_fp(got):
        return got.sort().ebits() + got.sort().sbits()
    return None


def run_z3rt_meta(oid, params, tier):
    """C05: metadata of what comes back from the REAL Z3 round trip (claripy.simplify -> BackendZ3._abstract_internal) for floating-point
    and string expressions, including conversions between widths: reported width against the sort of the re-converted term, variables,
    symbolic flag, depth - for the result and every sub-expression.  Concrete expressions (no symbolic constants cross libz3)."""
    import claripy

    from . import p_c09
    from .astleg import _depth

    res = common.result(oid, "holds")
    res["paths"] = 1
    name = params["name"]
    table = p_c09.FP_SHAPES if params["kind"] == "fp" else p_c09.STR_SHAPES
    e = table[name](claripy)[0]
    fails = []
    try:
        r = claripy.simplify(e)
    except Exception as ex:  # noqa: BLE001
        res["status"] = "inconclusive"
        res["inconclusive"] = [f"simplify raised {type(ex).__name__}"]
        return res
    memo = {}
    for lab, node in [("result", r)] + [("sub-expression", c) for c in r.children_asts()] + [("original", e)]:
        try:
            got = claripy.backends.z3.convert(node)
        except Exception:  # noqa: BLE001
            continue
        w = _denoted_width(got)
        if w is not None and getattr(node, "length", None) != w:
            fails.append(f"{lab} {node!r:.80} reports width {getattr(node, 'length', None)}, its Z3 sort has {w} bits")
        if isinstance(node, claripy.ast.Bool) and getattr(node, "length", None) not in (None,):
            fails.append(f"{lab} {node!r:.80} is Boolean but reports a width")
        leaves = {l.args[0] for l in node.leaf_asts() if l.op in ("BVS", "BoolS", "FPS", "StringS")}
        if not leaves <= set(node.variables):
            fails.append(f"{lab} {node!r:.80}: variables {sorted(node.variables)} miss {sorted(leaves - set(node.variables))}")
        if leaves and not node.symbolic:
            fails.append(f"{lab} {node!r:.80} reported concrete but has variables")
        if node.depth != _depth(node, memo):
            fails.append(f"{lab} {node!r:.80}: depth {node.depth}, recomputed {_depth(node, memo)}")
    res["sample"] = {"obligation": oid, "expr": repr(e)[:120], "simplified": repr(r)[:120]}
    if fails:
        res["status"] = "violation"
        res["detail"] = "simplify(" + repr(e)[:100] + "): " + fails[0]
        res["cex"] = [{"harness": "harness.p_c08", "kind": "z3rt-meta", "params": params, "consts": {}, "obligation": oid, "detail": res["detail"][:300]}]
    return res


def meta_obligations(tier):
    out = []
    from . import p_c09

    for nm in p_c09.FP_SHAPES:
        out.append((f"meta/z3rt:fp:{nm}", {"kind": "fp", "name": nm, "meta": True}))
    for nm in p_c09.STR_SHAPES:
        out.append((f"meta/z3rt:str:{nm}", {"kind": "str", "name": nm, "meta": True}))
    for oid, p in obligations(tier):
        if oid.split(":")[0] in ("replace-var", "replace-sub", "canon", "excavate", "burrow"):
            out.append(("meta/" + oid, dict(p, meta=True)))
    for op in ("union", "intersection", "widen"):
        for form in ("plain", "nested", "inner"):
            out.append((f"meta/setop-replace:{op}:{form}", {"op": op, "form": form, "meta": True}))
    return out


def run_obligation(oid, params, tier):
    META[0] = bool(params.get("meta"))
    key = oid.split(":")[0]
    if key.startswith("meta/"):
        key = key[5:]
    if key == "setop-replace":
        return run_setop_replace(oid, params, tier)
    if key == "z3rt":
        return run_z3rt_meta(oid, params, tier)
    return RUNNERS[key](oid, params, tier)


def _native_solver():
    s = z3.Solver()
    s.set("timeout", 60000)
    return s


def replay(case):
    """native: concrete constants, no shadows; the same checkers decide with Z3 over the variables"""
    import claripy

    k = case["kind"]
    vals = case["consts"]
    s = _native_solver()
    fails = []
    META[0] = str(case.get("obligation", "")).startswith("meta/")
    if k == "setop-replace":
        r = run_setop_replace(case["obligation"], case["params"], "quick")
        return {"violated": r["status"] == "violation", "detail": r.get("detail", "")}
    if k == "z3rt-meta":
        r = run_z3rt_meta(case["obligation"], case["params"], "quick")
        return {"violated": r["status"] == "violation", "detail": r.get("detail", "")}
    try:
        if k in ("replace-var", "replace-sub", "canon", "excavate", "burrow"):
            tree = case["tree"]
            cc = _native_consts([tree], vals)
            if k == "replace-var":
                fails = _replace_var_check(_replace_var_build(tree, cc), s)
            elif k == "replace-sub":
                fails = _replace_sub_check(_replace_sub_build(tree, cc), s)
            elif k == "canon":
                out = _canon_build(tree, cc)
                fails = _canon_check(out, s) if out else []
            else:
                e = ClaripyInterp(cc).ev(tree)
                f = _ite_util(k)
                want = _zi(vals, [tree]).ev(tree)
                r1 = f(e)
                if META[0]:
                    for lab, r in (("first call", r1), ("cached call", f(e)), ("applied twice", f(r1))):
                        fails += meta_fails(r, f"{k}_ite {lab}")
                for lab, r in (() if META[0] else (("first call", r1), ("cached call", f(e)), ("applied twice", f(r1)))):
                    ff = equiv_fail(s, conv(r), want, k, f"{k}_ite ({lab}) of {e!r:.150} gave {r!r:.150}")
                    if ff:
                        fails = [ff]
                        break
        elif k == "identical":
            ta, tb = identical_pairs(case["n"])[case["name"]]
            cc = _native_consts([ta, tb], vals)
            it = ClaripyInterp(cc)
            a, b = it.ev(ta), it.ev(tb)
            if a.identical(b) or b.identical(a):
                zi = _zi(vals, [ta, tb])
                za, zb = zi.ev(ta), zi.ev(tb)
                ok = False
                for ren in _renamings(ta, tb):
                    zb_r = z3.substitute(zb, *[(_zvar(o), _zvar(nw)) for o, nw in ren]) if ren else zb
                    if s.check(za != zb_r) == z3.unsat:
                        ok = True
                if not ok:
                    fails = [Fail("identical", f"identical({a!r:.100}, {b!r:.100}) is True but they differ under every renaming")]
        else:
            # the remaining kinds re-run their obligation with the constants pinned
            return _replay_pinned(case)
    except Exception as ex:  # noqa: BLE001
        import traceback

        return {"violated": False, "error": True, "detail": "replay crashed: " + "".join(traceback.format_exception(ex))[-800:]}
    real = [f for f in fails if f.kind != "unknown"]
    return {"violated": bool(real), "detail": (real[0].detail if real else "specification holds natively") + f" consts={vals}"}


def _replay_pinned(case):
    """ite_cases / ite_dict / chop / get_bytes: natively with concrete constants"""
    import claripy

    k = case["kind"]
    vals = case["consts"]
    s = _native_solver()
    if k == "ite_cases":
        cases, default = _case_trees(case["style"], case["k"], case["n"])
        trees = [c for c, _ in cases] + [v for _, v in cases] + [default]
        it = ClaripyInterp(_native_consts(trees, vals))
        r = claripy.ite_cases([(it.ev(c), it.ev(v)) for c, v in cases], it.ev(default))
        want = _spec_cases(_zi(vals, trees), cases, default)
        f = equiv_fail(s, conv(r), want, k, f"ite_cases gave {r!r:.200}")
        if not f:
            zr = conv(r)
            rev = [(conv(c), conv(v)) for c, v in claripy.reverse_ite_cases(r)]
            if s.check(z3.Not(z3.Or(*[c for c, _ in rev]))) == z3.sat:
                f = Fail(k, "reverse_ite_cases: no condition holds for some assignment")
            for (c1, _), (c2, _) in itertools.combinations(rev, 2):
                if s.check(z3.And(c1, c2)) == z3.sat:
                    f = Fail(k, "reverse_ite_cases: two conditions hold at once")
            for c1, v1 in rev:
                if s.check(z3.And(c1, v1 != zr)) == z3.sat:
                    f = Fail(k, "reverse_ite_cases: a case's value differs from the expression")
    elif k == "ite_dict":
        n, keys = case["n"], case["keys"]
        vals_t = [_val_tree(j, n, 2 if len(keys) <= 3 else 1) for j in range(len(keys))]
        default = C(9, n)
        trees = vals_t + [default]
        it = ClaripyInterp(_native_consts(trees, vals))
        zi = _zi(vals, trees)
        r = claripy.ite_dict(it.ev(X(n)), {kk: it.ev(v) for kk, v in zip(keys, vals_t)}, it.ev(default))
        want = zi.ev(default)
        for kk, v in zip(keys, vals_t):
            want = z3.If(zi.ev(X(n)) == z3.BitVecVal(kk, n), zi.ev(v), want)
        f = equiv_fail(s, conv(r), want, k, f"ite_dict over {keys} gave {r!r:.200}")
    elif k in ("chop", "get_bytes"):
        w = case["w"]
        exprs = [(nm, t) for nm, t in _chop_exprs(w) if case.get("expr") in (None, nm)]
        trees = [t for _, t in exprs]
        it = ClaripyInterp(_native_consts(trees, vals))
        zi = _zi(vals, trees)
        f = None
        for nm, t in exprs:
            e = it.ev(t)
            ze = zi.ev(t)
            if k == "chop":
                for b in [b for b in range(1, w + 1) if w % b == 0]:
                    for j, p in enumerate(e.chop(b)):
                        hi = w - j * b - 1
                        f = f or equiv_fail(s, conv(p), z3.Extract(hi, hi - b + 1, ze), k, f"chop({b}) part {j} of {nm} is {p!r:.120}")
            else:
                nbytes = (w + 7) // 8
                for i in range(nbytes):
                    for sz in range(1, nbytes - i + 1):
                        f = f or equiv_fail(s, conv(e.get_bytes(i, sz)), _get_bytes_spec(ze, w, i, sz), k, f"get_bytes({i},{sz}) of {w}-bit {nm}")
    else:
        return {"violated": False, "error": True, "detail": "unknown kind " + k}
    real = f is not None and f.kind != "unknown"
    return {"violated": bool(real), "detail": (f.detail if real else "specification holds natively") + f" consts={vals}"}


FUNCTIONS = [
    "claripy.algorithm.replace.replace / replace_dict", "claripy.ast.base.Base.canonicalize / identical / make_like",
    "claripy.ast.bv.BV.identical / chop / get_bytes / get_byte / __getitem__",
    "claripy.algorithm.ite_relocation.excavate_ite / burrow_ite (and caches)",
    "claripy.ast.bool.ite_cases / ite_dict / reverse_ite_cases / If",
    "claripy.backends.backend_vsa (through BV.identical)", "claripy.backends.backend_z3.BackendZ3.convert",
]


def check(prop, tier, cap, only=None, procs=None, list_only=False, t0=None):
    obs = obligations(tier)
    if only:
        obs = [o for o in obs if fnmatch.fnmatchcase(o[0], only)]
    if list_only:
        for o, _ in obs:
            print(o)
        return 0
    results = common.run_pool("harness.p_c08", obs, tier, cap, procs=procs)
    quick = tier == "quick"
    bounds = {
        "widths": [8] if quick else [1, 4, 8, 32],
        "expressions": "C01 shape pool (every 3rd shape per utility in quick) for replace/canonicalize; 100+ If-laden shapes for "
                       "excavate/burrow; case lists of 0..6 entries in four condition styles; switch tables of 0..9 concrete keys with "
                       "symbolic values; chop/get_bytes at widths 8,12,16,24,32,64 (quick); 18 expression pairs for identical",
        "path_budget": 150 if quick else 1500,
        "outside": "deeper expressions, longer tables, symbolic table keys (dictionary keys must be hashable constants)",
    }
    return common.finish(
        prop, tier, "translation_validation", results, t0, functions=FUNCTIONS, bounds=bounds,
        assumptions=["every constant is a solver variable; every variable assignment is quantified by Z3",
                     "BackendZ3.simplify is the identity on expressions with symbolic constants",
                     "identical(): 'up to a consistent renaming' is decided over all sort-respecting permutations of the occurring variables"],
        rule="one obligation = one utility on one expression shape/table; the real code runs on symbolic constants, every path is "
             "explored, and Z3 decides output == specification for all constants and variable assignments of the path",
    )
