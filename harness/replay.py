"""Native replay of counterexample files: fresh interpreter, no shadows, no shims.
usage: python -m harness.replay file...   → one line `REPLAY {json}` per file"""
from __future__ import annotations

import importlib
import json
import sys
import traceback


def replay_file(path):
    with open(path) as f:
        case = json.load(f)
    try:
        mod = importlib.import_module(case["harness"])
        d = mod.replay(case)
    except BaseException as e:  # noqa: BLE001
        d = {"violated": False, "error": True, "detail": "replay crashed: " + "".join(traceback.format_exception(e))[-1500:]}
    d["path"] = path
    return d


if __name__ == "__main__":
    for p in sys.argv[1:]:
        print("REPLAY " + json.dumps(replay_file(p)), flush=True)
