"""Shared glue for the harnesses that run BackendVSA / Balancer / value-set code on symbolic shadows (C23, C24, C25, C13).

* the strided_interval module shims of p_vsa (math.gcd/lcm, log2/floor/ceil, range, float, int)
* nominal annotation hashing: StridedIntervalAnnotation.__hash__ hashes a tuple of ints with the builtin hash; with shadow
  fields that would concretise (fork over every value).  In these harnesses the builtin name `hash` in the
  claripy.annotation namespace is replaced by a digest of the fields' Z3 terms: equal terms hash equal, different terms
  (almost surely) differently.  The real hash function's collisions are C06's subject, not these harnesses'.
"""
from __future__ import annotations

import hashlib

import z3

from .p_vsa import _install_shims, member, wellformed  # noqa: F401

SHIMS = ["strided_interval module: math.gcd/lcm (Euclid on shadows), int() identity on shadows, math.log2/floor/ceil, range(), float() "
         "concretise their symbolic argument",
         "claripy.annotation.hash: digest of the fields' Z3 terms (nominal; the builtin hash would concretise every field)"]


def nominal_hash(obj):
    from pysym.engine import SInt

    def ser(o):
        if isinstance(o, SInt):
            return b"S" + o.t.sexpr().encode()
        if isinstance(o, tuple):
            return b"(" + b",".join(ser(i) for i in o) + b")"
        return repr(o).encode()

    return int.from_bytes(hashlib.blake2b(ser(obj), digest_size=7).digest(), "little")


def install():
    import claripy.annotation as ann
    from pysym import glue

    glue.install()
    _install_shims()
    if getattr(ann, "_verif_hash", False):
        install_recorder()
        return
    ann._verif_hash = True
    ann.hash = nominal_hash
    _install_dsis_shims()
    install_recorder()


def _install_dsis_shims():
    """the other backend_vsa modules use the same builtins on interval fields"""
    import builtins

    import claripy.backends.backend_vsa.strided_interval as simod

    for name in ("discrete_strided_interval_set", "valueset", "backend_vsa", "balancer"):
        import importlib

        m = importlib.import_module("claripy.backends.backend_vsa." + name)
        if "math" in vars(m):
            m.math = simod.math


def low(v, n):
    from pysym import engine as E

    if isinstance(v, E.SInt):
        return z3.Extract(n - 1, 0, E.term(v))
    return z3.BitVecVal(v, n)


def not_in(av, z):
    """formula: the n-bit term / Bool term z is NOT covered by the abstract value av (StridedInterval, BoolResult, bool,
    DiscreteStridedIntervalSet); returns a str for a structural problem"""
    from claripy.backends.backend_vsa.bool_result import BoolResult
    from claripy.backends.backend_vsa.discrete_strided_interval_set import DiscreteStridedIntervalSet
    from claripy.backends.backend_vsa.strided_interval import StridedInterval

    if isinstance(av, DiscreteStridedIntervalSet):
        parts = [not_in(si, z) for si in av._si_set]
        for p in parts:
            if isinstance(p, str):
                return p
        return z3.And(*parts) if parts else z3.BoolVal(True)
    if isinstance(av, StridedInterval):
        if not z3.is_bv(z) or av.bits != z.size():
            return f"abstract value has {av.bits} bits, the expression {z.sort()}"
        if av.is_empty:
            return z3.BoolVal(True)
        n = av.bits
        return z3.Not(member(z, low(av.stride, n), low(av.lower_bound, n), low(av.upper_bound, n)))
    if isinstance(av, (bool, BoolResult)):
        if not z3.is_bool(z):
            return f"abstract value is Boolean, the expression {z.sort()}"
        ht, hf = BoolResult.has_true(av), BoolResult.has_false(av)
        return z3.Or(z3.And(z, z3.BoolVal(not ht)), z3.And(z3.Not(z), z3.BoolVal(not hf)))
    return f"unexpected abstract value {type(av).__name__}"


def py_covers(av, v):
    """native, enumerating: concrete value v (int or bool) is covered by abstract value av"""
    from claripy.backends.backend_vsa.bool_result import BoolResult
    from claripy.backends.backend_vsa.discrete_strided_interval_set import DiscreteStridedIntervalSet
    from claripy.backends.backend_vsa.strided_interval import StridedInterval

    from .p_vsa import py_members

    if isinstance(av, DiscreteStridedIntervalSet):
        return any(py_covers(si, v) for si in av._si_set)
    if isinstance(av, StridedInterval):
        if av.is_empty:
            return False
        return (v & ((1 << av.bits) - 1)) in py_members(av.bits, av.stride, av.lower_bound, av.upper_bound)
    if isinstance(av, (bool, BoolResult)):
        return BoolResult.has_true(av) if v else BoolResult.has_false(av)
    return False


# ---------------------------------------------------------------------------------------------------------
# attribution of a failure to a recorded C21/C22 finding: every StridedInterval transfer function / query that runs during a
# build is recorded with its operands; a failing path is attributed to an interval-level finding only if one of the calls
# actually made on that path had operands that are listed in the exact table of known-failing operand tuples (or the
# operation has findings but no exact table for that width / parameters).

CALLS = []

_BIN = {"add": "add", "sub": "sub", "mul": "mul", "udiv": "udiv", "sdiv": "sdiv", "__mod__": "mod", "bitwise_and": "and", "bitwise_or": "or",
        "bitwise_xor": "xor", "lshift": "shl", "rshift_logical": "lshr", "rshift_arithmetic": "ashr", "concat": "concat",
        "SLT": "SLT", "SLE": "SLE", "SGT": "SGT", "SGE": "SGE", "ULT": "ULT", "ULE": "ULE", "UGT": "UGT", "UGE": "UGE", "eq": "eq",
        "union": "union", "widen": "widen", "intersection": "intersection"}
_UN = {"neg": "negm", "bitwise_not": "not"}


def install_recorder():
    import functools

    from claripy.backends.backend_vsa.strided_interval import StridedInterval as SI

    if getattr(SI, "_verif_recorded", False):
        return
    SI._verif_recorded = True

    def snap(si):
        return (si._bits, si._stride, si._lower_bound, si._upper_bound, si._is_bottom)

    def wrap(meth, make):
        orig = SI.__dict__.get(meth)
        if orig is None:
            return

        @functools.wraps(orig)
        def w(self, *a, **kw):
            if not _SUSPEND[0]:
                try:
                    rec = make(self, a, kw)
                    if rec is not None:
                        CALLS.append(rec)
                except Exception:  # noqa: BLE001
                    pass
            return orig(self, *a, **kw)

        setattr(SI, meth, w)

    for meth, op in _BIN.items():
        wrap(meth, lambda self, a, kw, op=op: (op, snap(self), snap(a[0]) if isinstance(a[0], SI) else ("int", a[0])) if a else None)
    for meth, op in _UN.items():
        wrap(meth, lambda self, a, kw, op=op: (op, snap(self), None))
    wrap("zero_extend", lambda self, a, kw: ("zext", snap(self), ("param", a[0])))
    wrap("sign_extend", lambda self, a, kw: ("sext", snap(self), ("param", a[0])))
    wrap("extract", lambda self, a, kw: ("extract", snap(self), ("param", a[0], a[1])))
    wrap("min", lambda self, a, kw: ("smin", snap(self), None) if (kw.get("signed") or (a and a[0])) else None)
    wrap("max", lambda self, a, kw: ("smax", snap(self), None) if (kw.get("signed") or (a and a[0])) else None)
    wrap("eval", lambda self, a, kw: ("evalsigned", snap(self), None) if (kw.get("signed") or (len(a) > 1 and a[1])) else None)
    wrap("solution", lambda self, a, kw: ("solution", snap(self), None))


def reset_calls():
    del CALLS[:]


_SUSPEND = [False]


def _sgn(v, n):
    return v - (1 << n) if v >> (n - 1) else v


def native_unsound(op, a, b):
    """a recorded transfer-function call re-run NATIVELY on its concrete operands and compared with the member sets by enumeration.
    a: (bits, stride, lb, ub); b: the same, ("param", ...) or None.  True: this call loses a concrete result (or raises); False: sound on
    these operands; None: not decided here (query operations, too many member pairs)."""
    from claripy.backends.backend_vsa.bool_result import BoolResult
    from claripy.backends.backend_vsa.strided_interval import StridedInterval as SI

    from .p_vsa import BIN, UN, py_members

    na = a[0]
    ma = py_members(*a)
    A_ = SI(bits=na, stride=a[1], lower_bound=a[2], upper_bound=a[3])
    m = (1 << na) - 1
    _SUSPEND[0] = True
    try:
        def rmem(r):
            return set() if r.is_empty else py_members(r.bits, r.stride, r.lower_bound, r.upper_bound)

        if b is not None and b[0] == "param":
            if op == "zext":
                r = A_.zero_extend(b[1])
                return r.bits != b[1] or not ma <= rmem(r)
            if op == "sext":
                r = A_.sign_extend(b[1])
                return r.bits != b[1] or not {_sgn(x, na) & ((1 << b[1]) - 1) for x in ma} <= rmem(r)
            if op == "extract":
                hi, lo = b[1], b[2]
                r = A_.extract(hi, lo)
                return not {(x >> lo) & ((1 << (hi - lo + 1)) - 1) for x in ma} <= rmem(r)
            return None
        if b is None:
            if op in UN:
                r = UN[op][0](A_)
                want = {((-x) & m) if op != "not" else ((~x) & m) for x in ma}
                return not want <= rmem(r)
            return None
        nb = b[0]
        mb = py_members(*b)
        if len(ma) * len(mb) > 70000:
            return None
        B_ = SI(bits=nb, stride=b[1], lower_bound=b[2], upper_bound=b[3])
        if op in ("union", "widen", "intersection"):
            if na != nb:
                return None
            r = getattr(A_, op)(B_)
            rm = rmem(r)
            return not ((ma & mb) <= rm) if op == "intersection" else not ((ma | mb) <= rm)
        cmp_ = {"ULT": lambda x, y: x < y, "ULE": lambda x, y: x <= y, "UGT": lambda x, y: x > y, "UGE": lambda x, y: x >= y,
                "SLT": lambda x, y: _sgn(x, na) < _sgn(y, nb), "SLE": lambda x, y: _sgn(x, na) <= _sgn(y, nb),
                "SGT": lambda x, y: _sgn(x, na) > _sgn(y, nb), "SGE": lambda x, y: _sgn(x, na) >= _sgn(y, nb), "eq": lambda x, y: x == y}
        if op in cmp_:
            r = getattr(A_, op)(B_)
            seen = {cmp_[op](x, y) for x in ma for y in mb}
            return (True in seen and not BoolResult.has_true(r)) or (False in seen and not BoolResult.has_false(r))
        if op not in BIN:
            return None

        def sdiv(x, y):
            p, q = _sgn(x, na), _sgn(y, nb)
            d = abs(p) // abs(q)
            return (-d if (p < 0) != (q < 0) else d) & m

        ref = {"add": lambda x, y: (x + y) & m, "sub": lambda x, y: (x - y) & m, "mul": lambda x, y: (x * y) & m, "udiv": lambda x, y: x // y, "sdiv": sdiv,
               "mod": lambda x, y: x % y, "and": lambda x, y: x & y, "or": lambda x, y: x | y, "xor": lambda x, y: x ^ y,
               "shl": lambda x, y: (x << y) & m if y < na else 0, "lshr": lambda x, y: x >> y if y < na else 0,
               "ashr": lambda x, y: (_sgn(x, na) >> min(y, na)) & m, "concat": lambda x, y: (x << nb) | y}[op]
        r = BIN[op][0](A_, B_)
        rm = rmem(r)
        for x in ma:
            for y in mb:
                if op in ("udiv", "sdiv", "mod") and y == 0:
                    continue
                if ref(x, y) not in rm:
                    return True
        return False
    except Exception:  # noqa: BLE001
        return True
    finally:
        _SUSPEND[0] = False


def _family_has_findings(op):
    from .p_vsa import tables

    for k, v in tables().items():
        name = k.split(":")[1]
        if (name == op or (op in ("zext", "sext", "extract") and name.startswith(op))) and v["count"]:
            return True
    return False


def attribute(ev):
    """ev(value) -> concrete int of a (possibly shadow) field under the counterexample model.
    Returns a description of the first recorded call whose operands are a known-failing tuple of C21/C22, else None."""
    from .p_vsa import key_of, tables

    T = tables()
    for op, a, b in CALLS:
        bits, s, lb, ub, bottom = a
        if bottom:
            continue
        n = bits
        m = (1 << n) - 1
        at = (ev(s) & m, ev(lb) & m, ev(ub) & m)
        name = op
        bt = None
        if b is not None and b[0] == "param":
            if op == "zext" or op == "sext":
                name = f"{op}{b[1] - n}"
            else:
                name = f"extract{b[1]}_{b[2]}"
        elif b is not None and b[0] == "int":
            v = ev(b[1]) & m
            bt = (0, v, v)
        elif b is not None:
            if b[4]:
                continue
            if b[0] != n:
                bt = "mixed"
            else:
                bt = (ev(b[1]) & m, ev(b[2]) & m, ev(b[3]) & m)
        tab = T.get(f"C21/si:{name}:{n}") or T.get(f"C22/si:{name}:{n}")
        if tab is None or bt == "mixed":
            if not _family_has_findings(op):
                continue
            # no exact table for this width / these parameters: the recorded call is re-run natively on its concrete operands and
            # compared with the member sets; only a call that really loses a value attributes the failure to the interval-level finding
            if b is not None and b[0] == "param":
                bb = b
            elif b is not None and b[0] == "int":
                bb = (n, 0, ev(b[1]) & m, ev(b[1]) & m)
            elif b is not None:
                mb_ = (1 << b[0]) - 1
                bb = (b[0], ev(b[1]) & mb_, ev(b[2]) & mb_, ev(b[3]) & mb_)
            else:
                bb = None
            u = native_unsound(op, (n, *at), bb)
            if u or (u is None and n > 8):
                return f"{name} at width {n} a={at}: " + ("this call loses a concrete result (checked natively by enumeration)" if u else
                                                           "no exact table and too wide to enumerate; the operation has recorded findings")
            continue
        if not tab["count"]:
            continue
        key = key_of(n, at, bt) if bt is not None else key_of(n, at)
        if key in _keyset(f"{name}:{n}", tab):
            return f"{name} n={n} a={at} b={bt} is a known-failing operand tuple"
    return None


_KEYSETS = {}


def _keyset(name, tab):
    ks = _KEYSETS.get(name)
    if ks is None:
        ks = _KEYSETS[name] = set(tab["keys"])
    return ks
