"""Shared glue for the harnesses that run BackendVSA / Balancer / value-set code on symbolic shadows (C23, C24, C25, C13).

* the strided_interval module shims of p_vsa (math.gcd/lcm, log2/floor/ceil, range, float, int)
* nominal annotation hashing: StridedIntervalAnnotation.__hash__ hashes a tuple of ints with the builtin hash; with shadow
  fields that would concretise (fork over every value).  In these harnesses the builtin name `hash` in the
  claripy.annotation namespace is replaced by a digest of the fields' Z3 terms: equal terms hash equal, different terms
  (almost surely) differently.  The real hash function's collisions are C06's subject, not these harnesses'.
"""
from __future__ import annotations

import hashlib

import z3

from .p_vsa import _install_shims, member, wellformed  # noqa: F401

SHIMS = ["strided_interval module: math.gcd/lcm (Euclid on shadows), int() identity on shadows, math.log2/floor/ceil, range(), float() "
         "concretise their symbolic argument",
         "claripy.annotation.hash: digest of the fields' Z3 terms (nominal; the builtin hash would concretise every field)"]


def nominal_hash(obj):
    from pysym.engine import SInt

    def ser(o):
        if isinstance(o, SInt):
            return b"S" + o.t.sexpr().encode()
        if isinstance(o, tuple):
            return b"(" + b",".join(ser(i) for i in o) + b")"
        return repr(o).encode()

    return int.from_bytes(hashlib.blake2b(ser(obj), digest_size=7).digest(), "little")


def install():
    import claripy.annotation as ann
    from pysym import glue

    glue.install()
    _install_shims()
    if getattr(ann, "_verif_hash", False):
        return
    ann._verif_hash = True
    ann.hash = nominal_hash
    _install_dsis_shims()


def _install_dsis_shims():
    """the other backend_vsa modules use the same builtins on interval fields"""
    import builtins

    import claripy.backends.backend_vsa.strided_interval as simod

    for name in ("discrete_strided_interval_set", "valueset", "backend_vsa", "balancer"):
        import importlib

        m = importlib.import_module("claripy.backends.backend_vsa." + name)
        if "math" in vars(m):
            m.math = simod.math


def low(v, n):
    from pysym import engine as E

    if isinstance(v, E.SInt):
        return z3.Extract(n - 1, 0, E.term(v))
    return z3.BitVecVal(v, n)


def not_in(av, z):
    """formula: the n-bit term / Bool term z is NOT covered by the abstract value av (StridedInterval, BoolResult, bool,
    DiscreteStridedIntervalSet); returns a str for a structural problem"""
    from claripy.backends.backend_vsa.bool_result import BoolResult
    from claripy.backends.backend_vsa.discrete_strided_interval_set import DiscreteStridedIntervalSet
    from claripy.backends.backend_vsa.strided_interval import StridedInterval

    if isinstance(av, DiscreteStridedIntervalSet):
        parts = [not_in(si, z) for si in av._si_set]
        for p in parts:
            if isinstance(p, str):
                return p
        return z3.And(*parts) if parts else z3.BoolVal(True)
    if isinstance(av, StridedInterval):
        if not z3.is_bv(z) or av.bits != z.size():
            return f"abstract value has {av.bits} bits, the expression {z.sort()}"
        if av.is_empty:
            return z3.BoolVal(True)
        n = av.bits
        return z3.Not(member(z, low(av.stride, n), low(av.lower_bound, n), low(av.upper_bound, n)))
    if isinstance(av, (bool, BoolResult)):
        if not z3.is_bool(z):
            return f"abstract value is Boolean, the expression {z.sort()}"
        ht, hf = BoolResult.has_true(av), BoolResult.has_false(av)
        return z3.Or(z3.And(z, z3.BoolVal(not ht)), z3.And(z3.Not(z), z3.BoolVal(not hf)))
    return f"unexpected abstract value {type(av).__name__}"


def py_covers(av, v):
    """native, enumerating: concrete value v (int or bool) is covered by abstract value av"""
    from claripy.backends.backend_vsa.bool_result import BoolResult
    from claripy.backends.backend_vsa.discrete_strided_interval_set import DiscreteStridedIntervalSet
    from claripy.backends.backend_vsa.strided_interval import StridedInterval

    from .p_vsa import py_members

    if isinstance(av, DiscreteStridedIntervalSet):
        return any(py_covers(si, v) for si in av._si_set)
    if isinstance(av, StridedInterval):
        if av.is_empty:
            return False
        return (v & ((1 << av.bits) - 1)) in py_members(av.bits, av.stride, av.lower_bound, av.upper_bound)
    if isinstance(av, (bool, BoolResult)):
        return BoolResult.has_true(av) if v else BoolResult.has_false(av)
    return False
