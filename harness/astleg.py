"""AST leg: an operation tree is built through claripy's public constructors with every constant symbolic
(pysym shadows), every path of the real constructors / rewriter / eager folding / Z3 translation is explored,
and per path Z3 decides the assertions of C01 (meaning), C04 (exceptions), C05 (metadata), C06 (identity),
C10 (truth checks).  The same module replays counterexamples natively (no shadows).
"""
from __future__ import annotations

import time
import traceback

import z3

from . import common
from .expr import ClaripyInterp, Z3Interp, consts_of, div_nodes, has_var, show, vars_of, width_of

PROPS = ("C01", "C04", "C05", "C06", "C10")
RESOURCE_CAP = 1 << 24   # bits; shifting by more than this many bits materializes >2 MiB integers per operation


def _free_names(t):
    out = set()
    seen = set()
    stack = [t]
    while stack:
        e = stack.pop()
        if e.get_id() in seen:
            continue
        seen.add(e.get_id())
        if z3.is_const(e) and e.decl().kind() == z3.Z3_OP_UNINTERPRETED:
            out.add(e.decl().name())
        else:
            stack.extend(e.children())
    return out


def _depth(a, memo):
    import claripy

    if not isinstance(a, claripy.ast.Base):
        return 0
    k = id(a)
    if k not in memo:
        memo[k] = 1 + max((_depth(c, memo) for c in a.args), default=0)
    return memo[k]


def _all_widths(t, out=None):
    out = [] if out is None else out
    if isinstance(t, list):
        try:
            w = width_of(t)
        except Exception:  # noqa: BLE001
            w = None
        if w:
            out.append(w)
        for a in t[1:]:
            if isinstance(a, list):
                _all_widths(a, out)
    return out


def bad_rev(t):
    """the tree byte-reverses a non-byte width (documented ClaripyOperationError, possibly raised at translation)"""
    if not isinstance(t, list):
        return False
    if t[0] == "reverse" and (width_of(t[1]) or 8) % 8 != 0:
        return True
    return any(bad_rev(a) for a in t[1:] if isinstance(a, list))


def _allowed_exception(tree, exc, pcsolver):
    """documented conditions: concrete division/remainder by zero; byte-reversal of a non-byte width"""
    from claripy.errors import ClaripyOperationError, ClaripyZeroDivisionError
    from pysym.engine import check_sat

    if isinstance(exc, ClaripyZeroDivisionError):
        divs = div_nodes(tree)
        if not divs:
            return False, "ClaripyZeroDivisionError without a division in the tree"
        zi = Z3Interp()
        unk = False
        for d in divs:
            _, b = zi._pair(d[1], d[2])
            r = check_sat(pcsolver, b != 0)   # over all variable assignments: the divisor is concretely zero
            if r == "unsat":
                return True, ""
            unk = unk or r == "unknown"
        return (None if unk else False), "ClaripyZeroDivisionError although no divisor is concretely zero"
    if isinstance(exc, ClaripyOperationError) and "reverse" in str(exc).lower():
        if bad_rev(tree):
            return True, ""
    return False, f"{type(exc).__name__}: {str(exc)[:200]}"


def metadata_failures(r, got, tree):
    """C05 checks on a result AST r with converted term `got`"""
    import claripy

    fails = []
    if isinstance(r, claripy.ast.Bits):
        if not z3.is_bv(got) or r.length != got.size():
            fails.append(f"length {r.length} but denoted sort {got.sort()}")
        if len(r) != r.length or r.size() != r.length:
            fails.append("len()/size() disagree with length")
    varnames = {v[1] for v in vars_of(tree)}
    free = _free_names(got) & varnames
    if not free <= set(r.variables):
        fails.append(f"variables {sorted(r.variables)} miss occurring {sorted(free - set(r.variables))}")
    if not r.symbolic and (r.variables or free):
        fails.append(f"reported concrete but has variables {sorted(set(r.variables) | free)}")
    memo = {}
    d = _depth(r, memo)
    if r.depth != d:
        fails.append(f"depth {r.depth} but recomputed {d}")
    # every sub-expression too
    for sub in r.children_asts():
        if sub.depth != _depth(sub, memo):
            fails.append(f"sub-expression depth {sub.depth} != {_depth(sub, memo)}")
            break
        if not sub.variables <= r.variables:
            fails.append("sub-expression variables not contained in parent's")
            break
    return fails


class ShapeRun:
    def __init__(self, oid, tree, prop, known, max_paths=1500, query_ms=30000, validate=True):
        self.oid = oid
        self.tree = tree
        self.prop = prop
        self.known = known
        self.max_paths = max_paths
        self.query_ms = query_ms
        self.validate = validate

    def run(self):
        import claripy
        from pysym import engine as E
        from pysym import glue

        glue.install()
        tree = self.tree
        cs = consts_of(tree)
        wmax = max(_all_widths(tree) + [8])
        # model width: room for 2n-bit products and for the 64-bit mask literals inside the rewriter
        from .shapes import is_heavy

        if is_heavy(tree):
            E.set_width(2 * wmax + 8)  # narrow model: wide symbolic multiplication/division does not finish
        else:
            E.set_width(max(2 * wmax + 8, 72) if wmax <= 32 else wmax + 16)
        zc = {i: z3.BitVec(f"c{i}", w) for i, w in cs}
        decls = {f"c{i}": t for i, t in zc.items()}
        for v in vars_of(tree):
            decls[v[1]] = z3.BitVec(v[1], v[2]) if v[0] == "var" else z3.Bool(v[1])
        want = None
        prop = self.prop
        badrev = bad_rev(tree)
        res = common.result(self.oid, "holds")
        res["sample"] = {"obligation": self.oid, "tree": show(tree)}

        def build():
            glue.reset_caches()
            consts = {i: glue.BVV(glue.mk(zc[i]), w) for i, w in cs}
            r = ClaripyInterp(consts).ev(tree)
            out = {"r": r}
            if prop == "C06":
                out["r2"] = ClaripyInterp(consts).ev(tree)
            if prop == "C10" and isinstance(r, claripy.ast.Bool):
                out["t"] = [claripy.is_true(r), r.is_true(), claripy.is_true(r)]
                out["f"] = [claripy.is_false(r), r.is_false(), claripy.is_false(r)]
            return out

        ex = E.explore(build, max_paths=self.max_paths)
        failures = []  # (kind, detail, solver-with-failing-set or None, pc)
        nval = 0
        for path in ex:
            s = E.new_solver(path.pc, self.query_ms)
            if path.kind in ("unknown", "unsupported", "diverged"):
                continue
            fit_ok = True
            for o in path.obligations:
                if E.check_sat(s, z3.Not(o)) != "unsat":
                    res["inconclusive"].append("integer-model obligation (fits) not valid on a path")
                    fit_ok = False
                    break
            if not fit_ok:
                continue
            if prop == "C04" and path.resources:
                # resource obligation: no Python-level shift by an amount the caller can make astronomically large
                big = z3.Or(*[k > RESOURCE_CAP for _, k in path.resources])
                q = E.check_sat(s, big)
                if q == "sat":
                    s.add(big)
                    failures.append(("resource", "a Python integer shift by an unbounded, caller-controlled amount "
                                     "(memory/time exhaustion)", s, None))
                    break
            if path.kind == "exc":
                ok, why = _allowed_exception(tree, path.result, s)
                if ok is None:
                    res["inconclusive"].append("unknown: exception-condition query")
                elif not ok and prop in ("C01", "C04"):
                    if E.check_sat(s) == "sat":
                        tb = "".join(traceback.format_exception(path.result))[-800:]
                        failures.append(("exception", why + "\n" + tb, s, None))
                continue
            out = path.result
            r = out["r"]
            if badrev:
                continue  # the written tree has no SMT-LIB value; only the exception class is checked
            try:
                got = claripy.backends.z3.convert(r)
            except Exception as e:  # noqa: BLE001
                if prop in ("C01",):
                    failures.append(("convert", f"result not translatable: {e!r}", s, None))
                continue
            if want is None:
                want = Z3Interp().ev(tree)
            if prop == "C01":
                if got.sort() != want.sort():
                    failures.append(("sort", f"result sort {got.sort()} != written {want.sort()}", s, None))
                    continue
                s.push()
                s.add(got != want)
                hits, left = common.split_known(s, self.known, decls)
                res["known_hits"] += [h for h in hits if h not in res["known_hits"]]
                if left == "sat":
                    failures.append(("meaning", f"built {r!r:.300}", s, s.model()))
                elif left == "unknown":
                    res["inconclusive"].append("unknown: equivalence query")
                if left != "sat":
                    s.pop()
            elif prop == "C05":
                fl = metadata_failures(r, got, tree)
                if not fl and r.op in ("BVV", "BoolV"):
                    # concrete: concrete_value is the value it denotes
                    try:
                        cv = r.concrete_value
                        cvt = E.term(cv) if isinstance(cv, int) and not isinstance(cv, bool) else None
                        if isinstance(cv, bool):
                            if E.check_sat(s, want != z3.BoolVal(cv)) == "sat":
                                fl.append("concrete_value differs from denoted value")
                        elif cvt is not None and E.check_sat(s, z3.Extract(want.size() - 1, 0, cvt) != want) == "sat":
                            fl.append("concrete_value differs from denoted value")
                    except Exception as e:  # noqa: BLE001
                        fl.append(f"concrete_value raised {e!r}")
                if fl and E.check_sat(s) == "sat":
                    failures.append(("metadata", "; ".join(fl) + f" on {r!r:.200}", s, None))
            elif prop == "C06":
                r2 = out["r2"]
                if r2 is not r and E.check_sat(s) == "sat":
                    failures.append(("identity", f"two builds differ: {r!r:.150} vs {r2!r:.150}", s, None))
            elif prop == "C10" and "t" in out:
                if any(out["t"]):
                    q = E.check_sat(s, z3.Not(want))
                    if q == "sat":
                        failures.append(("is_true", f"is_true answered True on {r!r:.200}", s, None))
                    elif q == "unknown":
                        res["inconclusive"].append("unknown: validity query")
                if any(out["f"]):
                    q = E.check_sat(s, want)
                    if q == "sat":
                        failures.append(("is_false", f"is_false answered True on {r!r:.200}", s, None))
                    elif q == "unknown":
                        res["inconclusive"].append("unknown: validity query")
            # encoding validation: native run on a model of the path condition must give the same AST
            if self.validate and nval < 6 and not failures:
                v = self._validate(path, s, zc, cs, r)
                if v is False:
                    res["status"] = "error"
                    res["detail"] = "encoding validation failed: native run differs from symbolic run"
                    res["paths"] = ex.paths
                    return res
                nval += 1 if v else 0
            if failures:
                break
        res["paths"] = ex.paths
        res["validated"] = nval
        res["inconclusive"] += ex.inconclusive
        if failures:
            kind, detail, s, m = failures[0]
            if m is None:
                E.check_sat(s)
                m = s.model()
            consts = {str(i): m.eval(zc[i], model_completion=True).as_long() for i, _ in cs}
            res["status"] = "violation"
            res["detail"] = f"{kind}: {detail}"
            res["cex"] = [{"harness": "harness.astleg", "prop": prop, "tree": tree, "consts": consts, "kind": kind,
                           "obligation": self.oid, "detail": detail[:500]}]
        elif res["inconclusive"]:
            res["status"] = "inconclusive"
            res["detail"] = res["inconclusive"][0]
        return res

    def _validate(self, path, s, zc, cs, r):
        from pysym import engine as E
        from pysym import glue

        if path.resources:
            s = E.new_solver(path.pc, self.query_ms)
            s.add(*[k <= 4096 for _, k in path.resources])  # keep the native sample cheap (C04 owns the big amounts)
        if E.check_sat(s) != "sat":
            return None
        m = s.model()
        vals = {i: m.eval(zc[i], model_completion=True).as_long() for i, _ in cs}
        sym = _canon(r, m)
        saved = (E.ENG.decisions, E.ENG.pos, E.ENG.pc, E.ENG.obligations)
        try:
            glue.reset_caches()
            import claripy

            consts = {i: claripy.BVV(vals[i], w) for i, w in cs}
            nat = ClaripyInterp(consts).ev(self.tree)
            natc = _canon(nat, None)
        except Exception as e:  # noqa: BLE001
            self.native_exc = f"{type(e).__name__}: {e}"
            return None   # an exception on the native side is C04's subject, not an encoding mismatch
        finally:
            E.ENG.decisions, E.ENG.pos, E.ENG.pc, E.ENG.obligations = saved
        if natc != sym:
            self.mismatch = (sym, natc, vals)
            return False
        return True


def _canon(a, model):
    import claripy
    from pysym.engine import SInt

    if isinstance(a, claripy.ast.Base):
        if a.op == "BVV":
            v = a.args[0]
            if isinstance(v, SInt):
                v = model.eval(v.low(a.args[1]), model_completion=True).as_long()
            return f"BVV({v},{a.args[1]})"
        return a.op + "(" + ",".join(_canon(c, model) for c in a.args) + ")"
    if isinstance(a, SInt):
        return str(model.eval(a.t, model_completion=True).as_signed_long())
    return repr(a)


# ---------------------------------------------------------------------------------------------------------
# native replay (no shadows): used for VIOLATION confirmation and for --replay


def replay(case):
    import claripy
    from claripy.errors import ClaripyOperationError, ClaripyZeroDivisionError

    tree = case["tree"]
    prop = case["prop"]
    cs = consts_of(tree)
    consts = {i: claripy.BVV(int(case["consts"][str(i)]), w) for i, w in cs}
    zi = Z3Interp({i: z3.BitVecVal(int(case["consts"][str(i)]), w) for i, w in cs})
    desc = f"tree={show(tree)} consts={case['consts']}"
    if prop == "C04":
        import resource
        import signal

        resource.setrlimit(resource.RLIMIT_AS, (6 << 30, 6 << 30))

        def _hang(*_):
            raise TimeoutError("construction did not finish in 10 s")

        signal.signal(signal.SIGALRM, _hang)
        signal.alarm(10)   # building one small expression natively takes milliseconds; 10 s is a hang
    try:
        try:
            r = ClaripyInterp(consts).ev(tree)
            r2 = ClaripyInterp(consts).ev(tree)
        finally:
            if prop == "C04":
                signal.alarm(0)
    except Exception as e:  # noqa: BLE001
        s = z3.Solver()
        ok, why = _allowed_exception_native(tree, e, zi)
        if ok:
            return {"violated": False, "detail": f"documented exception {type(e).__name__}; {desc}"}
        return {"violated": prop in ("C01", "C04"), "detail": f"raised {type(e).__name__}: {str(e)[:200]} ({why}); {desc}"}
    if prop == "C04" or bad_rev(tree):
        return {"violated": False, "detail": "no exception natively; " + desc}
    want = zi.ev(tree)
    try:
        got = claripy.backends.z3.convert(r)
    except Exception as e:  # noqa: BLE001
        return {"violated": prop == "C01", "detail": f"result not translatable: {e!r}; {desc}"}
    if prop == "C01":
        if got.sort() != want.sort():
            return {"violated": True, "detail": f"sort {got.sort()} vs {want.sort()}; {desc}"}
        s = z3.Solver()
        s.add(got != want)
        if s.check() == z3.sat:
            m = s.model()
            asg = {str(d): str(m[d]) for d in m.decls()}
            return {"violated": True,
                    "detail": f"claripy built {r!r:.300} which differs from the written tree under {asg}; {desc}"}
        return {"violated": False, "detail": "equivalent natively; " + desc}
    if prop == "C05":
        fl = metadata_failures(r, got, tree)
        if not fl and r.op in ("BVV", "BoolV"):
            cv = r.concrete_value
            w = z3.simplify(want)
            if isinstance(cv, bool):
                if not (z3.is_true(w) if cv else z3.is_false(w)):
                    fl.append("concrete_value differs from denoted value")
            elif z3.is_bv_value(w) and w.as_long() != cv:
                fl.append("concrete_value differs from denoted value")
        return {"violated": bool(fl), "detail": "; ".join(fl) + "; " + desc}
    if prop == "C06":
        return {"violated": r is not r2, "detail": f"two builds identical={r is r2}; " + desc}
    if prop == "C10":
        if isinstance(r, claripy.ast.Bool):
            s = z3.Solver()
            if claripy.is_true(r) or r.is_true():
                if s.check(z3.Not(want)) == z3.sat:
                    return {"violated": True, "detail": f"is_true({r!r:.200}) but the written tree can be false; " + desc}
            if claripy.is_false(r) or r.is_false():
                if s.check(want) == z3.sat:
                    return {"violated": True, "detail": f"is_false({r!r:.200}) but the written tree can be true; " + desc}
        return {"violated": False, "detail": "truth checks sound natively; " + desc}
    return {"violated": False, "detail": "unknown prop"}


def _allowed_exception_native(tree, exc, zi):
    from claripy.errors import ClaripyOperationError, ClaripyZeroDivisionError

    if isinstance(exc, ClaripyZeroDivisionError):
        for d in div_nodes(tree):
            _, b = zi._pair(d[1], d[2])
            s = z3.Solver()
            if s.check(b != 0) == z3.unsat:
                return True, ""
        return False, "no concretely-zero divisor"
    s = z3.Solver()
    ok, why = _allowed_exception(tree, exc, s) if not isinstance(exc, ClaripyZeroDivisionError) else (False, "")
    return bool(ok), why
