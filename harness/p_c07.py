"""check driver for C07 (annotations survive rewriting)"""
from __future__ import annotations

import fnmatch

from . import annleg, common, p_c07_simplify, shapes


def obligations(tier):
    quick = tier == "quick"
    widths = [1, 8] if quick else [1, 4, 8, 32, 64]
    out = []
    seen = set()
    for n in widths:
        lst = list(shapes.seeds(n)) + list(shapes.grammar1(n))
        for name, tree in lst:
            if shapes.is_heavy(tree) and n > 8:
                continue
            oid = f"ann:{name}:{n}"
            if oid in seen:
                continue
            seen.add(oid)
            out.append((oid, {"tree": tree, "n": n}))
    out += p_c07_simplify.obligations(tier)
    return out


def run_obligation(oid, params, tier):
    if oid.startswith("simp:") or oid.startswith("frontend:"):
        return p_c07_simplify.run_obligation(oid, params, tier)
    known = common.known_for(common.load_known("C07"), oid)
    return annleg.AnnRun(oid, params["tree"], tier, known, max_paths=150 if tier == "quick" else 1500).run()


FUNCTIONS = [
    "claripy.operations.op._op / _handle_annotations", "claripy.simplifications.* (all simplifiers, _flatten_simplifier)",
    "claripy.ast.base.Base.__new__ (eager folding, annotation propagation) / make_like / annotate",
    "claripy.ast.bool.If/And/Or/Not", "claripy.algorithm.simplify.simplify",
    "claripy.frontend.constrained_frontend.ConstrainedFrontend.simplify",
]


def check(prop, tier, cap, only=None, procs=None, list_only=False, t0=None):
    obs = obligations(tier)
    if only:
        obs = [o for o in obs if fnmatch.fnmatchcase(o[0], only)]
    if list_only:
        for o, _ in obs:
            print(o)
        return 0
    results = common.run_pool("harness.p_c07", obs, tier, cap, procs=procs)
    quick = tier == "quick"
    bounds = {
        "widths": [1, 8] if quick else [1, 4, 8, 32, 64],
        "shapes": "rule-targeted seeds + all depth-1 trees (the C01 shape pool)",
        "annotation_plans_per_shape": "each non-root node alone x {relocatable, neither}; all leaves x {relocatable, neither, "
                                      "eliminatable}; two mixed assignments over the leaves (distinct annotation objects)",
        "path_budget_per_plan": 150 if quick else 1500,
        "explicit_simplify": "claripy.simplify / ConstrainedFrontend.simplify on the same shapes with concrete boundary constants "
                             "(constants cross libz3, so they are enumerated; the structural assertion needs no solver)",
        "outside": "trees deeper than the seeds, annotation combinations not listed, annotations whose relocate() returns "
                   "a different object",
    }
    return common.finish(
        prop, tier, "translation_validation", results, t0, functions=FUNCTIONS, bounds=bounds,
        assumptions=[
            "every constant position is a solver variable; path feasibility over the constants is decided by Z3",
            "annotation kinds are the three contract classes; relocate() returns the annotation itself (the default)",
            "reachability of an annotation is computed by walking result.args, not from claripy's cached sets",
        ],
        rule="one obligation = one (operation tree, width) run under every annotation plan; every path of the real "
             "constructors/rewriter is explored with symbolic constants and the annotation contract is asserted on each result",
    )
