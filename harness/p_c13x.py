"""C13, non-bit-vector sorts: the replacement solver (default options) and the hybrid solver in exact mode answer as a plain solver does
when the constraints pin floating-point, string and Boolean variables.

The history harness of C13 runs bit-vector histories on the symbolic oracle backend; replacements learned from equalities over OTHER
sorts (IEEE equality is not identity: fpEQ(f, +0.0) also holds for f = -0.0; NaN equals nothing) are exercised here on the real
backends, by SOLVER-GENERATED WITNESSES: for every value class of the pinned constant, both argument orders and both equality
operators, the set of values the solver under test enumerates for the BIT PATTERN of the variable (eval up to 4, min, max,
satisfiable under a sign-bit extra constraint, solution of each candidate pattern) is compared with the set of models an independent
Z3 query has for the same constraints (enumerated by the harness with blocking clauses).

  x:fp:<sort>:<class>:<spelling>     f == c / c == f / fpEQ(f, c) / fpEQ(c, f), classes +0, -0, 1.5, -inf, NaN, smallest subnormal
  x:str:<class>, x:bool:<class>      s == literal, b == literal

Bound: the classes listed, at most 4 models, SolverReplacement / SolverHybrid (exact) / SolverComposite-free.  Exploration on
solver-chosen witnesses, not a decision for all constants.
"""
from __future__ import annotations

import z3

from . import common

FPC = {"pzero": 0.0, "nzero": -0.0, "normal": 1.5, "ninf": float("-inf"), "nan": float("nan"), "subnormal": 5e-324}
SPELL = ("f==c", "c==f", "fpEQ(f,c)", "fpEQ(c,f)")
CLASSES = ("SolverReplacement", "SolverHybrid")


def obligations(tier):
    out = []
    for sort in ("DOUBLE", "FLOAT"):
        for k in FPC:
            for sp in SPELL:
                out.append((f"x:fp:{sort}:{k}:{sp}", {"kind": "fp", "sort": sort, "cls": k, "spell": sp}))
    for k in ("empty", "a", "nul"):
        out.append((f"x:str:{k}", {"kind": "str", "cls": k}))
    for k in ("true", "false"):
        out.append((f"x:bool:{k}", {"kind": "bool", "cls": k}))
    return out


def _models(zcons, zexpr, limit=6):
    s = z3.Solver()
    s.set("timeout", 30000)
    s.add(*zcons)
    vals = []
    while len(vals) < limit:
        r = s.check()
        if r == z3.unknown:
            return None
        if r == z3.unsat:
            break
        v = s.model().eval(zexpr, model_completion=True)
        vals.append(v.as_long() if z3.is_bv(v) else str(v))
        s.add(zexpr != v)
    return sorted(vals)


def run_obligation(oid, p, tier):
    import claripy

    res = common.result(oid, "holds")
    res["paths"] = 0
    res["queries"] = 0
    kind = p["kind"]
    if kind == "fp":
        fs = claripy.fp.FSORT_DOUBLE if p["sort"] == "DOUBLE" else claripy.fp.FSORT_FLOAT
        f = claripy.FPS("wf", fs, explicit_name=True)
        c = claripy.FPV(FPC[p["cls"]], fs)
        con = {"f==c": lambda: f == c, "c==f": lambda: c == f, "fpEQ(f,c)": lambda: claripy.fpEQ(f, c), "fpEQ(c,f)": lambda: claripy.fpEQ(c, f)}[p["spell"]]()
        obs = claripy.fpToIEEEBV(f)
        w = fs.length
        extra = [obs[w - 1:w - 1] == 1]
    elif kind == "str":
        sv = claripy.StringS("ws", explicit_name=True)
        lit = {"empty": "", "a": "a", "nul": "\x00"}[p["cls"]]
        con = sv == claripy.StringV(lit)
        obs = claripy.StrLen(sv)
        extra = [obs == 1]
    else:
        b = claripy.BoolS("wb", explicit_name=True)
        con = b == claripy.BoolV(p["cls"] == "true")
        obs = claripy.If(b, claripy.BVV(1, 8), claripy.BVV(0, 8))
        extra = [obs == 1]
    zc = [claripy.backends.z3.convert(con)]
    zo = claripy.backends.z3.convert(obs)
    want = _models(zc, zo)
    want_x = _models(zc + [claripy.backends.z3.convert(e) for e in extra], zo)
    res["queries"] += 2
    if want is None or want_x is None:
        res["status"] = "inconclusive"
        res["inconclusive"] = ["unknown: reference enumeration"]
        return res
    res["sample"] = {"obligation": oid, "constraint": repr(con)[:120], "reference_models": [hex(v) if isinstance(v, int) else v for v in want]}
    bad = None
    for cls in CLASSES:
        for pre in ("fresh", "queried"):
            s = getattr(claripy, cls)()
            s.add(con)
            res["paths"] += 1
            if pre == "queried":
                s.satisfiable()

            def ask(fn):
                try:
                    return fn()
                except claripy.errors.UnsatError:
                    return "unsat"

            got = ask(lambda: sorted(s.eval(obs, 6)))
            exp = want if want else "unsat"
            if got != exp:
                bad = f"{cls} ({pre}) with {con!r:.80}: eval of the bit pattern gives {got}, the constraint's models are {exp}"
                break
            if s.satisfiable() != bool(want):
                bad = f"{cls} ({pre}) with {con!r:.80}: satisfiable() = {not bool(want)}"
                break
            if s.satisfiable(extra_constraints=extra) != bool(want_x):
                bad = f"{cls} ({pre}) with {con!r:.80}: satisfiable(extra={extra[0]!r:.60}) = {not bool(want_x)}, models with the extra constraint: {want_x}"
                break
            if want:
                mn, mx = ask(lambda: s.min(obs)), ask(lambda: s.max(obs))
                if (mn, mx) != (want[0], want[-1]):
                    bad = f"{cls} ({pre}) with {con!r:.80}: min / max of the bit pattern = {mn} / {mx}, models {want}"
                    break
                for v in want:
                    if ask(lambda v=v: s.solution(obs, v)) is not True:
                        bad = f"{cls} ({pre}) with {con!r:.80}: solution(bits, {v:#x}) is not True although it is a model"
                        break
                if bad:
                    break
                b2 = s.branch()
                b2.add(extra[0])
                if b2.satisfiable() != bool(want_x):
                    bad = f"{cls} ({pre}) with {con!r:.80}: branch + add({extra[0]!r:.60}): satisfiable() = {not bool(want_x)}"
                    break
        if bad:
            break
    if bad:
        res["status"] = "violation"
        res["detail"] = bad
        res["cex"] = [{"harness": "harness.p_c13x", "params": p, "vals": {}, "obligation": oid, "detail": bad[:300]}]
    return res


def replay(case):
    r = run_obligation(case["obligation"], case["params"], "quick")
    return {"violated": r["status"] == "violation", "detail": r.get("detail", "")}
