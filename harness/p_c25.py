"""C25: constraint_to_si never cuts off a satisfying assignment.

claripy.constraint_to_si(c) / Balancer(c) run on constraints whose constants are symbolic (pysym); the VSA calls
inside (min/max/eval/is_true/cardinality, interval arithmetic) run on the same shadows.  Per explored path Z3 decides,
for all constants of the path and every assignment of the variables that satisfies c (claripy's own Z3 translation
of c is the meaning; C01 owns that translation):
    * the sat flag is True;
    * for every returned (expr, bound): value(expr) is in gamma(backends.vsa.convert(bound)).
Counterexamples are replayed natively: concrete constants, and the violating assignment is confirmed by folding c and
the bounded expression with claripy's concrete backend (no solver in the replay oracle).
"""
from __future__ import annotations

import fnmatch

import z3

from . import common, symrun, vsaglue
from .symrun import Fail

CMPS = ["ULE", "ULT", "UGE", "UGT", "SLE", "SLT", "SGE", "SGT", "eq", "ne"]


def _cmp(cl, op, a, b):
    if op == "eq":
        return a == b
    if op == "ne":
        return a != b
    return getattr(cl, op)(a, b)


def lhs_shapes(N):
    """name -> (builder(cl, x, y, K) -> BV expression, number of constants used, result width)"""
    h = max(1, N // 2)
    S = {
        "x": lambda cl, x, y, K: x,
        "x+k": lambda cl, x, y, K: x + K[1],
        "k+x": lambda cl, x, y, K: K[1] + x,
        "x-k": lambda cl, x, y, K: x - K[1],
        "k-x": lambda cl, x, y, K: K[1] - x,
        "x+y": lambda cl, x, y, K: x + y,
        "x+y+k": lambda cl, x, y, K: x + y + K[1],
        "x-y": lambda cl, x, y, K: x - y,
        "x+1+k": lambda cl, x, y, K: (x + 1) + K[1],
        "ext-low": lambda cl, x, y, K: x[h - 1:0],
        "ext-high": lambda cl, x, y, K: x[N - 1:h],
        "ext-mid": lambda cl, x, y, K: x[N - 2:1] if N >= 3 else x[0:0],
        "ext-low-of-add": lambda cl, x, y, K: (x + K[1])[h - 1:0],
        "zext": lambda cl, x, y, K: cl.ZeroExt(h, x),
        "zext-ext": lambda cl, x, y, K: cl.ZeroExt(N - h, x[h - 1:0]),
        "sext": lambda cl, x, y, K: cl.SignExt(h, x),
        "concat0x": lambda cl, x, y, K: cl.Concat(cl.BVV(0, h), x),
        "concatx0": lambda cl, x, y, K: cl.Concat(x, cl.BVV(0, h)),
        "concatkx": lambda cl, x, y, K: cl.Concat(K[1][h - 1:0], x),
        "concatxy": lambda cl, x, y, K: cl.Concat(x[h - 1:0], y[N - h - 1:0]) if N - h >= 1 else x,
        "and-lowmask": lambda cl, x, y, K: x & ((1 << h) - 1),
        "and-k": lambda cl, x, y, K: x & K[1],
        "zext-and-mask": lambda cl, x, y, K: cl.ZeroExt(h, x) & ((1 << N) - 1),
        "zext-and-narrowmask": lambda cl, x, y, K: cl.ZeroExt(h, x) & ((1 << (N - 1)) - 1),
        "zext-add1-and-narrowmask": lambda cl, x, y, K: cl.ZeroExt(h, x + 1) & ((1 << (N - 1)) - 1),
        "shl1": lambda cl, x, y, K: x << 1,
        "zext-shl1": lambda cl, x, y, K: cl.ZeroExt(h, x) << 1,
        "zext-shl-h": lambda cl, x, y, K: cl.ZeroExt(h + 1, x) << h,
        "shl-k": lambda cl, x, y, K: x << K[1],
        "shl-h": lambda cl, x, y, K: x << h,
        "if-cmp": lambda cl, x, y, K: cl.If(cl.ULE(x, K[1]), x, K[2]),
        "if-b": lambda cl, x, y, K: cl.If(cl.BoolS("b", explicit_name=True), x, y),
        "if-b-k": lambda cl, x, y, K: cl.If(cl.BoolS("b", explicit_name=True), x, K[1]),
        "if-b-kk": lambda cl, x, y, K: cl.If(cl.BoolS("b", explicit_name=True), K[1], K[2]),
        "if-cmp-1-0": lambda cl, x, y, K: cl.If(cl.ULE(x, K[1]), cl.BVV(1, N), cl.BVV(0, N)),
        "neg": lambda cl, x, y, K: -x,
        "not": lambda cl, x, y, K: ~x,
        "xor-k": lambda cl, x, y, K: x ^ K[1],
        "or-k": lambda cl, x, y, K: x | K[1],
        "mul2": lambda cl, x, y, K: x * 2,
        "lshr1": lambda cl, x, y, K: cl.LShR(x, 1),
    }
    if N % 8 == 0:
        S["reverse"] = lambda cl, x, y, K: cl.Reverse(x)
    return S


def bool_shapes(N):
    """compound constraints: name -> builder(cl, x, y, K) -> Bool"""
    return {
        "and-range": lambda cl, x, y, K: cl.And(cl.UGE(x, K[0]), cl.ULE(x, K[1])),
        "and-srange": lambda cl, x, y, K: cl.And(cl.SGE(x, K[0]), cl.SLE(x, K[1])),
        "or-eq": lambda cl, x, y, K: cl.Or(x == K[0], x == K[1]),
        "or-false": lambda cl, x, y, K: cl.Or(cl.ULT(x, K[0]), cl.false()),
        "not-ule": lambda cl, x, y, K: cl.Not(cl.ULE(x, K[0])),
        "not-and": lambda cl, x, y, K: cl.Not(cl.And(cl.ULE(x, K[0]), cl.UGE(x, K[1]))),
        "not-or": lambda cl, x, y, K: cl.Not(cl.Or(cl.ULE(x, K[0]), cl.UGE(x, K[1]))),
        "and-xy": lambda cl, x, y, K: cl.And(cl.ULE(x, K[0]), cl.UGE(y, K[1])),
        "and-same": lambda cl, x, y, K: cl.And(cl.ULE(x, K[0]), cl.ULE(x, K[1])),
        "and-ne": lambda cl, x, y, K: cl.And(x != K[0], cl.ULE(x + 1, K[1])),
        "if-bool": lambda cl, x, y, K: cl.If(cl.ULE(x, K[0]), cl.UGE(x, K[1]), cl.false()),
        "if-bool2": lambda cl, x, y, K: cl.If(cl.ULE(x, K[0]), cl.false(), cl.UGE(y, K[1])),
        "eq-xy": lambda cl, x, y, K: x == y,
        "ule-xy": lambda cl, x, y, K: cl.ULE(x, y),
        "bool-var": lambda cl, x, y, K: cl.BoolS("b", explicit_name=True),
        "true": lambda cl, x, y, K: cl.true(),
        "false": lambda cl, x, y, K: cl.false(),
        "k-cmp-k": lambda cl, x, y, K: cl.ULE(K[0], K[1]),
        # a disjunction that cannot be unpacked (no disjunct is definitely false)
        "or-uge-ult": lambda cl, x, y, K: cl.Or(cl.UGE(x, K[0]), cl.ULT(x, K[1])),
        "or-ule-eq": lambda cl, x, y, K: cl.Or(cl.ULE(x, K[0]), x == K[1]),
        "not-and-xy": lambda cl, x, y, K: cl.Not(cl.And(cl.ULE(x, K[0]), cl.SLT(y, K[1]))),
        "not-and-same": lambda cl, x, y, K: cl.Not(cl.And(cl.ULT(x, K[0]), cl.ULT(y, K[0]))),
        # signed and unsigned bounds on one expression
        "and-ne-slt": lambda cl, x, y, K: cl.And(x != K[0], cl.SLT(x, K[1])),
        "and-slt-ult": lambda cl, x, y, K: cl.And(cl.SLT(x, K[0]), cl.ULT(x, K[1])),
        "and-sge-ule": lambda cl, x, y, K: cl.And(cl.SGE(x, K[0]), cl.ULE(x, K[1])),
    }


def build_constraint(cl, N, name, x, y, K):
    kind, rest = name.split("|", 1)
    if kind == "b":
        return bool_shapes(N)[rest](cl, x, y, K)
    shape, op, side = rest.split("|")
    lhs = lhs_shapes(N)[shape](cl, x, y, K)
    w = lhs.length
    rhs = K[0] if w == N else (cl.ZeroExt(w - N, K[0]) if w > N else K[0][w - 1:0])
    return _cmp(cl, op, lhs, rhs) if side == "l" else _cmp(cl, op, rhs, lhs)


ADDSUB_TERMS = {"x+k": [("x", 1), ("k", 1)], "k+x": [("k", 1), ("x", 1)], "x-k": [("x", 1), ("k", -1)], "k-x": [("k", 1), ("x", -1)], "x+y": [("x", 1), ("y", 1)],
                "x+y+k": [("x", 1), ("y", 1), ("k", 1)], "x-y": [("x", 1), ("y", -1)], "x+1+k": [("x", 1), ("1", 1), ("k", 1)]}


def addsub_wrap_region(shape, N, zx, zy, zk, op="ULE"):
    """the region of the known finding C25-addsub-ordered-wrap for a sum / difference under an ordered comparison with the constant c:
    SOME step of the written sum, or of moving its other terms across the comparison (c -/+ term), wraps around in the unsigned or in the
    signed reading.  Outside this region modular and mathematical arithmetic agree and the balancer's rule is sound: a counterexample there
    is a different defect."""
    terms = ADDSUB_TERMS.get(shape)
    if terms is None:
        return None
    val = {"x": zx, "y": zy, "k": zk[1], "1": z3.BitVecVal(1, N)}
    c = zk[0]
    W = N + 4
    ok = []
    for ext in (lambda t: z3.ZeroExt(W - N, t), lambda t: z3.SignExt(W - N, t)):
        lo, hi = (0, (1 << N) - 1)
        # decide the reading by what ext does to the all-ones pattern
        if z3.simplify(ext(z3.BitVecVal((1 << N) - 1, N))).as_signed_long() < 0:
            lo, hi = -(1 << (N - 1)), (1 << (N - 1)) - 1

        def inr(t):
            return z3.And(t >= lo, t <= hi)

        acc = None
        for name, sg in terms:                      # the sum as written
            t = ext(val[name])
            acc = (t if sg > 0 else -t) if acc is None else (acc + t if sg > 0 else acc - t)
            ok.append(inr(acc))
        # the balancer also queues an implicit assumption about the whole sum (sum >= 0 for ULE/ULT, sum <= max for UGE/UGT, the signed
        # extremes for the signed comparisons) and moves the same terms across it
        m = (1 << N) - 1
        assumed = {"ULE": 0, "ULT": 0, "UGE": m, "UGT": m, "SLE": 1 << (N - 1), "SLT": 1 << (N - 1), "SGE": m >> 1, "SGT": m >> 1}.get(op)
        for const in [c] + ([z3.BitVecVal(assumed, N)] if assumed is not None else []):
            acc = ext(const)
            for name, sg in terms:                  # every term moved across: c - (+t), c + (-t)
                if name == "x":
                    continue
                t = ext(val[name])
                acc = acc - t if sg > 0 else acc + t
                ok.append(inr(acc))
        for name, sg in terms:                      # k - x <op> c is also read as x <op'> k - c
            if name != "x":
                ok.append(inr(ext(val[name]) - ext(c)))
    return z3.Not(z3.And(*ok))


def obligations(tier):
    quick = tier == "quick"
    out = []
    for N in ([3] if quick else [3, 4, 6, 8]):
        for var in ["bvs", "sic0", "sic1", "sic2", "si1", "si"]:
            if var == "si" and (quick or N > 3):
                continue   # fully symbolic annotation: thorough tier, smallest width
            if var == "si1" and (quick or N > 4):
                continue   # symbolic bounds, stride 1: thorough tier
            for si_, shape in enumerate(lhs_shapes(N)):
                for op in CMPS:
                    for side in ("l", "r"):
                        if quick and var != "bvs" and (side == "r" or op not in ("ULE", "SGE", "eq") or shape not in SI_QUICK_SHAPES):
                            continue
                        if quick and var == "bvs":
                            # quick tier: the ordered comparisons alternate between shapes (every rule still meets an upper-bound,
                            # a lower-bound, a signed and a reversed comparison); the thorough tier runs all of them on every shape
                            allowed = {("ULE", "l"), ("UGE", "l"), ("eq", "l"), ("ULT", "l"), ("SGE", "l"), ("ne", "l")} if si_ % 2 == 0 else \
                                      {("ULE", "l"), ("UGE", "l"), ("eq", "l"), ("UGT", "l"), ("SLT", "l"), ("ULE", "r"), ("ULT", "l")}
                            if (op, side) not in allowed:
                                continue
                        out.append((f"c2si:{var}:{N}:c|{shape}|{op}|{side}",
                                    {"N": N, "var": "si" if var != "bvs" else "bvs", "stride1": var == "si1", "conc": _conc(var, N), "name": f"c|{shape}|{op}|{side}"}))
            for shape in bool_shapes(N):
                if quick and var != "bvs":
                    continue
                out.append((f"c2si:{var}:{N}:b|{shape}", {"N": N, "var": "si" if var != "bvs" else "bvs", "stride1": var == "si1", "conc": _conc(var, N), "name": f"b|{shape}"}))
    return out


def _conc(var, N):
    """concrete annotations (stride, lb, ub) for x and y of the sicK variants"""
    if not var.startswith("sic"):
        return None
    m = (1 << N) - 1
    return {"sic0": [[1, 1, m - 2], [1, 0, m >> 1]], "sic1": [[2, 0, m - 1], [1, 2, 3]], "sic2": [[0, m >> 1, m >> 1], [1, 0, m]]}[var]


SI_QUICK_SHAPES = {"x", "x+k", "x-k", "ext-low", "zext", "concat0x", "and-lowmask", "if-cmp", "shl1"}


def _mk_vars(cl, N, var, A=None, Bv=None, native=None):
    """x, y as plain BVS or as SI-annotated variables"""
    from pysym import engine as E

    if var == "bvs":
        return cl.BVS("x", N, explicit_name=True), cl.BVS("y", N, explicit_name=True)
    if native is not None:
        a, b = native
        return (cl.SI(name="x", bits=N, stride=a[0], lower_bound=a[1], upper_bound=a[2], explicit_name=True),
                cl.SI(name="y", bits=N, stride=b[0], lower_bound=b[1], upper_bound=b[2], explicit_name=True))
    mk = lambda P: [E.SInt.unsigned(t) for t in P]  # noqa: E731
    a, b = mk(A), mk(Bv)
    return (cl.SI(name="x", bits=N, stride=a[0], lower_bound=a[1], upper_bound=a[2], explicit_name=True),
            cl.SI(name="y", bits=N, stride=b[0], lower_bound=b[1], upper_bound=b[2], explicit_name=True))


def run_obligation(oid, params, tier):
    import claripy
    from pysym import engine as E
    from pysym import glue

    vsaglue.install()
    N, var, name = params["N"], params["var"], params["name"]
    zk = [z3.BitVec(f"k{i}", N) for i in range(3)]
    A = [z3.BitVec(f"a_{f}", N) for f in ("s", "lb", "ub")]
    Bv = [z3.BitVec(f"b_{f}", N) for f in ("s", "lb", "ub")]
    zx, zy = z3.BitVec("x", N), z3.BitVec("y", N)
    zconsts = {str(t): t for t in (*zk, *A, *Bv, zx, zy, z3.Bool("b"))}
    pre = []
    if var == "si":
        # annotated variables: well-formed, non-wrapping (lb <=u ub) intervals; wrapping strided operands are the subject of
        # C21/C22 (and of their known findings)
        pre = [vsaglue.wellformed(*A), vsaglue.wellformed(*Bv), z3.ULE(A[1], A[2]), z3.ULE(Bv[1], Bv[2])]
        if params.get("conc"):
            ca, cb = params["conc"]
            pre += [A[i] == z3.BitVecVal(ca[i], N) for i in range(3)] + [Bv[i] == z3.BitVecVal(cb[i], N) for i in range(3)]
        if params.get("stride1"):
            pre += [A[0] == z3.If(A[1] == A[2], z3.BitVecVal(0, N), z3.BitVecVal(1, N)), Bv[0] == z3.If(Bv[1] == Bv[2], z3.BitVecVal(0, N), z3.BitVecVal(1, N))]
    dom = [vsaglue.member(zx, *A), vsaglue.member(zy, *Bv)] if var == "si" else []
    known = common.known_for(common.load_known("C25"), oid)

    def classify(m):
        def ev(v):
            if isinstance(v, E.SInt):
                return m.eval(E.term(v), model_completion=True).as_long()
            return int(v)

        return "inherits" if vsaglue.attribute(ev) else None

    def build():
        E.FORMAT_MODE[0] = "concretize"
        vsaglue.reset_calls()
        try:
            if pre:
                E.ENG.assume(z3.And(*pre))
            K = [glue.BVV(glue.mk(k), N) for k in zk]
            x, y = _mk_vars(claripy, N, var, A, Bv, native=params.get("conc"))
            c = build_constraint(claripy, N, name, x, y, K)
            if not isinstance(c, claripy.ast.Bool):
                return None
            sat, repl = claripy.constraint_to_si(c)
            out = []
            for old, new in repl:
                out.append((old, new, claripy.backends.vsa.convert(new)))
            return c, sat, out
        finally:
            E.FORMAT_MODE[0] = "opaque"

    def check(path, s, out):
        if path.kind == "exc":
            e = path.result
            return [Fail("exception", f"constraint_to_si raised {type(e).__name__}: {str(e)[:160]}", None,
                         known_key="exc:" + type(e).__name__)]
        if out is None:
            return []
        c, sat, repl = out
        zc = claripy.backends.z3.convert(c)
        fails = []
        base = z3.And(zc, *dom)
        parts = name.split("|")
        # (with the constant on the left the comparison is mirrored before it is balanced)
        mirror = {"ULE": "UGE", "ULT": "UGT", "UGE": "ULE", "UGT": "ULT", "SLE": "SGE", "SLT": "SGT", "SGE": "SLE", "SGT": "SLT"}
        region = addsub_wrap_region(parts[1], N, zx, zy, zk, parts[2] if parts[3] == "l" else mirror.get(parts[2], parts[2])) \
            if parts[0] == "c" and parts[2] not in ("eq", "ne") else None
        kr = {"C25-addsub-ordered-wrap": region} if region is not None else None
        if not sat:
            f = Fail("sat-flag", f"constraint_to_si({c!r:.160}) reports unsatisfiable, but an assignment satisfies it", base,
                     known_key="sat-flag", classify=classify)
            f.known_region = kr
            return [f]
        bads = []
        for old, new, av in repl:
            zo = claripy.backends.z3.convert(old)
            ni = vsaglue.not_in(av, zo)
            if isinstance(ni, str):
                fails.append(Fail("structure", f"bound for {old!r:.80}: {ni}"))
                continue
            bads.append(ni)
        if bads:
            fails.append(Fail("bound", f"constraint_to_si({c!r:.160}) bounds {[(repr(o)[:40], repr(a)[:60]) for o, _, a in repl]} "
                                       f"exclude the value of a satisfying assignment", z3.And(base, z3.Or(*bads)), known_key="bound", classify=classify))
            fails[-1].known_region = kr
        return fails

    def make_case(vals, f):
        return {"harness": "harness.p_c25", "N": N, "var": var, "name": name, "vals": vals, "obligation": oid,
                "fail_kind": f.kind, "detail": f.detail[:300]}

    r = symrun.run(oid, width=3 * N + 8, zconsts=zconsts, build=build, check=check, make_case=make_case,
                   max_paths=400 if tier == "quick" else 5000, known=known, sample={"obligation": oid, "constraint": name})
    return r


# ---------------------------------------------------------------------------------------------------------


def _fold(cl, e, asg):
    """value of AST e under the assignment {leaf AST: python value} using only claripy's concrete backend"""
    for v, val in asg:
        if v.op == "BoolS":
            e = cl.replace(e, v, cl.BoolV(bool(val)))
        else:
            e = cl.replace(e, v, cl.BVV(int(val), v.length))
    return cl.backends.concrete.eval(e, 1)[0] if not isinstance(e, cl.ast.Bool) else cl.backends.concrete.is_true(e)


def replay(case):
    import itertools

    import claripy

    from .p_vsa import py_members

    N, var, name, vals = case["N"], case["var"], case["name"], case["vals"]
    K = [claripy.BVV(int(vals.get(f"k{i}", 0)), N) for i in range(3)]
    a = [int(vals.get(f"a_{f}", 0)) for f in ("s", "lb", "ub")]
    b = [int(vals.get(f"b_{f}", 0)) for f in ("s", "lb", "ub")]
    x, y = _mk_vars(claripy, N, var, native=(a, b))
    desc = f"{name} N={N} var={var} k={[k.args[0] for k in K]}" + (f" x in {a[0]}[{a[1]},{a[2]}] y in {b[0]}[{b[1]},{b[2]}]" if var == "si" else "")
    c = build_constraint(claripy, N, name, x, y, K)
    try:
        sat, repl = claripy.constraint_to_si(c)
        repl = [(old, claripy.backends.vsa.convert(new)) for old, new in repl]
    except Exception as e:  # noqa: BLE001
        return {"violated": True, "detail": f"constraint_to_si({c!r:.200}) raised {type(e).__name__}: {str(e)[:200]}; {desc}"}
    # enumerate assignments natively (the variables that occur; plain variables range over everything)
    xb = claripy.BVS("x", N, explicit_name=True) if var == "bvs" else x
    leaves = [v for v in c.leaf_asts() if v.op in ("BVS", "BoolS")]
    uniq = []
    for v in leaves:
        if all(v is not u for u in uniq):
            uniq.append(v)
    doms = []
    for v in uniq:
        if v.op == "BoolS":
            doms.append([False, True])
        elif var == "si" and v.args[0] in ("x", "y"):
            t = a if v.args[0] == "x" else b
            doms.append(sorted(py_members(N, *t)))
        else:
            doms.append(range(1 << v.length))
    total = 1
    for d in doms:
        total *= len(d)
    if total > 1 << 17:
        return {"violated": False, "error": True, "detail": "assignment space too large for the native oracle; " + desc}
    for combo in itertools.product(*doms):
        asg = list(zip(uniq, combo))
        # strip annotations for folding: replace the annotated leaf by a constant
        if not _fold(claripy, c, asg):
            continue
        if not sat:
            return {"violated": True, "detail": f"constraint_to_si({c!r:.200}) says unsatisfiable but {dict((v.args[0], val) for v, val in asg)} satisfies it; {desc}"}
        for old, av in repl:
            val = _fold(claripy, old, asg)
            if not vsaglue.py_covers(av, val):
                return {"violated": True, "detail": f"constraint_to_si({c!r:.200}) bounds {old!r:.60} to {av!r:.80}, but the satisfying assignment "
                                                    f"{dict((v.args[0], vv) for v, vv in asg)} gives it the value {val}; {desc}"}
    return {"violated": False, "detail": f"no satisfying assignment is cut off natively (sat={sat}, bounds={repl!r:.200}); {desc}"}


FUNCTIONS = [
    "claripy.ast.bool.constraint_to_si", "claripy.backends.backend_vsa.backend_vsa.BackendVSA.constraint_to_si / convert / min / max / eval / is_true / is_false / has_true / cardinality",
    "claripy.backends.backend_vsa.balancer.Balancer (all _balance_*, _handle_*, _align_*, _unpack_truisms*, _get_assumptions, _replacements_iter)",
    "claripy.backends.backend_vsa.strided_interval.StridedInterval (as called by the above)", "claripy.algorithm.ite_relocation.excavate_ite",
]


def check(prop, tier, cap, only=None, procs=None, list_only=False, t0=None):
    obs = obligations(tier)
    if only:
        obs = [o for o in obs if fnmatch.fnmatchcase(o[0], only)]
    if list_only:
        for o, _ in obs:
            print(o)
        return 0
    results = common.run_pool("harness.p_c25", obs, tier, cap, procs=procs)
    quick = tier == "quick"
    return common.finish(
        prop, tier, "translation_validation", results, t0, functions=FUNCTIONS,
        bounds={"widths": [4] if quick else [3, 4, 6, 8],
                "constraints": "10 comparisons x 38 left-hand shapes (add, sub, extract, concat, zero/sign extension, and, shift, If, ...) on either "
                               "side + 18 compound constraints (And/Or/Not/If); variables plain or annotated with a symbolic strided interval",
                "path_budget": 400 if quick else 5000, "wall_cap_s": cap,
                "outside": "wider variables, deeper constraints, more than two variables"},
        assumptions=["every constant (and, for annotated variables, stride/lower/upper of the annotation, assumed well-formed) is a solver variable",
                     "meaning of c and of the bounded expressions = claripy's own Z3 translation (validated by C01)",
                     "gamma as in C21", "shims: " + "; ".join(vsaglue.SHIMS)],
        rule="one obligation = one constraint shape x width x variable kind; every path of constraint_to_si is explored on symbolic constants "
             "and Z3 decides 'c satisfied => sat flag and every bound contains the value' for all constants and assignments",
        trusted_base=["z3 4.13.0", "pysym operator models", "gamma formula", "shims listed in assumptions"],
    )
