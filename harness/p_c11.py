"""C11: solver answers are correct after any sequence of operations (Solver, SolverCacheless, SolverStrings on the oracle backend)"""
from __future__ import annotations

import fnmatch
import itertools

from . import common, p_hist, p_z3kernel

A, U = "x<=K0", "x>=K1"


def targeted():
    """one family per caching mechanism in the mixins (DESIGN appendix C); e ranges over a few expressions"""
    H = {}
    for e in ("x", "x+1", "x&K0"):
        for q in ("min", "max"):
            for signed in (False, True):
                H[f"exh-eval-{q}-{'s' if signed else 'u'}-{e}"] = [("add", 0, [A]), ("eval", 0, e, 9, []), (q, 0, e, signed, [])]
                H[f"exh-eval-{q}-{'s' if signed else 'u'}-extra-{e}"] = [("add", 0, [A]), ("eval", 0, e, 9, []), (q, 0, e, signed, ["x!=K2"])]
                H[f"{q}-then-{q}-flip-{'s' if signed else 'u'}-{e}"] = [("add", 0, [A]), (q, 0, e, signed, []), (q, 0, e, not signed, [])]
                H[f"{q}-then-extra-{'s' if signed else 'u'}-{e}"] = [("add", 0, [A]), (q, 0, e, signed, []), (q, 0, e, signed, ["x!=K2"])]
                H[f"{q}-add-{q}-{'s' if signed else 'u'}-{e}"] = [("add", 0, [A]), (q, 0, e, signed, []), ("add", 0, ["x!=K2"]), (q, 0, e, signed, [])]
    for e in ("x", "x+1"):
        H[f"max-then-eval-{e}"] = [("add", 0, [A]), ("max", 0, e, False, []), ("eval", 0, "x", 3, [])]
        H[f"min-then-eval-{e}"] = [("add", 0, [U]), ("min", 0, e, False, []), ("eval", 0, "x", 3, [])]
        H[f"solution-false-then-eval-{e}"] = [("add", 0, [A]), ("solution", 0, e, 2, []), ("eval", 0, e, 3, [])]
        H[f"eval-few-then-eval-{e}"] = [("add", 0, [A]), ("eval", 0, e, 2, []), ("eval", 0, e, 9, [])]
        H[f"eval-extra-then-eval-{e}"] = [("add", 0, [A]), ("eval", 0, e, 9, ["x!=K2"]), ("eval", 0, e, 9, [])]
    H["trivial-model-eval"] = [("add", 0, ["x==K0"]), ("eval", 0, "x", 2, []), ("add", 0, ["x!=K2"]), ("eval", 0, "x", 2, [])]
    H["trivial-model-minmax"] = [("add", 0, ["x==K0"]), ("min", 0, "x", True, []), ("max", 0, "x+1", False, []), ("add", 0, ["x<=sK1"]), ("sat", 0, [])]
    H["trivial-model-second-var"] = [("add", 0, ["x==K0"]), ("eval", 0, "x+y", 3, []), ("add", 0, ["y<=K2"]), ("eval", 0, "y", 9, [])]
    H["ne-shortcut"] = [("add", 0, ["x!=K0"]), ("sat", 0, []), ("eval", 0, "x", 3, [])]
    H["ne-shortcut-eval-all"] = [("add", 0, ["x!=K0"]), ("sat", 0, []), ("eval", 0, "x", 9, []), ("max", 0, "x", False, [])]
    H["eq-shortcut-then-add"] = [("add", 0, ["x==K0"]), ("sat", 0, []), ("add", 0, ["x<=sK1"]), ("sat", 0, []), ("eval", 0, "x", 2, [])]
    H["sat-cache-contradiction"] = [("add", 0, [A]), ("add", 0, ["x>K2"]), ("sat", 0, []), ("solution", 0, "x", 1, []), ("sat", 0, [])]
    H["sat-cache-solution-unsat"] = [("add", 0, [A, "x>K2"]), ("solution", 0, "x", 1, []), ("sat", 0, []), ("eval", 0, "x", 1, [])]
    H["sat-cache-false"] = [("add", 0, [A]), ("sat", 0, []), ("add", 0, ["false"]), ("sat", 0, []), ("eval", 0, "x", 1, [])]
    H["sat-extra-then-sat"] = [("add", 0, [A]), ("sat", 0, ["x>K2"]), ("sat", 0, []), ("sat", 0, ["x==K1"])]
    H["eval-unsat-then-sat"] = [("add", 0, [A, U]), ("eval", 0, "x", 2, []), ("sat", 0, []), ("min", 0, "x", False, [])]
    H["eval-extra-unsat-then-sat"] = [("add", 0, [A]), ("eval", 0, "x", 2, ["x>K2"]), ("sat", 0, []), ("eval", 0, "x", 2, [])]
    H["model-invalidation"] = [("add", 0, [A]), ("eval", 0, "x", 2, []), ("add", 0, ["x!=K2"]), ("eval", 0, "x", 9, []), ("sat", 0, ["x==K1"])]
    H["model-invalidation-2"] = [("add", 0, [A]), ("eval", 0, "x", 3, []), ("add", 0, ["x>=K1"]), ("min", 0, "x", False, []), ("eval", 0, "x", 9, [])]
    H["batch-then-single"] = [("add", 0, [A, "y<=K2"]), ("batch", 0, ["x", "y"], 3, []), ("eval", 0, "x", 9, []), ("max", 0, "y", False, [])]
    H["batch-dup-expr"] = [("add", 0, [A]), ("batch", 0, ["x", "x+1"], 9, []), ("batch", 0, ["x+1", "x"], 2, ["x!=K2"])]
    H["solution-true-then-minmax"] = [("add", 0, [A]), ("solution", 0, "x", 1, []), ("min", 0, "x", False, []), ("max", 0, "x", True, [])]
    H["solution-extra"] = [("add", 0, [A]), ("solution", 0, "x", 1, ["x!=K2"]), ("solution", 0, "x", 1, []), ("solution", 0, "x+1", 2, [])]
    H["is-true-false"] = [("add", 0, [A]), ("is_true", 0, "x<=K0", []), ("is_false", 0, "x>K2", []), ("is_true", 0, "true", []), ("is_false", 0, "x!=K0", ["x==K0"])]
    H["or-constraint"] = [("add", 0, ["x==K0|x==K1"]), ("eval", 0, "x", 9, []), ("min", 0, "x", True, []), ("add", 0, ["x!=K0"]), ("eval", 0, "x", 9, [])]
    H["mask-constraint"] = [("add", 0, ["x&K0==K1"]), ("eval", 0, "x", 9, []), ("max", 0, "x", False, []), ("min", 0, "x&K0", False, [])]
    H["two-vars"] = [("add", 0, ["x+y==K0"]), ("eval", 0, "x", 9, []), ("add", 0, ["y==K1"]), ("eval", 0, "x", 9, []), ("max", 0, "x+y", False, [])]
    H["unconstrained-var"] = [("add", 0, [A]), ("eval", 0, "y", 9, []), ("min", 0, "y", False, []), ("eval", 0, "x+y", 3, [])]
    H["pending-add-then-branch"] = [("add", 0, [A]), ("eval", 0, "x", 2, []), ("add", 0, [U]), ("branch", 0, 1), ("sat", 1, []), ("eval", 1, "x", 9, []), ("min", 1, "x", False, [])]
    H["pending-unsat-add-then-branch"] = [("add", 0, [A]), ("sat", 0, []), ("add", 0, ["x>K2"]), ("branch", 0, 1), ("sat", 1, []), ("sat", 0, [])]
    # a variable the constraints do not mention: what is cached about it must not outlive the query that found it
    H["unconstrained-min-solution-min"] = [("add", 0, [A]), ("min", 0, "y", False, []), ("solution", 0, "y", 1, []), ("min", 0, "y", False, []), ("max", 0, "y", False, []),
                                           ("solution", 0, "y", 2, []), ("max", 0, "y", False, [])]
    H["empty-min-solution-min"] = [("min", 0, "x", False, []), ("solution", 0, "x", 1, []), ("min", 0, "x", False, []), ("max", 0, "x", True, []), ("solution", 0, "x", 2, []), ("max", 0, "x", True, [])]
    H["unconstrained-max-eval-max"] = [("add", 0, [A]), ("max", 0, "x+y", False, []), ("eval", 0, "y", 2, []), ("max", 0, "x+y", False, []), ("min", 0, "x+y", False, [])]
    # every member of a batch is exhausted separately; the combinations are not
    H["exhaust-each-then-batch"] = [("add", 0, [A, "y<=K2"]), ("eval", 0, "x", 9, []), ("eval", 0, "y", 9, []), ("batch", 0, ["x", "y"], 9, []), ("batch", 0, ["x+y", "x"], 9, [])]
    H["exhaust-each-then-batch-linked"] = [("add", 0, [A, "y<=K2", "x+y==K0"]), ("eval", 0, "x", 9, []), ("eval", 0, "y", 9, []), ("batch", 0, ["x", "y"], 9, [])]
    H["signed-min-extra"] = [("add", 0, ["x!=K2"]), ("min", 0, "x", True, ["x>=sK2"]), ("min", 0, "x", True, ["x>K2"]), ("max", 0, "x", True, ["x<=sK1"]), ("min", 0, "x", True, [])]
    H["const-expr"] = [("add", 0, [A]), ("eval", 0, "K1", 3, []), ("min", 0, "K1", True, []), ("solution", 0, "K1", 1, [])]
    H["bool-var"] = [("add", 0, ["b|x==K0"]), ("sat", 0, ["!b"]), ("eval", 0, "x", 9, ["!b"]), ("eval", 0, "x", 9, [])]
    for pos in range(1, 4):
        for ins in ("simplify", "downsize"):
            base = [("add", 0, [A]), ("eval", 0, "x", 2, []), ("max", 0, "x", False, []), ("min", 0, "x", True, [])]
            H[f"{ins}-at-{pos}"] = base[:pos] + [(ins, 0)] + base[pos:]
    H["branch-continue"] = [("add", 0, [A]), ("eval", 0, "x", 2, []), ("branch", 0, 1), ("add", 1, ["x!=K2"]), ("eval", 1, "x", 9, []), ("max", 0, "x", False, [])]
    return H


def alphabet_histories(length):
    """bounded-exhaustive: all sequences over a small alphabet that contain at least one query after an add"""
    alpha = [("add", 0, [A]), ("add", 0, ["x!=K2"]), ("sat", 0, []), ("eval", 0, "x", 2, []), ("eval", 0, "x", 9, ["x>=K1"]),
             ("min", 0, "x", True, []), ("max", 0, "x", False, []), ("max", 0, "x", False, ["x!=K2"]), ("solution", 0, "x", 1, [])]
    out = {}
    for seq in itertools.product(range(len(alpha)), repeat=length):
        steps = [alpha[i] for i in seq]
        if steps[0][0] != "add" or all(s[0] == "add" for s in steps) or steps[-1][0] == "add":
            continue
        if any(a == b and a[0] in ("add", "sat") for a, b in zip(steps, steps[1:])):
            continue
        out["seq-" + "".join(map(str, seq))] = steps
    return out


def obligations(tier):
    quick = tier == "quick"
    out = []
    T = targeted()
    for name, h in T.items():
        for cls in ("Solver", "SolverCacheless", "SolverStrings"):
            if cls != "Solver" and quick and hash_mod(name, 8) != 0:
                continue
            if quick and name.endswith("x&K0") and not name.startswith("exh-eval"):
                continue
            for reuse in (False, True):
                if reuse and (cls != "Solver" or (quick and hash_mod(name, 4))):
                    continue
                N = 2 if (quick or len(p_hist.vars_of_history(h) - {"b"}) > 1) else 3
                out.append((f"hist:{cls}:{'reuse' if reuse else 'fresh'}:{name}", {"hist": h, "cls": cls, "N": N, "reuse": reuse}))
    for name, h in alphabet_histories(3).items():
        if quick and hash_mod(name, 6):
            continue
        out.append((f"hist:Solver:fresh:{name}", {"hist": h, "cls": "Solver", "N": 2, "reuse": False}))
    out += p_z3kernel.obligations("C11", tier)
    if not quick:
        for name, h in alphabet_histories(4).items():
            if hash_mod(name, 6) == 0:
                out.append((f"hist:Solver:fresh:{name}", {"hist": h, "cls": "Solver", "N": 2, "reuse": False}))
    return out


def hash_mod(name, m):
    import zlib

    return zlib.crc32(name.encode()) % m


def run_obligation(oid, params, tier):
    if oid.startswith("kernel:"):
        return p_z3kernel.run_obligation(oid, params, tier, "C11")
    return p_hist.run_obligation_generic(oid, params, tier, "C11")


FUNCTIONS = [
    "claripy.solvers.Solver / SolverCacheless / SolverStrings (complete mixin stacks)",
    "claripy.frontend.full_frontend.FullFrontend (_get_solver, _add_constraints, check_satisfiability shortcut, eval/batch_eval/min/max/solution)",
    "claripy.frontend.mixin.model_cache_mixin.ModelCacheMixin / ModelCache", "claripy.frontend.mixin.sat_cache_mixin.SatCacheMixin",
    "claripy.frontend.mixin.constraint_expansion_mixin / constraint_filter_mixin / concrete_handler_mixin / eager_resolution_mixin / "
    "constraint_deduplicator_mixin / simplify_skipper_mixin / simplify_helper_mixin", "claripy.frontend.constrained_frontend.ConstrainedFrontend",
]


def check(prop, tier, cap, only=None, procs=None, list_only=False, t0=None):
    obs = obligations(tier)
    if only:
        obs = [o for o in obs if fnmatch.fnmatchcase(o[0], only)]
    if list_only:
        for o, _ in obs:
            print(o)
        return 0
    results = common.run_pool("harness.p_c11", obs, tier, cap, procs=procs)
    return common.finish(prop, tier, "model_checking", results, t0, functions=FUNCTIONS, bounds=BOUNDS(tier), assumptions=ASSUMPTIONS,
                         rule=RULE, trusted_base=TRUSTED)


def BOUNDS(tier):
    quick = tier == "quick"
    return {"variable_width": "3 bits (one variable) / 2 bits (two variables)", "constants": "3 symbolic n-bit constants shared by all atoms",
            "histories": "targeted families (one per caching mechanism, 3 query expressions) + all sequences of length 3" + ("" if quick else " and a sixth of length 4") +
                         " over a 9-step alphabet; quick tier samples a deterministic third/quarter of the variants",
            "path_budget": 3000 if quick else 30000,
            "outside": "longer histories, wider variables, more than three constants, float / string constraints"}


ASSUMPTIONS = [
    "the backend is the symbolic oracle backend: answers any query consistently with the asserted formulas while the constants stay symbolic; which "
    "model it returns is explored exhaustively (concretised by forking over the feasible values)",
    "min/max hand back the optimal model only (plus one arbitrary model in thorough tier); is_true/is_false of the backend are the strongest "
    "syntactic simplifier (True iff valid for the expression alone)",
    "exists / forall over the variables are finite expansions over the 2-3 bit domain: quantifier-free formulas over the constants, decided by Z3",
    "BackendZ3.simplify is the identity on expressions with symbolic constants",
]
RULE = ("one obligation = one history on one frontend class (reuse on/off); every path of the real frontend code is explored and every recorded answer is "
        "checked against its specification for all constants and all backend model choices of the path")
TRUSTED = ["z3 4.13.0", "pysym operator models", "the oracle backend's contract (a legal model / optimum of the asserted formulas)",
           "atom and expression tables written twice (claripy builder and Z3 builder)"]
