"""C07 annotation leg: the operation trees of the expression harness are built through claripy's public
constructors with every constant symbolic (pysym shadows) and with annotations of the three contract kinds
(eliminatable / relocatable non-eliminatable / neither) attached to chosen nodes.  Every path of the real
constructors, rewriter and eager folding is explored; the path space over the constants is decided by Z3 (branch
feasibility), and on every feasible path the annotation contract is asserted on the returned AST:

  * every annotation that is neither eliminatable nor relocatable and was attached to any sub-expression is still
    attached to some node reachable in the result (walk over result.args; claripy's own bookkeeping sets are not
    consulted);
  * every relocatable (non-eliminatable) annotation attached to any sub-expression is in result.annotations.

A failing path is a counterexample class over the constants; a model of it is replayed natively.
"""
from __future__ import annotations

import copy
import json

import z3

from . import common
from .expr import ClaripyInterp, consts_of, is_leaf, show, vars_of


def _mk_classes():
    import claripy

    class _Tagged(claripy.Annotation):
        def __init__(self, tag):
            self.tag = tag

        def __hash__(self):
            return hash((type(self).__name__, self.tag))

        def __eq__(self, o):
            return type(o) is type(self) and o.tag == self.tag

        def __repr__(self):
            return f"<{type(self).__name__} {self.tag}>"

    class AnnElim(_Tagged):
        eliminatable = True
        relocatable = False

    class AnnReloc(_Tagged):
        eliminatable = False
        relocatable = True

    class AnnStay(_Tagged):
        eliminatable = False
        relocatable = False

    return {"elim": AnnElim, "reloc": AnnReloc, "stay": AnnStay}


_CLASSES = None


def classes():
    global _CLASSES
    if _CLASSES is None:
        _CLASSES = _mk_classes()
    return _CLASSES


def positions(tree):
    """paths (tuples of child indices) of all AST-valued nodes of the tree except the root"""
    out = []

    def rec(t, path):
        if path and t[0] not in ("int", "pybool"):
            out.append(path)
        if not is_leaf(t):
            for i, a in enumerate(t[1:], 1):
                if isinstance(a, list):
                    rec(a, path + (i,))

    rec(tree, ())
    return out


def node_at(tree, path):
    for i in path:
        tree = tree[i]
    return tree


def plans(tree, tier):
    """annotation plans: list of (name, {path: kind})"""
    pos = positions(tree)
    leaves = [p for p in pos if is_leaf(node_at(tree, p))]
    out = []
    for k in ("reloc", "stay"):
        for p in pos:
            out.append((f"{k}@{'.'.join(map(str, p))}", {p: k}))
    for k in ("reloc", "stay", "elim"):
        if len(leaves) > 1 or k == "elim":
            out.append((f"leaves-{k}", {p: k for p in leaves}))
    # a staying annotation on a leaf and ANOTHER annotation put on the inner node above it afterwards (re-annotation of a non-leaf)
    seen = set()
    for p in leaves:
        q = p[:-1]
        if q and q not in seen and not is_leaf(node_at(tree, q)):
            seen.add(q)
            out.append((f"stay@{'.'.join(map(str, p))}+elim@{'.'.join(map(str, q))}", {p: "stay", q: "elim"}))
            out.append((f"stay@{'.'.join(map(str, p))}+reloc@{'.'.join(map(str, q))}", {p: "stay", q: "reloc"}))
    if len(leaves) > 1:
        kinds = ("stay", "reloc", "elim")
        out.append(("leaves-mixed", {p: kinds[i % 3] for i, p in enumerate(leaves)}))
        out.append(("leaves-mixed2", {p: kinds[(i + 1) % 3] for i, p in enumerate(leaves)}))
    return out


class _AnnInterp(ClaripyInterp):
    """ClaripyInterp that annotates the node at given tree paths right after it has been built"""

    def __init__(self, consts, plan):
        super().__init__(consts)
        self.plan = plan
        self.path = ()
        self.applied = {}

    def ev(self, t):
        r = self._ev(t)
        kind = self.plan.get(self.path)
        if kind is not None and hasattr(r, "annotate"):
            a = classes()[kind]("/".join(map(str, self.path)))
            r = r.annotate(a)
            self.applied[self.path] = a
        return r

    def _ev(self, t):
        if is_leaf(t):
            return super()._ev(t)
        # rebuild the node from children evaluated with their own paths
        base = self.path
        kids = {}
        for i, a in enumerate(t[1:], 1):
            if isinstance(a, list):
                self.path = base + (i,)
                kids[i] = self.ev(a)
        self.path = base
        sub = _Pre(self.cl, self.consts, kids, t)
        return sub.build()


class _Pre(ClaripyInterp):
    """evaluates exactly one operator node whose children are already built"""

    def __init__(self, cl, consts, kids, node):
        self.cl = cl
        self.consts = consts
        self.annotate = None
        self.kids = kids
        self.node = node
        self.ids = {id(a): i for i, a in enumerate(node[1:], 1) if isinstance(a, list)}

    def build(self):
        return ClaripyInterp._ev(self, self.node)

    def ev(self, t):
        i = self.ids.get(id(t))
        if i is not None and i in self.kids:
            return self.kids[i]
        return ClaripyInterp._ev(self, t)


def all_annotations(r):
    import claripy

    out = set()
    seen = set()
    stack = [r]
    while stack:
        a = stack.pop()
        if not isinstance(a, claripy.ast.Base) or id(a) in seen:
            continue
        seen.add(id(a))
        out.update(a.annotations)
        stack.extend(a.args)
    return out


def contract_failures(r, applied, plan):
    import claripy

    if not isinstance(r, claripy.ast.Base):
        return [f"result is not an AST: {type(r).__name__}"]
    reach = all_annotations(r)
    fails = []
    for p, a in applied.items():
        k = plan[p]
        if k == "stay" and a not in reach:
            fails.append(f"non-eliminatable non-relocatable annotation {a!r} was removed")
        if k == "reloc" and a not in r.annotations:
            fails.append(f"relocatable annotation {a!r} is not on the result")
    return fails


def _uniq(tree):
    """every node a distinct list object (templates share sub-lists)"""
    return json.loads(json.dumps(tree))


class AnnRun:
    def __init__(self, oid, tree, tier, known, max_paths=150):
        self.oid = oid
        self.tree = _uniq(tree)
        self.tier = tier
        self.known = known
        self.max_paths = max_paths

    def run(self):
        from pysym import engine as E
        from pysym import glue

        glue.install()
        tree = self.tree
        cs = consts_of(tree)
        from .astleg import _all_widths
        from .shapes import is_heavy

        wmax = max(_all_widths(tree) + [8])
        E.set_width(2 * wmax + 8 if is_heavy(tree) else (max(2 * wmax + 8, 72) if wmax <= 32 else wmax + 16))
        zc = {i: z3.BitVec(f"c{i}", w) for i, w in cs}
        res = common.result(self.oid, "holds")
        res["sample"] = {"obligation": self.oid, "tree": show(tree)}
        known_plans = {}
        for k in self.known:
            for pn in k.get("plans", ["*"]):
                known_plans[pn] = k["id"]
        total_paths = 0
        nplans = 0
        for pname, plan in plans(tree, self.tier):
            nplans += 1
            holder = {}

            def build():
                glue.reset_caches()
                consts = {i: glue.BVV(glue.mk(zc[i]), w) for i, w in cs}
                it = _AnnInterp(consts, plan)
                holder["it"] = it
                return it.ev(tree)

            ex = E.explore(build, max_paths=self.max_paths)
            for path in ex:
                if path.kind != "ok":
                    continue  # exceptions are C04's subject; unknown/unsupported recorded below
                fl = contract_failures(path.result, holder["it"].applied, plan)
                if not fl:
                    continue
                s = E.new_solver(path.pc, 20000)
                if E.check_sat(s) != "sat":
                    continue
                import fnmatch

                kid = None
                for pat, k in known_plans.items():
                    if fnmatch.fnmatchcase(pname, pat):
                        kid = k
                if kid is not None:
                    if kid not in res["known_hits"]:
                        res["known_hits"].append(kid)
                    continue
                m = s.model()
                consts = {str(i): m.eval(zc[i], model_completion=True).as_long() for i, _ in cs}
                res["status"] = "violation"
                res["detail"] = f"plan {pname}: {fl[0]}; built {path.result!r:.200}"
                res["cex"] = [{"harness": "harness.annleg", "prop": "C07", "tree": tree, "consts": consts,
                               "plan": [[list(p), k] for p, k in plan.items()], "plan_name": pname,
                               "obligation": self.oid, "detail": fl[0]}]
                res["paths"] = total_paths + ex.paths
                return res
            total_paths += ex.paths
            res["inconclusive"] += [f"plan {pname}: {x}" for x in ex.inconclusive]
        res["paths"] = total_paths
        res["plans"] = nplans
        if res["inconclusive"]:
            res["status"] = "inconclusive"
            res["detail"] = res["inconclusive"][0]
        return res


def replay(case):
    import claripy

    tree = case["tree"]
    cs = consts_of(tree)
    consts = {i: claripy.BVV(int(case["consts"][str(i)]), w) for i, w in cs}
    plan = {tuple(p): k for p, k in case["plan"]}
    it = _AnnInterp(consts, plan)
    desc = f"tree={show(tree)} consts={case['consts']} plan={case.get('plan_name')}"
    try:
        r = it.ev(tree)
    except Exception as e:  # noqa: BLE001
        return {"violated": False, "detail": f"raised {type(e).__name__}: {e}; {desc}"}
    fl = contract_failures(r, it.applied, plan)
    return {"violated": bool(fl), "detail": ("; ".join(fl) if fl else "annotation contract holds natively") + f"; built {r!r:.200}; {desc}"}
