"""C07, explicit simplification legs.

simp:<shape>:<n>      claripy.simplify(e) where e's top node carries one annotation of each kind and each direct
                      argument carries a relocatable / a staying annotation: the top annotations and the relocatable
                      annotations of the direct arguments must be in result.annotations.
frontend:<cls>:<shape>:<n>
                      solver.add([c_annotated, c2]); solver.simplify(): a constraint that carries a
                      SimplificationAvoidanceAnnotation must be the identical object afterwards.

Constants are symbolic (pysym).  A symbolic constant cannot cross libz3, so BackendZ3.simplify is modelled for
expressions with symbolic constants by "the same expression rebuilt without any annotation" (the real round trip
through Z3 loses every annotation and may or may not change the structure; the annotation handling under test is
claripy's re-attachment code, which runs unmodified).  Every path's verdict is re-checked natively with the real
Z3 simplifier on a solver-chosen model of the path (encoding validation + replay).
"""
from __future__ import annotations

import z3

from . import annleg, common, shapes
from .expr import ClaripyInterp, consts_of, is_leaf, show, width_of

FRONTENDS = ["Solver", "SolverCacheless", "SolverComposite", "SolverReplacement", "SolverHybrid"]


def _bool_shapes(n):
    out = []
    for name, tree in list(shapes.seeds(n)) + list(shapes.grammar1(n)):
        try:
            w = width_of(tree)
        except Exception:  # noqa: BLE001
            continue
        if w is None and not is_leaf(tree) and tree[0] not in ("int", "pybool") and not shapes.is_heavy(tree):
            out.append((name, tree))
    return out


def obligations(tier):
    quick = tier == "quick"
    out = []
    for n in ([8] if quick else [1, 8, 32]):
        lst = list(shapes.seeds(n)) + list(shapes.grammar1(n))
        for name, tree in lst:
            if shapes.is_heavy(tree) or is_leaf(tree):
                continue
            out.append((f"simp:{name}:{n}", {"tree": tree, "n": n}))
        bs = _bool_shapes(n)
        for i, (name, tree) in enumerate(bs):
            if quick and i % 4:
                continue
            for cls in FRONTENDS:
                out.append((f"frontend:{cls}:{name}:{n}", {"tree": tree, "n": n, "cls": cls}))
    return out


def strip_deep(e, memo=None):
    """e rebuilt without annotations (model of the Z3 round trip for expressions with symbolic constants)"""
    import claripy

    memo = {} if memo is None else memo
    if not isinstance(e, claripy.ast.Base):
        return e
    k = id(e)
    if k in memo:
        return memo[k]
    if e.is_leaf():
        r = e.clear_annotations() if e.annotations else e
    else:
        args = tuple(strip_deep(a, memo) for a in e.args)
        r = e.make_like(e.op, args, annotations=(), skip_child_annotations=False)
        if r.annotations:
            r = r.clear_annotations()
    memo[k] = r
    return r


def _install_strip_model():
    import claripy
    from pysym import glue

    glue.install()
    cls = type(claripy.backends.z3)
    if getattr(cls, "_verif_strip", False):
        return
    cls._verif_strip = True
    prev = cls.simplify  # glue's wrapper (identity on symbolic constants)
    orig = prev

    def simplify(self, expr):
        if isinstance(expr, claripy.ast.Base) and glue.has_sym(expr):
            return strip_deep(expr)
        return orig(self, expr)

    cls.simplify = simplify


def _top_plan():
    C = annleg.classes()
    return [C["elim"]("top-e"), C["reloc"]("top-r"), C["stay"]("top-s")]


def _build_simp(tree, consts):
    """returns (expr, required annotations)"""
    import claripy

    C = annleg.classes()
    it = ClaripyInterp(consts)
    kids = []
    req = []
    # direct arguments annotated: first AST argument relocatable, second staying
    e = it.ev(tree)
    if not isinstance(e, claripy.ast.Base):
        return None, []
    if not e.is_leaf():
        new_args = []
        k = 0
        for a in e.args:
            if isinstance(a, claripy.ast.Base):
                ann = C["reloc"](f"arg{k}-r") if k % 2 == 0 else C["stay"](f"arg{k}-s")
                if k % 2 == 0:
                    req.append(ann)
                a = a.annotate(ann)
                k += 1
            new_args.append(a)
        e = e.make_like(e.op, tuple(new_args))
    tops = _top_plan()
    e = e.annotate(*tops)
    req += tops
    return e, req


def _simp_failures(e, req):
    import claripy

    r = claripy.simplify(e)
    miss = [a for a in req if a not in r.annotations]
    out = [f"annotation {a!r} missing after simplify" for a in miss]
    # the result is memoised per expression: a second call must keep the annotations as well
    r2 = claripy.simplify(e)
    out += [f"annotation {a!r} missing after a second simplify of the same expression (memoised result)" for a in req if a not in r2.annotations]
    return r, out


def run_simp(oid, params, tier):
    from pysym import engine as E
    from pysym import glue

    _install_strip_model()
    tree = annleg._uniq(params["tree"])
    cs = consts_of(tree)
    from .astleg import _all_widths

    wmax = max(_all_widths(tree) + [8])
    E.set_width(max(2 * wmax + 8, 72) if wmax <= 32 else wmax + 16)
    zc = {i: z3.BitVec(f"c{i}", w) for i, w in cs}
    res = common.result(oid, "holds")
    res["sample"] = {"obligation": oid, "tree": show(tree)}
    known = common.known_for(common.load_known("C07"), oid)

    def build():
        glue.reset_caches()
        consts = {i: glue.BVV(glue.mk(zc[i]), w) for i, w in cs}
        e, req = _build_simp(tree, consts)
        if e is None:
            return None
        return _simp_failures(e, req)

    ex = E.explore(build, max_paths=150 if tier == "quick" else 1500)
    nval = 0
    for path in ex:
        if path.kind != "ok" or path.result is None:
            continue
        r, fl = path.result
        s = E.new_solver(path.pc, 20000)
        if E.check_sat(s) != "sat":
            continue
        m = s.model()
        consts = {str(i): m.eval(zc[i], model_completion=True).as_long() for i, _ in cs}
        if fl:
            if known:
                res["known_hits"] += [k["id"] for k in known if k["id"] not in res["known_hits"]]
                continue
            res["status"] = "violation"
            res["detail"] = fl[0]
            res["cex"] = [{"harness": "harness.p_c07_simplify", "kind": "simp", "tree": tree, "consts": consts,
                           "obligation": oid, "detail": fl[0]}]
            break
        if nval < 3:
            # encoding validation: the real Z3 simplifier on a model of this path must give the same verdict
            nval += 1
            d = _native_simp(tree, consts)
            if d["violated"] and not known:
                res["status"] = "violation"
                res["detail"] = "native run with the real Z3 simplifier: " + d["detail"]
                res["cex"] = [{"harness": "harness.p_c07_simplify", "kind": "simp", "tree": tree, "consts": consts,
                               "obligation": oid, "detail": d["detail"][:300]}]
                break
    res["paths"] = ex.paths
    res["validated"] = nval
    res["inconclusive"] += ex.inconclusive
    if res["status"] == "holds" and res["inconclusive"]:
        res["status"] = "inconclusive"
        res["detail"] = res["inconclusive"][0]
    return res


def _native_simp(tree, consts):
    import sys

    import claripy

    saved_simplify = None
    cls = type(claripy.backends.z3)
    cs = consts_of(tree)
    # native: plain ints, real simplifier (has_sym is False for concrete constants, so the wrappers pass through)
    sys.modules["claripy.algorithm.simplify"].simplification_cache.clear()
    cc = {i: claripy.BVV(int(consts[str(i)]), w) for i, w in cs}
    try:
        e, req = _build_simp(tree, cc)
        if e is None:
            return {"violated": False, "detail": "not an AST"}
        r, fl = _simp_failures(e, req)
    except Exception as ex:  # noqa: BLE001
        return {"violated": False, "detail": f"raised {type(ex).__name__}: {ex}"}
    return {"violated": bool(fl), "detail": ("; ".join(fl) if fl else "ok") + f"; simplify({e!r:.150}) = {r!r:.150} consts={consts}"}


def _mk_solver(cls):
    import claripy

    if cls == "SolverComposite":
        return claripy.SolverComposite()
    return getattr(claripy, cls)()


def _frontend_run(tree, consts, cls):
    import claripy

    it = ClaripyInterp(consts)
    c = it.ev(tree)
    if not isinstance(c, claripy.ast.Bool):
        return None
    A = claripy.annotation.SimplificationAvoidanceAnnotation()
    ca = c.annotate(A)
    x = claripy.BVS("x", 8, explicit_name=True)
    extra = [claripy.ULE(x, 200), x + 1 != 7]
    s = _mk_solver(cls)
    s.add([extra[0], ca, extra[1]])
    before = list(s.constraints)
    had = any(k is ca for k in before)
    # observe what the frontends hand to the rewriter: the annotated constraint must never be part of it
    import sys

    seen = []
    mods = [m for name, m in sys.modules.items() if name.startswith("claripy.frontend") and getattr(m, "simplify", None) is not None
            and callable(getattr(m, "simplify")) and not isinstance(getattr(m, "simplify"), type)]
    import claripy.algorithm as calg

    real = calg.simplify

    def spy(e):
        seen.append(e)
        return real(e)

    patched = []
    for m in mods:
        if getattr(m, "simplify") is real:
            m.simplify = spy
            patched.append(m)
    try:
        s.simplify()
    finally:
        for m in patched:
            m.simplify = real
    after = list(s.constraints)
    fails = []
    for e in seen:
        parts = list(e.args) if e.op == "And" else [e]
        if had and any(p is ca for p in parts):
            fails.append(f"{cls}.simplify() handed a constraint carrying a SimplificationAvoidanceAnnotation to the rewriter")
            break
    if had and not any(k is ca for k in after):
        fails.append(f"{cls}.simplify() rewrote or dropped a constraint carrying a SimplificationAvoidanceAnnotation: "
                     f"{ca!r:.120} not among {after!r:.200}")
    return fails


def run_frontend(oid, params, tier):
    from pysym import engine as E
    from pysym import glue

    _install_strip_model()
    tree = annleg._uniq(params["tree"])
    cls = params["cls"]
    cs = consts_of(tree)
    from .astleg import _all_widths

    wmax = max(_all_widths(tree) + [8])
    E.set_width(max(2 * wmax + 8, 72) if wmax <= 32 else wmax + 16)
    zc = {i: z3.BitVec(f"c{i}", w) for i, w in cs}
    res = common.result(oid, "holds")
    res["sample"] = {"obligation": oid, "tree": show(tree), "frontend": cls}

    def build():
        glue.reset_caches()
        consts = {i: glue.BVV(glue.mk(zc[i]), w) for i, w in cs}
        return _frontend_run(tree, consts, cls)

    ex = E.explore(build, max_paths=100 if tier == "quick" else 1000)
    for path in ex:
        if path.kind != "ok" or not path.result:
            continue
        s = E.new_solver(path.pc, 20000)
        if E.check_sat(s) != "sat":
            continue
        m = s.model()
        consts = {str(i): m.eval(zc[i], model_completion=True).as_long() for i, _ in cs}
        res["status"] = "violation"
        res["detail"] = path.result[0]
        res["cex"] = [{"harness": "harness.p_c07_simplify", "kind": "frontend", "tree": tree, "consts": consts, "cls": cls,
                       "obligation": oid, "detail": path.result[0][:300]}]
        break
    res["paths"] = ex.paths
    res["inconclusive"] += ex.inconclusive
    if res["status"] == "holds" and res["inconclusive"]:
        res["status"] = "inconclusive"
        res["detail"] = res["inconclusive"][0]
    return res


def run_obligation(oid, params, tier):
    if oid.startswith("simp:"):
        return run_simp(oid, params, tier)
    return run_frontend(oid, params, tier)


def replay(case):
    import claripy

    tree = case["tree"]
    if case["kind"] == "simp":
        return _native_simp(tree, case["consts"])
    cs = consts_of(tree)
    cc = {i: claripy.BVV(int(case["consts"][str(i)]), w) for i, w in cs}
    try:
        fl = _frontend_run(tree, cc, case["cls"])
    except Exception as ex:  # noqa: BLE001
        return {"violated": False, "detail": f"raised {type(ex).__name__}: {ex}"}
    return {"violated": bool(fl), "detail": ("; ".join(fl) if fl else "constraint kept identical natively") + f" tree={show(tree)} consts={case['consts']}"}
