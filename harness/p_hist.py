"""History harness for the solver-frontend properties C11 - C18.

A history is a list of steps on a small tree of solver objects (add, satisfiable, eval, batch_eval, min/max signed/unsigned,
solution, is_true/is_false, simplify, downsize, branch, pickle round trip, merge/combine/split, unsat_core).  The real
frontend classes run on the symbolic oracle backend (harness.symbackend) with symbolic constraint constants; every path of
the frontend/mixin code is explored, and at the end of a path every recorded answer is checked against its specification:
a quantifier-free formula over the constants obtained by finite expansion of exists / forall over the tiny variable domain, decided by
Z3 under the path condition.  The specification of an answer is built from the harness's own record of the constraints each
solver object was given (written independently as Z3 terms), never from anything read back from the frontend.
"""
from __future__ import annotations

import fnmatch
import itertools
import pickle
import traceback

import z3

from . import common

# ---------------------------------------------------------------------------------------------------------
# constraint atoms and query expressions: name -> (claripy builder, z3 builder); V = variables dict, K = constants list


_UA = {}


def _user_annotation(cl):
    """one user annotation object (eliminatable, so that it constrains nothing but identity)"""
    if "a" not in _UA:
        class Mark(cl.Annotation):
            eliminatable = True
            relocatable = False

            def __hash__(self):
                return hash("Mark")

            def __eq__(self, o):
                return type(o).__name__ == "Mark"

        _UA["a"] = Mark()
    return _UA["a"]


def _atoms():
    A = {}

    def add(name, cl, zz):
        A[name] = (cl, zz)

    add("x<=K0", lambda c, V, K: c.ULE(V["x"], K[0]), lambda V, K: z3.ULE(V["x"], K[0]))
    add("x<=K1", lambda c, V, K: c.ULE(V["x"], K[1]), lambda V, K: z3.ULE(V["x"], K[1]))
    add("x>=K1", lambda c, V, K: c.UGE(V["x"], K[1]), lambda V, K: z3.UGE(V["x"], K[1]))
    add("x!=K2", lambda c, V, K: V["x"] != K[2], lambda V, K: V["x"] != K[2])
    add("x==K0", lambda c, V, K: V["x"] == K[0], lambda V, K: V["x"] == K[0])
    add("x==K1", lambda c, V, K: V["x"] == K[1], lambda V, K: V["x"] == K[1])
    add("x<=sK1", lambda c, V, K: c.SLE(V["x"], K[1]), lambda V, K: V["x"] <= K[1])
    add("x>=sK2", lambda c, V, K: c.SGE(V["x"], K[2]), lambda V, K: V["x"] >= K[2])
    add("x&K0==K1", lambda c, V, K: (V["x"] & K[0]) == K[1], lambda V, K: (V["x"] & K[0]) == K[1])
    add("x<K1", lambda c, V, K: c.ULT(V["x"], K[1]), lambda V, K: z3.ULT(V["x"], K[1]))
    add("x>K2", lambda c, V, K: c.UGT(V["x"], K[2]), lambda V, K: z3.UGT(V["x"], K[2]))
    add("x==K0|x==K1", lambda c, V, K: c.Or(V["x"] == K[0], V["x"] == K[1]), lambda V, K: z3.Or(V["x"] == K[0], V["x"] == K[1]))
    add("x!=K0", lambda c, V, K: V["x"] != K[0], lambda V, K: V["x"] != K[0])
    add("x!=K1", lambda c, V, K: V["x"] != K[1], lambda V, K: V["x"] != K[1])
    add("x+1==K0", lambda c, V, K: V["x"] + 1 == K[0], lambda V, K: V["x"] + 1 == K[0])
    add("x+1<=K0", lambda c, V, K: c.ULE(V["x"] + 1, K[0]), lambda V, K: z3.ULE(V["x"] + 1, K[0]))
    add("y<=K2", lambda c, V, K: c.ULE(V["y"], K[2]), lambda V, K: z3.ULE(V["y"], K[2]))
    add("y==K1", lambda c, V, K: V["y"] == K[1], lambda V, K: V["y"] == K[1])
    add("y!=K1", lambda c, V, K: V["y"] != K[1], lambda V, K: V["y"] != K[1])
    add("y>=K0", lambda c, V, K: c.UGE(V["y"], K[0]), lambda V, K: z3.UGE(V["y"], K[0]))
    add("x==y", lambda c, V, K: V["x"] == V["y"], lambda V, K: V["x"] == V["y"])
    add("x+y==K0", lambda c, V, K: V["x"] + V["y"] == K[0], lambda V, K: V["x"] + V["y"] == K[0])
    add("x<=y", lambda c, V, K: c.ULE(V["x"], V["y"]), lambda V, K: z3.ULE(V["x"], V["y"]))
    add("z==K2", lambda c, V, K: V["z"] == K[2], lambda V, K: V["z"] == K[2])
    add("z<=K0", lambda c, V, K: c.ULE(V["z"], K[0]), lambda V, K: z3.ULE(V["z"], K[0]))
    add("y==z", lambda c, V, K: V["y"] == V["z"], lambda V, K: V["y"] == V["z"])
    add("x+z==K1", lambda c, V, K: V["x"] + V["z"] == K[1], lambda V, K: V["x"] + V["z"] == K[1])
    # constraints that carry a top-level annotation (the solver must hand back these very objects, e.g. in an unsat core)
    add("x<=K0@", lambda c, V, K: c.ULE(V["x"], K[0]).annotate(_user_annotation(c)), lambda V, K: z3.ULE(V["x"], K[0]))
    add("x>K2@", lambda c, V, K: c.UGT(V["x"], K[2]).annotate(_user_annotation(c)), lambda V, K: z3.UGT(V["x"], K[2]))
    add("x!=K1@", lambda c, V, K: (V["x"] != K[1]).annotate(_user_annotation(c)), lambda V, K: V["x"] != K[1])
    # CONCRETE contradicting equalities: the only constraints the pairwise shortcut at add() can decide (it caches an unsat core)
    add("x==0!", lambda c, V, K: V["x"] == c.BVV(0, V["x"].length), lambda V, K: V["x"] == 0)
    add("x==1!", lambda c, V, K: V["x"] == c.BVV(1, V["x"].length), lambda V, K: V["x"] == 1)
    add("true", lambda c, V, K: c.true(), lambda V, K: z3.BoolVal(True))
    add("false", lambda c, V, K: c.false(), lambda V, K: z3.BoolVal(False))
    add("b", lambda c, V, K: V["b"], lambda V, K: V["b"])
    add("!b", lambda c, V, K: c.Not(V["b"]), lambda V, K: z3.Not(V["b"]))
    add("b|x==K0", lambda c, V, K: c.Or(V["b"], V["x"] == K[0]), lambda V, K: z3.Or(V["b"], V["x"] == K[0]))
    return A


def _exprs():
    X = {}
    X["x"] = (lambda c, V, K: V["x"], lambda V, K: V["x"])
    X["y"] = (lambda c, V, K: V["y"], lambda V, K: V["y"])
    X["z"] = (lambda c, V, K: V["z"], lambda V, K: V["z"])
    X["x+1"] = (lambda c, V, K: V["x"] + 1, lambda V, K: V["x"] + 1)
    X["x&K0"] = (lambda c, V, K: V["x"] & K[0], lambda V, K: V["x"] & K[0])
    X["x+y"] = (lambda c, V, K: V["x"] + V["y"], lambda V, K: V["x"] + V["y"])
    X["K1"] = (lambda c, V, K: K[1], lambda V, K: K[1])
    X["~x"] = (lambda c, V, K: ~V["x"], lambda V, K: ~V["x"])
    return X


ATOMS = _atoms()
EXPRS = _exprs()
VARNAMES = ["x", "y", "z"]

CLASSES = {
    "Solver": lambda cl, be, track=False: cl.Solver(backend=be, track=track),
    "SolverCacheless": lambda cl, be, track=False: cl.SolverCacheless(backend=be, track=track),
    "SolverStrings": lambda cl, be, track=False: cl.SolverStrings(backend=be, track=track),
    "SolverComposite": lambda cl, be, track=False: cl.SolverComposite(template_solver=cl.solvers.SolverCompositeChild(backend=be, track=track), track=track),
    "SolverReplacement": lambda cl, be, track=False: cl.SolverReplacement(actual_frontend=cl.Solver(backend=be, track=track)),
    "SolverHybridExact": lambda cl, be, track=False: cl.SolverHybrid(exact_frontend=cl.Solver(backend=be, track=track)),
    # the same object; histories for it ask with exact=False (steps asat / aeval / amin / amax / asolution): the approximate side is the
    # REAL SolverReplacement over SolverVSA (constraint_to_si + the VSA backend), the exact side the oracle backend
    "SolverHybridApprox": lambda cl, be, track=False: cl.SolverHybrid(exact_frontend=cl.Solver(backend=be, track=track)),
}


def vars_of_history(hist):
    names = set()

    def atoms(lst):
        for a in lst or []:
            for v in VARNAMES + ["b"]:
                if v in _atom_vars(a):
                    names.add(v)

    for st in hist:
        op = st[0]
        if op == "add":
            atoms(st[2])
        elif op in ("sat", "unsat_core"):
            atoms(st[2] if len(st) > 2 else [])
        elif op in ("eval", "min", "max", "solution", "batch", "aeval", "amin", "amax", "asolution"):
            es = st[2] if op == "batch" else [st[2]]
            for e in es:
                names.update(_expr_vars(e))
            atoms(st[-1])
        elif op == "asat":
            atoms(st[2])
        elif op in ("is_true", "is_false"):
            atoms([st[2]])
            atoms(st[3])
        elif op == "merge":
            atoms(st[3])
    return names


def _atom_vars(a):
    out = set()
    for v in VARNAMES:
        if v in a.replace("K", "#"):
            out.add(v)
    if a in ("b", "!b", "b|x==K0"):
        out.add("b")
    return out


def _expr_vars(e):
    return {v for v in VARNAMES if v in e.replace("K", "#")}


# ---------------------------------------------------------------------------------------------------------
# running one history


class Ref:
    """the harness's own record of what each solver object was given"""

    def __init__(self):
        self.F = {}   # sid -> list of z3 formulas
        self.A = {}   # sid -> list of claripy ASTs as handed to add()

    def conj(self, sid, extra=()):
        fs = list(self.F[sid]) + list(extra)
        return z3.And(*fs) if fs else z3.BoolVal(True)


def run_history(cl, be, cls, hist, zV, zK, K, track=False, pickle_hook=None):
    """executes the history on the real frontend; returns the list of records (step index, kind, payload...)"""
    from claripy.errors import ClaripyError, UnsatError

    V = {}
    for n, w, _ in be.vars:
        V[n] = cl.BVS(n, w, explicit_name=True) if w else cl.BoolS(n, explicit_name=True)
    S = {0: CLASSES[cls](cl, be, track)}
    T = {}     # C18, approximate answers: the never-pickled original of a pickled solver goes on as a twin; it receives the same adds and
    #            the same approximate queries, and its answers are the specification of the unpickled solver's ("the same answers as the
    #            original from then on" - approximate answers have no absolute specification beyond containment)
    ref = Ref()
    ref.F[0] = []
    ref.A[0] = []
    log = []

    def A(names):
        return [ATOMS[a][0](cl, V, K) for a in names]

    def ZA(names):
        return [ATOMS[a][1](zV, zK) for a in names]

    for i, st in enumerate(hist):
        op, sid = st[0], st[1]
        s = S[sid]
        try:
            if op == "add":
                added_asts = A(st[2])
                s.add(added_asts)
                if sid in T:
                    T[sid].add(added_asts)
                ref.F[sid] = ref.F[sid] + ZA(st[2])
                ref.A[sid] = ref.A.get(sid, []) + added_asts
            elif op == "sat":
                r = s.satisfiable(extra_constraints=tuple(A(st[2])))
                log.append((i, "sat", sid, r, ref.conj(sid, ZA(st[2]))))
            elif op in ("eval", "batch"):
                es = st[2] if op == "batch" else [st[2]]
                n = st[3]
                ce = [EXPRS[e][0](cl, V, K) for e in es]
                ze = [EXPRS[e][1](zV, zK) for e in es]
                F = ref.conj(sid, ZA(st[4]))
                try:
                    if op == "eval":
                        r = [(v,) for v in s.eval(ce[0], n, extra_constraints=tuple(A(st[4])))]
                    else:
                        r = [tuple(t) for t in s.batch_eval(ce, n, extra_constraints=tuple(A(st[4])))]
                    log.append((i, "eval", sid, r, F, ze, n))
                except UnsatError:
                    log.append((i, "unsat", sid, None, F))
            elif op in ("min", "max"):
                ce = EXPRS[st[2]][0](cl, V, K)
                ze = EXPRS[st[2]][1](zV, zK)
                F = ref.conj(sid, ZA(st[4]))
                try:
                    r = getattr(s, op)(ce, extra_constraints=tuple(A(st[4])), signed=st[3])
                    log.append((i, op, sid, r, F, ze, st[3]))
                except UnsatError:
                    log.append((i, "unsat", sid, None, F))
            elif op == "solution":
                ce = EXPRS[st[2]][0](cl, V, K)
                ze = EXPRS[st[2]][1](zV, zK)
                v = K[st[3]] if isinstance(st[3], int) and st[3] < 10 else st[3]
                zv = zK[st[3]]
                F = ref.conj(sid, ZA(st[4]))
                try:
                    r = s.solution(ce, v, extra_constraints=tuple(A(st[4])))
                    log.append((i, "solution", sid, r, F, ze, zv))
                except UnsatError:
                    log.append((i, "unsat", sid, None, F))
            elif op in ("is_true", "is_false"):
                r = getattr(s, op)(A([st[2]])[0], extra_constraints=tuple(A(st[3])))
                log.append((i, op, sid, r, ref.conj(sid, ZA(st[3])), ZA([st[2]])[0]))
            elif op == "asat":
                r = s.satisfiable(extra_constraints=tuple(A(st[2])), exact=False)
                log.append((i, "asat", sid, r, ref.conj(sid, ZA(st[2]))))
            elif op in ("aeval", "amin", "amax", "asolution"):
                ce = EXPRS[st[2]][0](cl, V, K)
                ze = EXPRS[st[2]][1](zV, zK)
                F = ref.conj(sid, ZA(st[4]))
                ex_ = tuple(A(st[4]))
                if sid in T:
                    try:
                        t = T[sid]
                        if op == "aeval":
                            rt = list(t.eval(ce, st[3], extra_constraints=ex_, exact=False))
                        elif op == "asolution":
                            rt = t.solution(ce, K[st[3]], extra_constraints=ex_, exact=False)
                        else:
                            rt = getattr(t, op[1:])(ce, extra_constraints=ex_, signed=st[3], exact=False)
                    except UnsatError:
                        rt = "UnsatError"
                    try:
                        if op == "aeval":
                            ru = list(s.eval(ce, st[3], extra_constraints=ex_, exact=False))
                        elif op == "asolution":
                            ru = s.solution(ce, K[st[3]], extra_constraints=ex_, exact=False)
                        else:
                            ru = getattr(s, op[1:])(ce, extra_constraints=ex_, signed=st[3], exact=False)
                    except UnsatError:
                        ru = "UnsatError"
                    log.append((i, "twin", sid, ru, rt, op, ze))
                try:
                    if op == "aeval":
                        r = list(s.eval(ce, st[3], extra_constraints=ex_, exact=False))
                        log.append((i, "aeval", sid, r, F, ze, st[3]))
                    elif op == "asolution":
                        r = s.solution(ce, K[st[3]], extra_constraints=ex_, exact=False)
                        log.append((i, "asolution", sid, r, F, ze, zK[st[3]]))
                    else:
                        r = getattr(s, op[1:])(ce, extra_constraints=ex_, signed=st[3], exact=False)
                        log.append((i, op, sid, r, F, ze, st[3]))
                except UnsatError:
                    log.append((i, "aunsat", sid, None, F))
            elif op == "simplify":
                s.simplify()
            elif op == "downsize":
                s.downsize()
            elif op == "branch":
                S[st[2]] = s.branch()
                ref.F[st[2]] = list(ref.F[sid])
                ref.A[st[2]] = list(ref.A.get(sid, []))
            elif op == "add_repl":
                # public API of the replacement solver; only the OTHER solvers of the history are queried afterwards
                if hasattr(s, "add_replacement"):
                    s.add_replacement(V[st[2]], K[st[3]], invalidate_cache=False)
            elif op == "pickle":
                S[sid] = pickle.loads(pickle.dumps(s, -1))
                if cls == "SolverHybridApprox":
                    T[sid] = s
            elif op == "pickle2":
                # two solvers in ONE pickle (they may share children / caches)
                S[sid], S[st[2]] = pickle.loads(pickle.dumps((s, S[st[2]]), -1))
            elif op == "unsat_core":
                r = s.unsat_core()
                log.append((i, "core", sid, r, ref.conj(sid), list(ref.A.get(sid, []))))
            elif op == "combine":
                S[st[3]] = s.combine([S[o] for o in st[2]])
                ref.F[st[3]] = list(ref.F[sid]) + [f for o in st[2] for f in ref.F[o]]
                ref.A[st[3]] = list(ref.A.get(sid, [])) + [a for o in st[2] for a in ref.A.get(o, [])]
                log.append((i, "constraints", st[3], list(S[st[3]].constraints), ref.conj(st[3])))
            elif op == "merge":
                conds = A(st[3])
                zconds = ZA(st[3])
                anc = S[st[4]] if len(st) > 5 and st[4] is not None else None
                _, m = s.merge([S[o] for o in st[2]], conds, common_ancestor=anc) if anc is not None else s.merge([S[o] for o in st[2]], conds)
                new = st[5] if len(st) > 5 else st[4]
                S[new] = m
                alls = [sid, *st[2]]
                if anc is not None:
                    ref.F[new] = list(ref.F[st[4]]) + [z3.Or(*zconds)]
                else:
                    ref.F[new] = [z3.Or(*[z3.And(zc, *ref.F[o]) for zc, o in zip(zconds, alls)])]
                ref.A[new] = list(m.constraints)
                log.append((i, "constraints", new, list(m.constraints), ref.conj(new)))
            elif op == "split":
                parts = s.split()
                log.append((i, "split", sid, [list(p.constraints) for p in parts], ref.conj(sid), list(s.constraints)))
                for k, p in enumerate(parts):
                    S[st[2] + k] = p
                    # the split record above checks that the parts partition the solver; from here on a part is specified by the
                    # constraints it was created with
                    ref.F[st[2] + k] = [be.conv(c) for c in p.constraints]
                    ref.A[st[2] + k] = list(p.constraints)
            else:
                raise ValueError(op)
        except ClaripyError as e:
            if type(e).__name__ == "ClaripySolverInterruptError" or "interrupt" in type(e).__name__.lower():
                log.append((i, "fault", sid, type(e).__name__))
                continue
            log.append((i, "raised", sid, f"{type(e).__name__}: {str(e)[:120]}", op))
    return log


# ---------------------------------------------------------------------------------------------------------
# specifications


def check_log(be, log, s, prop):
    """yields (kind, detail, failing-set formula) for every record whose specification can fail under the solver's assertions"""
    from pysym import engine as E

    from .symrun import Fail

    fails = []
    ex, fa = be.exists, be.forall

    def lit(t, v):
        return be._lit(t, v)

    for rec in log:
        i, kind = rec[0], rec[1]
        if kind == "sat":
            _, _, sid, r, F = rec
            want = ex(F)
            fails.append(Fail("satisfiable", f"step {i}: satisfiable() = {r} on solver {sid}", want != z3.BoolVal(bool(r)), known_key="sat"))
        elif kind == "unsat":
            _, _, sid, _, F = rec
            fails.append(Fail("UnsatError", f"step {i}: UnsatError raised although the constraints are satisfiable (solver {sid})", ex(F), known_key="unsaterror"))
        elif kind == "eval":
            _, _, sid, r, F, ze, n = rec
            if len(r) == 0:
                # no result is the right answer exactly when nothing is feasible
                fails.append(Fail("eval-empty", f"step {i}: eval returned no result although the constraints are satisfiable (solver {sid})", ex(F), known_key="eval"))
                continue
            # an expression that has a single value whatever the variables are (a constant, x & 0, ...) is answered without the
            # solver (ConcreteHandlerMixin / folding): its value is the answer even on unsatisfiable constraints
            consts_ = [_constant_value(be, z) for z in ze]
            isconst = z3.And(*[c for c, _ in consts_])
            constok = z3.And(isconst, z3.BoolVal(len(r) == 1), *[z0 == lit(z0, v) for (_, z0), v in zip(consts_, r[0])])
            bads = []
            tuples = []
            for tup in r:
                eqs = [z == lit(z, v) for z, v in zip(ze, tup)]
                tuples.append(z3.And(*eqs))
                bads.append(z3.Not(ex(z3.And(F, *eqs))))
            fails.append(Fail("eval-infeasible", f"step {i}: eval/batch_eval returned an infeasible result {r!r:.80} (solver {sid})", z3.And(z3.Not(constok), z3.Or(*bads)), known_key="eval",
                              classify=_on_unsat(ex(F))))
            if len(r) > 1:
                same = []
                for a, b in itertools.combinations(r, 2):
                    same.append(z3.And(*[lit(z, x) == lit(z, y) for z, x, y in zip(ze, a, b)]))
                fails.append(Fail("eval-duplicate", f"step {i}: eval/batch_eval returned duplicate results {r!r:.80}", z3.Or(*same), known_key="eval"))
            if len(r) > n:
                fails.append(Fail("eval-toomany", f"step {i}: {len(r)} results for n={n}"))
            if len(r) < n:
                fails.append(Fail("eval-incomplete", f"step {i}: eval/batch_eval returned {len(r)} < {n} results {r!r:.80} but another feasible result exists (solver {sid})",
                                  z3.And(z3.Not(constok), z3.Not(fa(z3.Implies(F, z3.Or(*tuples))))), known_key="eval"))
        elif kind in ("min", "max"):
            _, _, sid, r, F, ze, signed = rec
            m = lit(ze, r)
            isconst, ze0 = _constant_value(be, ze)
            constok = z3.And(isconst, ze0 == m)
            if signed:
                beyond = (ze < m) if kind == "min" else (ze > m)
            else:
                beyond = z3.ULT(ze, m) if kind == "min" else z3.UGT(ze, m)
            fails.append(Fail(kind, f"step {i}: {kind}(signed={signed}) = {r!r:.40} is not the true optimum (solver {sid})",
                              z3.And(z3.Not(constok), z3.Or(z3.Not(ex(z3.And(F, ze == m))), ex(z3.And(F, beyond)))), known_key=kind, classify=_on_unsat(ex(F))))
            if z3.is_bv(ze) and isinstance(r, int) and not isinstance(r, bool):
                # the answer is the value in the requested reading: signed queries give -2^(n-1) .. 2^(n-1)-1, unsigned ones 0 .. 2^n-1
                from pysym import engine as E

                n_ = ze.size()
                rt = E.term(r)
                lo, hi = (-(1 << (n_ - 1)), (1 << (n_ - 1)) - 1) if signed else (0, (1 << n_) - 1)
                fails.append(Fail(kind + "-reading", f"step {i}: {kind}(signed={signed}) = {r!r:.40} is outside the {'signed' if signed else 'unsigned'} range of {n_} bits (solver {sid})",
                                  z3.And(z3.Not(isconst), ex(F), z3.Or(rt < lo, rt > hi)), known_key=kind + "-reading"))
        elif kind == "solution":
            _, _, sid, r, F, ze, zv = rec
            want = ex(z3.And(F, ze == zv))
            fails.append(Fail("solution", f"step {i}: solution() = {r} (solver {sid})", want != z3.BoolVal(bool(r)), known_key="solution"))
        elif kind in ("is_true", "is_false"):
            _, _, sid, r, F, za = rec
            if r:
                bad = ex(z3.And(F, z3.Not(za))) if kind == "is_true" else ex(z3.And(F, za))
                fails.append(Fail(kind, f"step {i}: {kind}() answered True but it does not follow from the constraints (solver {sid})", bad, known_key=kind))
        elif kind == "twin":
            _, _, sid, ru, rt, op, ze = rec
            from pysym import engine as E

            def tm(v):
                return E.term(v) if isinstance(v, int) and not isinstance(v, bool) else None

            if isinstance(ru, str) or isinstance(rt, str) or isinstance(ru, bool) or isinstance(rt, bool) or ru is None or rt is None:
                if ru != rt:
                    fails.append(Fail("pickle-differs", f"step {i}: {op[1:]}(exact=False) on the unpickled solver = {ru!r:.40}, on the original = {rt!r:.40} (solver {sid})", None, known_key="pickle-differs"))
            else:
                lu, lt = (ru, rt) if isinstance(ru, list) else ([ru], [rt])
                if len(lu) != len(lt):
                    fails.append(Fail("pickle-differs", f"step {i}: {op[1:]}(exact=False): the unpickled solver returned {len(lu)} values, the original {len(lt)} (solver {sid})", None, known_key="pickle-differs"))
                else:
                    # as sets of n-bit values
                    n_ = ze.size() if z3.is_bv(ze) else None
                    if n_ is not None and lu:
                        def lo(v):
                            t = tm(v)
                            if t is None or not z3.is_bv(t):   # a plain Python int (a bound that does not depend on the symbolic constants)
                                return z3.BitVecVal(int(v) & ((1 << n_) - 1), n_)
                            return z3.Extract(n_ - 1, 0, t)

                        diff = z3.Or(*[z3.And(*[lo(a) != lo(b) for b in lt]) for a in lu], *[z3.And(*[lo(b) != lo(a) for a in lu]) for b in lt])
                        fails.append(Fail("pickle-differs", f"step {i}: {op[1:]}(exact=False) = {lu!r:.50} on the unpickled solver but {lt!r:.50} on the original (solver {sid})", diff, known_key="pickle-differs"))
        elif kind == "asat":
            _, _, sid, r, F = rec
            if not r:
                fails.append(Fail("approx-sat", f"step {i}: satisfiable(exact=False) = False although the constraints are satisfiable (solver {sid})", ex(F), known_key="approx"))
        elif kind == "aunsat":
            _, _, sid, _, F = rec
            fails.append(Fail("approx-UnsatError", f"step {i}: an approximate query raised UnsatError although the constraints are satisfiable (solver {sid})", ex(F), known_key="approx"))
        elif kind == "aeval":
            _, _, sid, r, F, ze, n = rec
            if len(r) < n:
                # fewer values than asked for: the approximate answer is complete, so it must contain every value that exists
                missing = z3.And(*[ze != lit(ze, v) for v in r]) if r else z3.BoolVal(True)
                fails.append(Fail("approx-eval", f"step {i}: eval(exact=False) = {r!r:.60} (< {n}) excludes a value the expression can take (solver {sid})",
                                  ex(z3.And(F, missing)), known_key="approx"))
        elif kind in ("amin", "amax"):
            _, _, sid, r, F, ze, signed = rec
            if r is None:
                # the approximate optimum of an expression that has no value at all (unsatisfiable constraints) comes back as None
                fails.append(Fail("approx-" + kind[1:], f"step {i}: {kind[1:]}(exact=False) = None although the expression can take a value (solver {sid})", ex(F), known_key="approx"))
                continue
            m = lit(ze, r)
            if signed:
                beyond = (ze < m) if kind == "amin" else (ze > m)
            else:
                beyond = z3.ULT(ze, m) if kind == "amin" else z3.UGT(ze, m)
            fails.append(Fail("approx-" + kind[1:], f"step {i}: {kind[1:]}(exact=False, signed={signed}) = {r!r:.40} cuts off a value the expression can take (solver {sid})",
                              ex(z3.And(F, beyond)), known_key="approx"))
        elif kind == "asolution":
            _, _, sid, r, F, ze, zv = rec
            if not r:
                fails.append(Fail("approx-solution", f"step {i}: solution(exact=False) = False for a value the expression can take (solver {sid})",
                                  ex(z3.And(F, ze == zv)), known_key="approx"))
        elif kind == "raised":
            fails.append(Fail("exception", f"step {i}: {rec[4]} raised {rec[3]}", None, known_key="exc:" + rec[3].split(":")[0]))
        elif kind == "constraints":
            _, _, sid, cons, F = rec
            got = z3.And(*[be.conv(c) for c in cons]) if cons else z3.BoolVal(True)
            fails.append(Fail("meaning", f"step {i}: the resulting solver's constraints {cons!r:.120} do not have the documented models", ex(got != F) if False else _differs(be, got, F),
                              known_key="meaning"))
        elif kind == "split":
            _, _, sid, parts, F, orig = rec
            allc = [c for p in parts for c in p]
            got = z3.And(*[be.conv(c) for c in allc]) if allc else z3.BoolVal(True)
            fails.append(Fail("split-meaning", f"step {i}: the split parts {parts!r:.120} are not equivalent to the solver", _differs(be, got, F), known_key="split"))
            vs = [set().union(*[c.variables for c in p]) if p else set() for p in parts]
            for a, b in itertools.combinations(range(len(vs)), 2):
                if vs[a] & vs[b]:
                    fails.append(Fail("split-shared", f"step {i}: split parts share variables {sorted(vs[a] & vs[b])}", None, known_key="split"))
            # every conjunct of the original exactly once
            conj = []
            for c in orig:
                conj.extend(list(c.args) if c.op == "And" else [c])
            if sorted(c.hash() for c in conj if not c.is_true()) != sorted(c.hash() for c in allc if not c.is_true()):
                fails.append(Fail("split-conjuncts", f"step {i}: split parts {parts!r:.100} are not a partition of the conjuncts {conj!r:.100}", None, known_key="split"))
        elif kind == "core":
            _, _, sid, core, F, cons = rec
            core = list(core)
            sat = ex(F)
            flat = all(hasattr(c, "op") for c in core)
            if not flat:
                fails.append(Fail("core-shape", f"step {i}: unsat_core() returned a nested / non-AST element: {core!r:.120}", z3.Not(sat), known_key="core-shape"))
                continue
            if core:
                fails.append(Fail("core-nonempty", f"step {i}: unsat_core() is non-empty although the constraints are satisfiable", sat, known_key="core"))
                cz = z3.And(*[be.conv(c) for c in core])
                fails.append(Fail("core-sat", f"step {i}: the returned core {core!r:.120} is satisfiable", z3.And(z3.Not(sat), ex(cz)), known_key="core"))
                # membership up to equivalence: a core element may be a copy rebuilt from the solver's own term (0 == x for x == 0)
                added = list(cons) + [x for c in cons if c.op == "And" for x in c.args]
                ids = {c.hash() for c in added}
                zadded = [be.conv(a) for a in added]
                stripped = {}
                for a in added:
                    if a.annotations:
                        stripped[a.clear_annotations().hash()] = a
                for c in core:
                    if c.hash() in ids:
                        continue
                    if c.hash() in stripped:
                        fails.append(Fail("core-annotation", f"step {i}: the core element {c!r:.60} is the added constraint with its annotations "
                                                             f"{[type(x).__name__ for x in stripped[c.hash()].annotations]} removed - not the object that was added",
                                          z3.Not(sat), known_key="core"))
                        continue
                    zc = be.conv(c)
                    same = z3.Or(*[fa(zc == za) for za in zadded]) if zadded else z3.BoolVal(False)
                    fails.append(Fail("core-member", f"step {i}: the core element {c!r:.60} is not (equivalent to) one of the added constraints {cons!r:.100}",
                                      z3.And(z3.Not(sat), z3.Not(same)), known_key="core"))
            else:
                fails.append(Fail("core-empty", f"step {i}: unsat_core() is empty although the constraints are unsatisfiable", z3.Not(sat), known_key="core"))
    return fails


def _on_unsat(satF):
    """classifier: the wrong answer was given on an unsatisfiable constraint set (a value where UnsatError was due)"""
    def classify(m):
        return "value-on-unsat" if z3.is_false(m.eval(satF, model_completion=True)) else None

    return classify


def _constant_value(be, ze):
    """(formula 'ze has the same value for every assignment of the variables', that value as a term over the constants)"""
    vs, _ = be._dom(be._free(ze))
    z0 = be._inst(ze, vs, [0 if w else False for _, w, _ in vs]) if vs else ze
    return (be.forall(ze == z0) if vs else z3.BoolVal(True)), z0


def _differs(be, a, b):
    """formula over the constants: some assignment distinguishes a and b"""
    return be.exists(a != b)


# ---------------------------------------------------------------------------------------------------------
# obligation runner


def run_obligation_generic(oid, params, tier, prop):
    import claripy
    from pysym import engine as E
    from pysym import glue

    from . import symrun
    from .symbackend import SymBackend

    hist = params["hist"]
    _validate_history(hist)
    cls = params["cls"]
    N = params.get("N", 3)
    reuse = params.get("reuse", False)
    track = params.get("track", False)
    names = sorted(vars_of_history(hist) | {"x"})
    variables = [(n, (N if n != "b" else 0)) for n in names]
    be = SymBackend(variables, reuse=reuse)
    claripy.backends.backends_by_type["SymBackend"] = be
    zV = {n: zv for n, _, zv in be.vars}
    zK = [z3.BitVec(f"K{i}", N) for i in range(3)]
    zconsts = {str(k): k for k in zK}
    fault = params.get("fault")
    if fault:
        be.fault_at = z3.BitVec("fault_at", 6)
        zconsts["fault_at"] = be.fault_at
    be.extra_models = bool(params.get("extra_models"))
    be.canonical_enum = bool(params.get("canonical_enum", tier == "quick"))
    be.free_choices = params.get("free_choices", 2 if tier == "quick" else None)
    known = common.known_for(common.load_known(prop), oid)
    wants = params.get("kinds")

    approx = cls == "SolverHybridApprox"
    if approx:
        from . import vsaglue

        vsaglue.install()

    def build():
        be.reset_run()
        _FCTR[0] = 0
        if fault:
            E.ENG.assume(z3.ULT(be.fault_at, 40))
        K = [glue.BVV(glue.mk(k), N) for k in zK]
        if not approx:
            return run_history(claripy, be, cls, hist, zV, zK, K, track=track)
        E.FORMAT_MODE[0] = "concretize"     # interval hashes are built from formatted fields
        vsaglue.reset_calls()
        try:
            return run_history(claripy, be, cls, hist, zV, zK, K, track=track)
        finally:
            E.FORMAT_MODE[0] = "opaque"

    def classify(m):
        from . import vsaglue

        def ev(v):
            if isinstance(v, E.SInt):
                return m.eval(E.term(v), model_completion=True).as_long()
            return int(v)

        return "inherits" if vsaglue.attribute(ev) else None

    def check(path, s, out):
        if path.kind == "exc":
            e = path.result
            tb = "".join(traceback.format_exception(e))[-500:]
            from .symrun import Fail

            return [Fail("exception", f"history raised {type(e).__name__}: {str(e)[:120]}\n{tb}", None, known_key="exc:" + type(e).__name__)]
        fl = check_log(be, out, s, prop)
        if fault:
            fl = _fault_filter(out, fl)
        if approx:
            for f in fl:
                if f.kind.startswith("approx") and f.classify is None:
                    f.classify = classify
        if wants:
            fl = [f for f in fl if any(f.kind.startswith(w) for w in wants)]
        return fl

    def make_case(vals, f):
        return {"harness": "harness.p_hist", "prop": prop, "hist": hist, "cls": cls, "N": N, "reuse": reuse, "track": track,
                "vals": vals, "obligation": oid, "fail_kind": f.kind, "detail": f.detail[:400], "fault": bool(fault)}

    sample = {"obligation": oid, "history": hist, "frontend": cls, "N": N, "reuse": reuse}
    _install_frontend_hash()
    r = symrun.run(oid, width=max(3 * N + 10, 24), zconsts=zconsts, build=build, check=check, make_case=make_case,
                   max_paths=params.get("max_paths", 3000 if tier == "quick" else 30000), known=known, sample=sample, reset=True)
    if r["status"] == "inconclusive" and any("diverged" in x for x in r["inconclusive"]):
        # code whose control flow still depends on something a replay cannot reproduce: explore by process forks instead
        sample["exploration"] = "fork (after a replay divergence)"
        r = symrun.run_fork(oid, width=max(3 * N + 10, 24), zconsts=zconsts, build=build, check=check, make_case=make_case,
                            max_seconds=params.get("cap", 40 if tier == "quick" else 400), known=known, sample=sample, reset=True)
    return r


_FCTR = [0]


def _install_frontend_hash():
    """CompositeFrontend keeps child solvers in sets / WeakSets, whose iteration order follows the objects' default hash, i.e. their
    memory address: two executions of the same history combine children in different orders.  For replay-based exploration the
    frontends get a creation-order hash (harness-only shim; identity equality is unchanged, so set semantics are the same and one
    of the possible orders is explored - as a process-fork exploration would do)."""
    from claripy.frontend.frontend import Frontend

    if getattr(Frontend, "_verif_hash_installed", False):
        return
    Frontend._verif_hash_installed = True

    def fhash(self):
        h = self.__dict__.get("_verif_hash")
        if h is None:
            _FCTR[0] += 1
            h = self.__dict__["_verif_hash"] = _FCTR[0]
        return h

    Frontend.__hash__ = fhash


def _validate_history(hist):
    for st in hist:
        for part in st:
            if isinstance(part, list):
                for a in part:
                    if isinstance(a, str) and a not in ATOMS and a not in EXPRS:
                        raise KeyError(f"history mentions unknown atom/expression {a!r}")
            elif isinstance(part, str) and part not in ATOMS and part not in EXPRS and part not in (
                    "add", "sat", "eval", "batch", "min", "max", "solution", "is_true", "is_false", "simplify", "downsize", "branch", "pickle", "pickle2",
                    "unsat_core", "combine", "merge", "split", "asat", "aeval", "amin", "amax", "asolution", "add_repl"):
                raise KeyError(f"history mentions unknown name {part!r}")


def _fault_filter(log, fails):
    """C17: the faulted operation itself must raise (recorded as 'fault'); answers of later steps must be correct - the ordinary
    specifications already say so.  Nothing to filter: kept as a hook."""
    return fails


# ---------------------------------------------------------------------------------------------------------
# native replay on the REAL Z3 backend: the history with the counterexample's constants, every answer compared with brute force


def replay(case):
    """1. the history on the REAL Z3 backend with the counterexample's constants, every answer compared with brute force;
    2. if Z3 happens to choose other models than the counterexample needs: the history on the oracle backend with concrete
       constants, exploring the backend's legal model choices; every answer re-checked on ground formulas."""
    approx = any(st[0] in ("asat", "aeval", "amin", "amax", "asolution") for st in case["hist"])
    if not case.get("fault") and not approx:
        d = _replay_real_z3(case)
        if d.get("violated"):
            d["detail"] = "[real Z3 backend] " + d["detail"]
            return d
    d2 = _replay_oracle(case)
    if case.get("fault") and not d2.get("violated"):
        # with concrete constants the real code folds differently and makes a different number of backend checks than on the symbolic
        # run, so the counterexample's check index may denote another operation: the property quantifies over EVERY position of the
        # failure, so every position is replayed and the first one that reproduces is reported
        for k in range(0, 40):
            if str(k) == str(case["vals"].get("fault_at")):
                continue
            c2 = dict(case, vals=dict(case["vals"], fault_at=k))
            d3 = _replay_oracle(c2)
            if d3.get("violated"):
                return d3
    return d2


def _replay_oracle(case):
    import claripy
    from pysym import engine as E
    from pysym import glue

    from .symbackend import SymBackend

    hist, cls, N, vals = case["hist"], case["cls"], case["N"], case["vals"]
    prop = case.get("prop", "C11")
    names = sorted(vars_of_history(hist) | {"x"})
    be = SymBackend([(n, (N if n != "b" else 0)) for n in names], reuse=case.get("reuse", False))
    claripy.backends.backends_by_type["SymBackend"] = be
    glue.install()
    E.set_engine(E.Engine())
    E.set_width(max(3 * N + 10, 24))
    kv = [int(vals.get(f"K{i}", 0)) for i in range(3)]
    zV = {n: zv for n, _, zv in be.vars}
    zK = [z3.BitVecVal(v, N) for v in kv]
    fault_pos = vals.get("fault_at")
    if case.get("fault"):
        be.fault_at = z3.BitVecVal(int(fault_pos or 0), 6)

    def build():
        glue.reset_caches()
        be.reset_run()
        K = [claripy.BVV(v, N) for v in kv]
        return run_history(claripy, be, cls, hist, zV, zK, K, track=case.get("track", False))

    desc = f"cls={cls} reuse={case.get('reuse', False)} N={N} K={kv} history={hist}" + (f" fault at check {fault_pos}" if case.get("fault") else "")
    n = 0
    for path in E.explore(build, max_paths=20000):
        n += 1
        if path.kind == "exc":
            e = path.result
            return {"violated": True, "detail": f"[oracle backend, path {n}] history raised {type(e).__name__}: {str(e)[:150]}; {desc}"}
        if path.kind != "ok":
            continue
        s = z3.Solver()
        for f in path.pc:
            s.add(f)
        if s.check() != z3.sat:
            continue
        fl = check_log(be, path.result, s, prop)
        if case.get("fault"):
            fl = _fault_filter(path.result, fl)
        for f in fl:
            if f.kind == "unknown":
                continue
            if f.extra is None or s.check(f.extra) == z3.sat:
                choices = [str(c) for c in path.pc if "sk" in str(c)][:12]
                return {"violated": True, "detail": f"[oracle backend: real frontend code, legal backend answers {choices}] {f.kind}: {f.detail}; {desc}"}
    return {"violated": False, "detail": f"every answer is correct on the real Z3 backend and under all {n} legal model choices of the oracle backend; {desc}"}


def _replay_real_z3(case):
    import claripy
    from claripy.errors import ClaripyError, UnsatError

    hist, cls, N, vals = case["hist"], case["cls"], case["N"], case["vals"]
    reuse = case.get("reuse", False)
    track = case.get("track", False)
    kv = [int(vals.get(f"K{i}", 0)) for i in range(3)]
    names = sorted(vars_of_history(hist) | {"x"})
    be = claripy.backends.z3
    be.reuse_z3_solver = reuse
    mk = {
        "Solver": lambda: claripy.Solver(track=track), "SolverCacheless": lambda: claripy.SolverCacheless(track=track),
        "SolverStrings": lambda: claripy.SolverStrings(track=track),
        "SolverComposite": lambda: claripy.SolverComposite(template_solver=claripy.solvers.SolverCompositeChild(track=track), track=track),
        "SolverReplacement": lambda: claripy.SolverReplacement(actual_frontend=claripy.Solver(track=track)),
        "SolverHybridExact": lambda: claripy.SolverHybrid(exact_frontend=claripy.Solver(track=track)),
    }[cls]
    V = {n: (claripy.BVS(n, N, explicit_name=True) if n != "b" else claripy.BoolS("b", explicit_name=True)) for n in names}
    K = [claripy.BVV(v, N) for v in kv]
    doms = [range(1 << N) if n != "b" else (False, True) for n in names]

    def pyeval(ast, asg):
        e = ast
        for n, v in asg.items():
            e = claripy.replace(e, V[n], claripy.BVV(v, N) if n != "b" else claripy.BoolV(v))
        if isinstance(e, claripy.ast.Bool):
            return claripy.backends.concrete.is_true(e)
        return claripy.backends.concrete.eval(e, 1)[0]

    def models(cons):
        out = []
        for combo in itertools.product(*doms):
            asg = dict(zip(names, combo))
            if all(pyeval(c, asg) for c in cons):
                out.append(asg)
        return out

    S = {0: mk()}
    R = {0: []}
    desc = f"cls={cls} reuse={reuse} N={N} K={kv} history={hist}"
    A = lambda ns: [ATOMS[a][0](claripy, V, K) for a in ns]  # noqa: E731
    try:
        for i, st in enumerate(hist):
            op, sid = st[0], st[1]
            s = S[sid]
            try:
                if op == "add":
                    s.add(A(st[2]))
                    R[sid] = R[sid] + A(st[2])
                elif op == "sat":
                    r = s.satisfiable(extra_constraints=tuple(A(st[2])))
                    want = bool(models(R[sid] + A(st[2])))
                    if r != want:
                        return {"violated": True, "detail": f"step {i}: satisfiable() = {r}, truth {want}; {desc}"}
                elif op in ("eval", "batch"):
                    es = [EXPRS[e][0](claripy, V, K) for e in (st[2] if op == "batch" else [st[2]])]
                    ms = models(R[sid] + A(st[4]))
                    feas = {tuple(pyeval(e, m) for e in es) for m in ms}
                    try:
                        r = [(v,) for v in s.eval(es[0], st[3], extra_constraints=tuple(A(st[4])))] if op == "eval" else [tuple(t) for t in s.batch_eval(es, st[3], extra_constraints=tuple(A(st[4])))]
                    except UnsatError:
                        if feas:
                            return {"violated": True, "detail": f"step {i}: UnsatError but feasible results {sorted(feas)[:5]}; {desc}"}
                        continue
                    rs = [tuple(t) for t in r]
                    if all(not e.variables for e in es):
                        continue   # constant expressions: answered without the solver
                    bad = (not set(rs) <= feas) or len(set(rs)) != len(rs) or len(rs) > st[3] or (len(rs) < st[3] and set(rs) != feas)
                    if bad:
                        return {"violated": True, "detail": f"step {i}: {op} -> {rs}, feasible {sorted(feas)[:8]}, n={st[3]}; {desc}"}
                elif op in ("min", "max"):
                    e = EXPRS[st[2]][0](claripy, V, K)
                    ms = models(R[sid] + A(st[4]))
                    vs = [pyeval(e, m) for m in ms]
                    try:
                        r = getattr(s, op)(e, extra_constraints=tuple(A(st[4])), signed=st[3])
                    except UnsatError:
                        if vs:
                            return {"violated": True, "detail": f"step {i}: UnsatError but feasible values {sorted(set(vs))[:5]}; {desc}"}
                        continue
                    if not e.variables:
                        continue   # constant expression: answered without the solver
                    if not vs:
                        return {"violated": True, "detail": f"step {i}: {op} = {r} on unsatisfiable constraints; {desc}"}
                    w = len(e)
                    key = (lambda v: v - (1 << w) if v >> (w - 1) else v) if st[3] else (lambda v: v)
                    want = (min if op == "min" else max)(vs, key=key)
                    if (r & ((1 << w) - 1)) != want:
                        return {"violated": True, "detail": f"step {i}: {op}(signed={st[3]}) = {r}, true optimum {want} (values {sorted(set(vs))[:8]}); {desc}"}
                    if not (-(1 << (w - 1)) <= r < (1 << (w - 1)) if st[3] else 0 <= r < (1 << w)):
                        return {"violated": True, "detail": f"step {i}: {op}(signed={st[3]}) = {r} is outside the {'signed' if st[3] else 'unsigned'} range of {w} bits; {desc}"}
                elif op == "solution":
                    e = EXPRS[st[2]][0](claripy, V, K)
                    ms = models(R[sid] + A(st[4]))
                    want = any(pyeval(e, m) == kv[st[3]] for m in ms)
                    try:
                        r = s.solution(e, K[st[3]], extra_constraints=tuple(A(st[4])))
                    except UnsatError:
                        if ms:
                            return {"violated": True, "detail": f"step {i}: solution raised UnsatError on satisfiable constraints; {desc}"}
                        continue
                    if r != want:
                        return {"violated": True, "detail": f"step {i}: solution() = {r}, truth {want}; {desc}"}
                elif op in ("is_true", "is_false"):
                    a = A([st[2]])[0]
                    r = getattr(s, op)(a, extra_constraints=tuple(A(st[3])))
                    ms = models(R[sid] + A(st[3]))
                    if r and any((not pyeval(a, m)) if op == "is_true" else pyeval(a, m) for m in ms):
                        return {"violated": True, "detail": f"step {i}: {op} answered True wrongly; {desc}"}
                elif op == "simplify":
                    s.simplify()
                elif op == "downsize":
                    s.downsize()
                elif op == "branch":
                    S[st[2]] = s.branch()
                    R[st[2]] = list(R[sid])
                elif op == "pickle":
                    S[sid] = pickle.loads(pickle.dumps(s, -1))
                elif op == "pickle2":
                    S[sid], S[st[2]] = pickle.loads(pickle.dumps((s, S[st[2]]), -1))
                elif op == "unsat_core":
                    core = list(s.unsat_core())
                    ms = models(R[sid])
                    flat = all(hasattr(c, "op") for c in core)
                    if not flat:
                        if not ms:
                            return {"violated": True, "detail": f"step {i}: unsat_core() returned a nested element {core!r:.150}; {desc}"}
                        continue
                    if ms and core:
                        return {"violated": True, "detail": f"step {i}: non-empty core on satisfiable constraints; {desc}"}
                    if not ms:
                        added = list(R[sid]) + [x for c in R[sid] if c.op == "And" for x in c.args]
                        keys = [_models_key(models([a])) for a in added]
                        if not core or models(core) or any(_models_key(models([c])) not in keys for c in core):
                            return {"violated": True, "detail": f"step {i}: core {core!r:.150} is empty, satisfiable or not a subset; {desc}"}
                elif op == "combine":
                    S[st[3]] = s.combine([S[o] for o in st[2]])
                    R[st[3]] = list(R[sid]) + [f for o in st[2] for f in R[o]]
                    if _models_key(models(list(S[st[3]].constraints))) != _models_key(models(R[st[3]])):
                        return {"violated": True, "detail": f"step {i}: combine has different models; {desc}"}
                elif op == "merge":
                    conds = A(st[3])
                    anc = S[st[4]] if len(st) > 5 and st[4] is not None else None
                    _, m = s.merge([S[o] for o in st[2]], conds, common_ancestor=anc) if anc is not None else s.merge([S[o] for o in st[2]], conds)
                    new = st[5] if len(st) > 5 else st[4]
                    S[new] = m
                    alls = [sid, *st[2]]
                    if anc is not None:
                        R[new] = list(R[st[4]]) + [claripy.Or(*conds)]
                    else:
                        R[new] = [claripy.Or(*[claripy.And(c, *R[o]) for c, o in zip(conds, alls)])]
                    if _models_key(models(list(m.constraints))) != _models_key(models(R[new])):
                        return {"violated": True, "detail": f"step {i}: merge has different models: {list(m.constraints)!r:.200}; {desc}"}
                elif op == "split":
                    parts = s.split()
                    allc = [c for p in parts for c in p.constraints]
                    if _models_key(models(allc)) != _models_key(models(R[sid])):
                        return {"violated": True, "detail": f"step {i}: split parts are not equivalent; {desc}"}
                    for k, p in enumerate(parts):
                        S[st[2] + k] = p
                        R[st[2] + k] = list(p.constraints)
            except UnsatError as e:
                return {"violated": True, "detail": f"step {i}: {op} raised {type(e).__name__}: {e}; {desc}"} if models(R[sid]) else {"violated": False, "detail": "unsat"}
            except ClaripyError as e:
                return {"violated": True, "detail": f"step {i}: {op} raised {type(e).__name__}: {str(e)[:150]}; {desc}"}
            except Exception as e:  # noqa: BLE001
                return {"violated": True, "detail": f"step {i}: {op} raised {type(e).__name__}: {str(e)[:150]}; {desc}"}
    finally:
        be.reuse_z3_solver = False
    return {"violated": False, "detail": "every answer is correct natively on the real Z3 backend; " + desc}


def _models_key(ms):
    return sorted(tuple(sorted(m.items())) for m in ms)
