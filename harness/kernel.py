"""Kernel leg: claripy/backends/backend_concrete/bv.py executed on symbolic operands (pysym SInt inside the
real bv.BVV objects) and compared, per path, with the SMT-LIB operator taken from Z3 itself.
"""
from __future__ import annotations

import traceback

import z3

from . import common


def _bvmod():
    from claripy.backends.backend_concrete import bv

    return bv


def _rev(a):
    n = a.size()
    if n == 8:
        return a
    return z3.Concat(*[z3.Extract(i * 8 + 7, i * 8, a) for i in range(n // 8)])


# name -> (arity, impl(bv, A, B, *params), ref(a, b, *params), result kind)
def _table():
    bv = _bvmod()
    T = {}

    def bin_(name, impl, ref, kind="bv"):
        T[name] = (2, impl, ref, kind)

    def un_(name, impl, ref, kind="bv"):
        T[name] = (1, impl, ref, kind)

    bin_("add", lambda A, B: A + B, lambda a, b: a + b)
    bin_("sub", lambda A, B: A - B, lambda a, b: a - b)
    bin_("mul", lambda A, B: A * B, lambda a, b: a * b)
    bin_("udiv", lambda A, B: A // B, lambda a, b: z3.UDiv(a, b))
    bin_("utruediv", lambda A, B: A / B, lambda a, b: z3.UDiv(a, b))
    bin_("urem", lambda A, B: A % B, lambda a, b: z3.URem(a, b))
    bin_("sdiv", lambda A, B: bv.SDiv(A, B), lambda a, b: a / b)
    bin_("smod", lambda A, B: bv.SMod(A, B), lambda a, b: z3.SRem(a, b))
    bin_("and", lambda A, B: A & B, lambda a, b: a & b)
    bin_("or", lambda A, B: A | B, lambda a, b: a | b)
    bin_("xor", lambda A, B: A ^ B, lambda a, b: a ^ b)
    bin_("shl", lambda A, B: A << B, lambda a, b: a << b)
    bin_("ashr", lambda A, B: A >> B, lambda a, b: a >> b)
    bin_("lshr", lambda A, B: bv.LShR(A, B), lambda a, b: z3.LShR(a, b))
    bin_("rol", lambda A, B: bv.RotateLeft(A, B), lambda a, b: z3.RotateLeft(a, b))
    bin_("ror", lambda A, B: bv.RotateRight(A, B), lambda a, b: z3.RotateRight(a, b))
    # reversed forms: Python int on the left
    bin_("radd", lambda A, B: A.value + B, lambda a, b: a + b)
    bin_("rsub", lambda A, B: A.value - B, lambda a, b: a - b)
    bin_("rmul", lambda A, B: A.value * B, lambda a, b: a * b)
    bin_("rudiv", lambda A, B: A.value // B, lambda a, b: z3.UDiv(a, b))
    bin_("rurem", lambda A, B: A.value % B, lambda a, b: z3.URem(a, b))
    bin_("rand", lambda A, B: A.value & B, lambda a, b: a & b)
    bin_("ror_", lambda A, B: A.value | B, lambda a, b: a | b)
    bin_("rxor", lambda A, B: A.value ^ B, lambda a, b: a ^ b)
    # int << BVV / int >> BVV (bv.BVV.__rlshift__/__rrshift__) are not in the table: they read the shift amount as
    # signed, but no public constructor reaches them (AST-level reversed operators swap the arguments and call
    # __lshift__/__rshift__), so a counterexample there is an under-constrained false alarm, not a finding.
    un_("not", lambda A: ~A, lambda a: ~a)
    un_("neg", lambda A: -A, lambda a: -a)
    un_("reverse", lambda A: bv.Reverse(A), _rev)
    for nm, f, g in (
        ("eq", lambda A, B: A == B, lambda a, b: a == b),
        ("ne", lambda A, B: A != B, lambda a, b: a != b),
        ("ult", lambda A, B: bv.ULT(A, B), z3.ULT),
        ("ule", lambda A, B: bv.ULE(A, B), z3.ULE),
        ("ugt", lambda A, B: bv.UGT(A, B), z3.UGT),
        ("uge", lambda A, B: bv.UGE(A, B), z3.UGE),
        ("mult", lambda A, B: A.ULT(B), z3.ULT),
        ("mule", lambda A, B: A.ULE(B), z3.ULE),
        ("mugt", lambda A, B: A.UGT(B), z3.UGT),
        ("muge", lambda A, B: A.UGE(B), z3.UGE),
        ("slt", lambda A, B: bv.SLT(A, B), lambda a, b: a < b),
        ("sle", lambda A, B: bv.SLE(A, B), lambda a, b: a <= b),
        ("sgt", lambda A, B: bv.SGT(A, B), lambda a, b: a > b),
        ("sge", lambda A, B: bv.SGE(A, B), lambda a, b: a >= b),
    ):
        bin_(nm, f, g, "bool")
    T["extract"] = (1, lambda A, hi, lo: bv.Extract(hi, lo, A), lambda a, hi, lo: z3.Extract(hi, lo, a), "bv")
    T["zext"] = (1, lambda A, k: bv.ZeroExt(k, A), lambda a, k: z3.ZeroExt(k, a), "bv")
    T["sext"] = (1, lambda A, k: bv.SignExt(k, A), lambda a, k: z3.SignExt(k, a), "bv")
    T["concat"] = (2, lambda A, B: bv.Concat(A, B), lambda a, b: z3.Concat(a, b), "bv")
    T["concat3"] = (2, lambda A, B: bv.Concat(A, B, A), lambda a, b: z3.Concat(a, b, a), "bv")
    T["if"] = (2, None, None, "bv")  # handled specially (symbolic bool condition not needed: both arms)
    T["signed"] = (1, lambda A: A.signed, lambda a: a, "signedint")
    return T


HEAVY = {"mul", "rmul", "udiv", "utruediv", "urem", "rudiv", "rurem", "sdiv", "smod"}
DIV = {"udiv", "utruediv", "urem", "rudiv", "rurem", "sdiv", "smod"}


def obligations(tier):
    T = _table()
    quick = tier == "quick"
    widths = [1, 3, 4, 8, 12, 16, 64] if quick else [1, 2, 3, 4, 5, 7, 8, 12, 16, 24, 32, 64, 128]
    out = []
    for name, (ar, impl, ref, kind) in T.items():
        if impl is None:
            continue
        for n in widths:
            if name in ("sdiv", "smod") and n > (8 if quick else 12):
                continue
            if name in DIV and n > (8 if quick else 16):
                continue
            if name in HEAVY and n > (16 if quick else 32):
                continue
            if name == "reverse" and n % 8:
                continue
            if name == "extract":
                if n <= 8:
                    pl = [(hi, lo) for hi in range(n) for lo in range(hi + 1)]
                else:
                    pts = sorted({0, 1, 7, 8, n // 2, n - 2, n - 1})
                    pl = [(hi, lo) for hi in pts for lo in pts if lo <= hi < n]
                if quick and len(pl) > 12:
                    pl = pl[:: max(1, len(pl) // 12)]
                for hi, lo in pl:
                    out.append((f"kernel:{name}:{n}:{hi}_{lo}", {"op": name, "n": n, "params": [hi, lo]}))
                continue
            if name in ("zext", "sext"):
                for k in (0, 1, n):
                    out.append((f"kernel:{name}:{n}:{k}", {"op": name, "n": n, "params": [k]}))
                continue
            out.append((f"kernel:{name}:{n}", {"op": name, "n": n, "params": []}))
    return out


def run_obligation(oid, params, tier, prop="C01"):
    from claripy.errors import ClaripyZeroDivisionError
    from pysym import engine as E

    bv = _bvmod()
    T = _table()
    name, n, ps = params["op"], params["n"], params["params"]
    ar, impl, ref, kind = T[name]
    E.set_width(max((3 if name.startswith("concat") else 2) * n + 4, 16))
    a = z3.BitVec("a", n)
    b = z3.BitVec("b", n)
    res = common.result(oid, "holds")
    res["sample"] = {"obligation": oid, "kernel": name, "width": n, "params": ps}

    def run():
        A = bv.BVV(E.SInt.unsigned(a), n)
        if ar == 1:
            return impl(A, *ps)
        return impl(A, bv.BVV(E.SInt.unsigned(b), n), *ps)

    want = ref(a, b, *ps) if ar == 2 else ref(a, *ps)
    cap_ms = 20000 if tier == "quick" else 120000
    ex = E.explore(run, max_paths=400)
    fail = None
    for path in ex:
        s = E.new_solver(path.pc, cap_ms)
        if path.kind in ("unknown", "unsupported", "diverged"):
            continue
        fit_ok = True
        for o in path.obligations:
            q = E.check_sat(s, z3.Not(o))
            if q != "unsat":
                res["inconclusive"].append(f"integer-model (fits) obligation {q}")
                fit_ok = False
                break
        if path.kind == "exc":
            e = path.result
            if isinstance(e, ClaripyZeroDivisionError) and name in DIV:
                q = E.check_sat(s, b != 0)
                if q == "sat":
                    fail = ("zero-division error with non-zero divisor", s)
                    break
                if q == "unknown":
                    res["inconclusive"].append("unknown: zero-division condition")
                continue
            if E.check_sat(s) == "sat" and prop in ("C01", "C04"):
                fail = (f"raised {type(e).__name__}: {e}"[:300] + "".join(traceback.format_exception(e))[-500:], s)
                break
            continue
        if prop == "C04":
            continue
        r = path.result
        if kind == "bool":
            if not isinstance(r, bool):
                fail = (f"comparison returned {type(r).__name__}", s)
                break
            s.push()
            s.add(z3.BoolVal(r) != want)
        elif kind == "signedint":
            s.push()
            s.add(z3.Or(E.term(r) != z3.SignExt(E.W() - n, want), z3.Not(E.fits(r))))
        else:
            if not isinstance(r, bv.BVV) or r.bits != want.size():
                fail = (f"result {r!r} has wrong type/width (expected {want.size()} bits)", s)
                break
            v = r.value
            vt = E.term(v)
            w = want.size()
            # value is the denoted value, stored normalised (0 <= value < 2**bits)
            s.push()
            s.add(z3.Or(z3.Extract(w - 1, 0, vt) != want, z3.Not(E.fits(v)), z3.Extract(E.W() - 1, w, vt) != 0))
        q = E.check_sat(s)
        if q == "sat":
            fail = ("result differs from the SMT-LIB operator", s)
            break
        if q == "unknown":
            res["inconclusive"].append("unknown: kernel equivalence query")
        s.pop()
    res["paths"] = ex.paths
    res["inconclusive"] += ex.inconclusive
    if fail:
        why, s = fail
        E.check_sat(s)
        m = s.model()
        av = m.eval(a, model_completion=True).as_long()
        bvv = m.eval(b, model_completion=True).as_long()
        res["status"] = "violation"
        res["detail"] = why
        res["cex"] = [{"harness": "harness.kernel", "prop": prop, "op": name, "n": n, "params": ps, "a": av, "b": bvv,
                       "obligation": oid}]
    elif res["inconclusive"]:
        res["status"] = "inconclusive"
        res["detail"] = res["inconclusive"][0]
    return res


def replay(case):
    from claripy.errors import ClaripyZeroDivisionError

    bv = _bvmod()
    T = _table()
    name, n, ps, av, bvl = case["op"], case["n"], case["params"], case["a"], case["b"]
    ar, impl, ref, kind = T[name]
    a = z3.BitVecVal(av, n)
    b = z3.BitVecVal(bvl, n)
    want = z3.simplify(ref(a, b, *ps) if ar == 2 else ref(a, *ps))
    desc = f"kernel {name} n={n} params={ps} a={av:#x} b={bvl:#x}"
    try:
        r = impl(bv.BVV(av, n), *ps) if ar == 1 else impl(bv.BVV(av, n), bv.BVV(bvl, n), *ps)
    except ClaripyZeroDivisionError:
        bad = not (name in DIV and bvl == 0)
        return {"violated": bad, "detail": f"ClaripyZeroDivisionError; {desc}"}
    except Exception as e:  # noqa: BLE001
        return {"violated": True, "detail": f"raised {type(e).__name__}: {e}; {desc}"}
    if case.get("prop") == "C04":
        return {"violated": False, "detail": "no exception natively; " + desc}
    if kind == "bool":
        ok = isinstance(r, bool) and r == z3.is_true(want)
        return {"violated": not ok, "detail": f"got {r!r}, SMT-LIB says {want}; {desc}"}
    if kind == "signedint":
        ok = r == want.as_signed_long()
        return {"violated": not ok, "detail": f"got {r!r}, expected {want.as_signed_long()}; {desc}"}
    ok = isinstance(r, bv.BVV) and r.bits == want.size() and r.value == want.as_long()
    return {"violated": not ok, "detail": f"got {r!r}, SMT-LIB says {want.as_long():#x} ({want.size()} bits); {desc}"}
