"""check driver for the expression-level properties C01/C04/C05/C06/C10"""
from __future__ import annotations

import fnmatch

from . import common, props_expr


def run_obligation(oid, params, tier):
    return props_expr.run_obligation(oid, params, tier)


LEVEL_TEXT = {
    "C01": "translation_validation", "C04": "translation_validation", "C05": "translation_validation",
    "C06": "translation_validation", "C10": "translation_validation",
}


def check(prop, tier, cap, only=None, procs=None, list_only=False, t0=None):
    obs = props_expr.obligations(tier, prop)
    for _, p in obs:
        p["prop"] = prop
    if only:
        obs = [o for o in obs if fnmatch.fnmatchcase(o[0], only)]
    if list_only:
        for o, _ in obs:
            print(o)
        return 0
    results = common.run_pool("harness.p_expr", obs, tier, cap, procs=procs)
    if prop == "C06":
        # second leg: solver-generated colliding values and pools, pairwise identity against a deep structural comparison
        from . import p_c06b

        cobs = p_c06b.obligations(tier)
        if only:
            cobs = [o for o in cobs if fnmatch.fnmatchcase(o[0], only)]
        results += common.run_pool("harness.p_c06b", cobs, tier, cap, procs=procs)
    if prop == "C04":
        # floating-point folding on symbolic operand values, asked only whether it crashes (all values, specified result or not)
        from . import p_c02

        fobs = p_c02.crash_obligations(tier)
        if only:
            fobs = [o for o in fobs if fnmatch.fnmatchcase(o[0], only)]
        results += common.run_pool("harness.p_c02", fobs, tier, cap, procs=procs)
    if prop == "C10":
        # Boolean-valued floating-point operations on concrete operands fold to the literal every truth check reports
        from . import p_c02

        tobs = p_c02.truth_obligations(tier)
        if only:
            tobs = [o for o in tobs if fnmatch.fnmatchcase(o[0], only)]
        results += common.run_pool("harness.p_c02", tobs, tier, cap, procs=procs)
    if prop == "C10":
        # a solver's is_true / is_false over query histories (memoised answers): the history harness on the oracle backend
        from . import p_solvers

        hobs = p_solvers.obligations("C10", tier)
        for _, p in hobs:
            p["prop"] = "C10"
        if only:
            hobs = [o for o in hobs if fnmatch.fnmatchcase(o[0], only)]
        results += common.run_pool("harness.p_solvers", hobs, tier, cap, procs=procs)
    if prop == "C05":
        # metadata under substitution and rewriting: the rewriting utilities of C08 run again, checked for the metadata of their results
        from . import p_c08

        mobs = p_c08.meta_obligations(tier)
        if only:
            mobs = [o for o in mobs if fnmatch.fnmatchcase(o[0], only)]
        results += common.run_pool("harness.p_c08", mobs, tier, cap, procs=procs)
    quick = tier == "quick"
    bounds = {
        "widths_ast": [1, 8, 32, 64] if quick else [1, 2, 3, 4, 8, 16, 32, 64, 128],
        "shapes": "rule-targeted seeds (one or more per simplifier branch) + all depth-1 trees + depth-2 compositions "
                  + ("over the ops that have simplifiers at width 8" if quick else "over all ops at widths 4,8,32,64"),
        "heavy_arith_max_width": 8 if quick else 16,
        "path_budget_per_shape": 400 if quick else 6000,
        "wall_cap_per_obligation_s": cap,
        "solver_cap_ms": 20000 if quick else 120000,
        "outside": "trees deeper than the grammar/seeds, widths not listed, symbolic x symbolic mul/div above the heavy width",
    }
    return common.finish(
        prop, tier, LEVEL_TEXT[prop], results, t0,
        functions=props_expr.FUNCTIONS, bounds=bounds,
        assumptions=[
            "every constant position is a solver variable (all values of the width); every variable assignment is quantified by Z3",
            "shapes (operation trees) and widths are enumerated, not symbolic",
            "pysym integer model: W-bit two's complement with a fits-obligation checked per path",
            "BackendZ3.simplify is the identity on expressions with symbolic constants (cannot cross libz3)",
            "reference terms are built by an independent z3py interpreter of the same tree",
        ],
        rule="one obligation = one (operation tree, width) or one (concrete kernel, width); the real claripy code is executed "
             "on symbolic constants, every path is explored and Z3 decides the assertion for all constants and all variable "
             "assignments on that path; an obligation is non-trivial if at least one path was explored and one query discharged",
    )
