"""C21 / C22 — strided-interval transfer functions, joins/meets/widening and queries.

The real StridedInterval methods are executed on intervals whose stride / lower bound / upper bound are
symbolic n-bit values (pysym shadows); on every explored path Z3 decides, for ALL intervals on that path and
ALL concrete members x in gamma(a), y in gamma(b), that the SMT-LIB result op(x, y) is a member of the abstract result
(C21), resp. that joins contain their operands, meets contain common members and the queries agree with the
member set (C22).
"""
from __future__ import annotations

import fnmatch
import traceback

import z3

from . import common

# ---------------------------------------------------------------------------------------------------------
# gamma


def member(z, s, lb, ub):
    d = z - lb
    return z3.And(z3.ULE(d, ub - lb), z3.If(s == 0, d == 0, z3.URem(d, s) == 0))


def wellformed(s, lb, ub):
    span = ub - lb
    return z3.If(lb == ub, z3.BoolVal(True), z3.And(s != 0, z3.URem(span, s) == 0))


def py_members(bits, s, lb, ub):
    """independent concrete gamma for replays"""
    mask = (1 << bits) - 1
    s, lb, ub = s & mask, lb & mask, ub & mask
    span = (ub - lb) & mask
    if s == 0 or lb == ub:
        return {lb}
    return {(lb + k) & mask for k in range(0, span + 1, s)}


def wf_triples(n):
    m = (1 << n) - 1
    out = []
    for s in range(m + 1):
        for lb in range(m + 1):
            for ub in range(m + 1):
                span = (ub - lb) & m
                if lb == ub or (s != 0 and span % s == 0):
                    out.append((s, lb, ub))
    return out


def key_of(n, *triples):
    k = 0
    for t in triples:
        for v in t:
            k = (k << n) | v
    return k


_TABLES = None


def tables():
    """known-failing operand tuples per obligation (written by tools/triage_vsa.py; never extended at run time)"""
    global _TABLES
    if _TABLES is None:
        import json
        import os

        p = os.path.join(common.ROOT, "known_vsa_tables.json")
        _TABLES = json.load(open(p)) if os.path.exists(p) else {}
    return _TABLES


def known_exclusion(prop, oid, n, arity, fields):
    """formula that holds exactly for the operand tuples NOT listed as known-failing for this obligation
    (None if nothing is listed)"""
    import itertools

    tab = tables().get(prop + "/" + oid)
    if not tab or not tab["count"]:
        return None
    key = z3.Concat(*fields) if len(fields) > 1 else fields[0]
    F = tab["keys"]
    if 2 * len(F) <= tab["total"]:
        return z3.Not(z3.Or(*[key == z3.BitVecVal(k, key.size()) for k in F]))
    Fs = set(F)
    tri = wf_triples(n)
    P = [key_of(n, *c) for c in itertools.product(tri, repeat=arity)]
    P = [k for k in P if k not in Fs]
    return z3.Or(*[key == z3.BitVecVal(k, key.size()) for k in P]) if P else z3.BoolVal(False)


# ---------------------------------------------------------------------------------------------------------
# shims (module namespace of strided_interval; listed in evidence)


def _install_shims():
    import builtins
    import math

    import claripy.backends.backend_vsa.strided_interval as simod
    from pysym import engine as E

    if getattr(simod, "_verif_shimmed", False):
        return
    simod._verif_shimmed = True

    def conc(v):
        return v.concrete() if isinstance(v, E.SInt) else v

    class MathShim:
        @staticmethod
        def gcd(*args):
            from functools import reduce

            def g2(a, b):
                a = abs(a)
                b = abs(b)
                while b != 0:
                    a, b = b, a % b
                return a

            return reduce(g2, args, 0)

        @staticmethod
        def lcm(a, b):
            if a == 0 or b == 0:
                return 0
            return abs(a * b) // MathShim.gcd(a, b)

        @staticmethod
        def log2(v):
            return math.log2(conc(v))

        @staticmethod
        def floor(v):
            return math.floor(conc(v)) if not isinstance(v, float) else math.floor(v)

        @staticmethod
        def ceil(v):
            return math.ceil(conc(v)) if not isinstance(v, float) else math.ceil(v)

        def __getattr__(self, k):
            return getattr(math, k)

    def sym_range(*args):
        return builtins.range(*[conc(a) for a in args])

    def sym_float(v=0.0):
        if isinstance(v, E.SInt):
            return builtins.float(conc(v))
        return builtins.float(v)

    def sym_int(v=0, *a):
        # int(x) on an int subclass copies the machine value (0 for a shadow): keep the shadow instead
        return v if isinstance(v, E.SInt) else builtins.int(v, *a)

    simod.math = MathShim()
    simod.range = sym_range
    simod.float = sym_float
    simod.int = sym_int


SHIMS = ["math.gcd/lcm (Euclid on shadows)", "int() (identity on shadows)", "math.log2/floor/ceil, range(), float() (concretise their symbolic argument by forking over its values)"]

# ---------------------------------------------------------------------------------------------------------
# operation tables

# binary transfer functions: name -> (impl(a, b), ref(x, y), precondition(x, y) or None)
BIN = {
    "add": (lambda a, b: a + b, lambda x, y: x + y, None),
    "sub": (lambda a, b: a - b, lambda x, y: x - y, None),
    "mul": (lambda a, b: a * b, lambda x, y: x * y, None),
    "udiv": (lambda a, b: a // b, lambda x, y: z3.UDiv(x, y), lambda x, y: y != 0),
    "sdiv": (lambda a, b: a.sdiv(b), lambda x, y: x / y, lambda x, y: y != 0),
    "mod": (lambda a, b: a % b, lambda x, y: z3.URem(x, y), lambda x, y: y != 0),
    "and": (lambda a, b: a & b, lambda x, y: x & y, None),
    "or": (lambda a, b: a | b, lambda x, y: x | y, None),
    "xor": (lambda a, b: a ^ b, lambda x, y: x ^ y, None),
    "shl": (lambda a, b: a << b, lambda x, y: x << y, None),
    "lshr": (lambda a, b: a.LShR(b), lambda x, y: z3.LShR(x, y), None),
    "ashr": (lambda a, b: a >> b, lambda x, y: x >> y, None),
    "concat": (lambda a, b: a.concat(b), lambda x, y: z3.Concat(x, y), None),
}
CMPS = {
    "ULT": z3.ULT, "ULE": z3.ULE, "UGT": z3.UGT, "UGE": z3.UGE,
    "SLT": lambda x, y: x < y, "SLE": lambda x, y: x <= y, "SGT": lambda x, y: x > y, "SGE": lambda x, y: x >= y,
    "eq": lambda x, y: x == y,
}
UN = {
    "neg": (lambda a: -a, lambda x: -x),
    "negm": (lambda a: a.neg(), lambda x: -x),
    "not": (lambda a: ~a, lambda x: ~x),
}
# C22
JOIN = ["union", "lub", "lub3", "widen", "intersection"]
QUERY = ["eval", "evalsigned", "min", "max", "smin", "smax", "cardinality", "solution", "is_top_empty"]

CHEAP = {"add", "sub", "neg", "negm", "not", "and", "xor", "zext", "sext", "extract", "concat", "shl", "lshr", "ashr"}


def obligations(prop, tier):
    quick = tier == "quick"
    obs = []
    if prop == "C21":
        for op in BIN:
            costly = op in ("mul", "udiv", "sdiv", "mod", "or", "xor", "concat")   # path count grows fastest with the width
            if quick:
                ws = [1, 2] if costly else [1, 2, 3]
            else:
                ws = [1, 2, 3] if costly else [1, 2, 3, 4]
                if op in ("add", "sub"):
                    ws += [5, 8]
            for n in sorted(set(ws)):
                obs.append((f"si:{op}:{n}", {"kind": "bin", "op": op, "n": n}))
        for op in CMPS:
            for n in ([1, 2, 3] if quick else [1, 2, 3, 4, 5]):
                obs.append((f"si:{op}:{n}", {"kind": "cmp", "op": op, "n": n}))
        for op in UN:
            for n in ([1, 2, 3, 4] if quick else [1, 2, 3, 4, 5, 8]):
                obs.append((f"si:{op}:{n}", {"kind": "un", "op": op, "n": n}))
        for n in ([2, 3, 4] if quick else [2, 3, 4, 5, 8]):
            for k in (1, n):
                obs.append((f"si:zext{k}:{n}", {"kind": "ext", "op": "zext", "n": n, "k": k}))
                obs.append((f"si:sext{k}:{n}", {"kind": "ext", "op": "sext", "n": n, "k": k}))
            pairs = [(hi, lo) for hi in range(n) for lo in range(hi + 1)] if n <= 4 else [(n - 1, 1), (n - 2, 0), (3, 2), (n - 1, n - 1), (0, 0)]
            for hi, lo in pairs:
                if hi - lo + 1 == n:
                    continue
                obs.append((f"si:extract{hi}_{lo}:{n}", {"kind": "ext", "op": "extract", "n": n, "hi": hi, "lo": lo}))
    else:
        for op in JOIN:
            for n in ([1, 2, 3] if quick else [1, 2, 3, 4]):
                if op == "lub3" and n > (2 if quick else 3):
                    continue
                obs.append((f"si:{op}:{n}", {"kind": "join", "op": op, "n": n}))
        for op in QUERY:
            for n in ([1, 2, 3, 4] if quick else [1, 2, 3, 4, 5]):
                obs.append((f"si:{op}:{n}", {"kind": "query", "op": op, "n": n}))
    return obs


def _mk(prefix, n):
    return [z3.BitVec(f"{prefix}_{k}", n) for k in ("s", "lb", "ub")]


def _si(SI, E, P, n):
    return SI(bits=n, stride=E.SInt.unsigned(P[0]), lower_bound=E.SInt.unsigned(P[1]), upper_bound=E.SInt.unsigned(P[2]))


def _low(v, n):
    from pysym import engine as E

    return z3.Extract(n - 1, 0, E.term(v))


def _not_member_of(r, z, n):
    """formula: z is NOT in gamma(r) for a result StridedInterval r (fields may be symbolic)"""
    if r.is_empty:
        return z3.BoolVal(True)
    return z3.Not(member(z, _low(r.stride, n), _low(r.lower_bound, n), _low(r.upper_bound, n)))


def run_obligation(oid, params, tier):
    from claripy.backends.backend_vsa.bool_result import BoolResult
    from claripy.backends.backend_vsa.strided_interval import StridedInterval as SI
    from pysym import engine as E

    _install_shims()
    prop = params["prop"]
    # coarse (region "true") findings only apply where no exact table exists for this obligation
    known = [k for k in common.known_for(common.load_known(prop), oid)
             if k.get("region") == "true" and (prop + "/" + oid) not in tables()]
    n = params["n"]
    kind = params["kind"]
    op = params["op"]
    E.set_width(3 * n + 6 if kind != "bin" or op != "concat" else 4 * n + 6)
    A, B, Cc = _mk("a", n), _mk("b", n), _mk("c", n)
    x, y, w = z3.BitVec("x", n), z3.BitVec("y", n), z3.BitVec("w", n)
    decls = {str(t): t for t in (*A, *B, *Cc, x, y, w)}
    res = common.result(oid, "holds")
    res["sample"] = {"obligation": oid, "operation": op, "width": n}
    quick = tier == "quick"
    max_paths = 3000 if quick else 50000
    qms = 20000 if quick else 120000

    # pre: assumed before the code runs (constrains the intervals); mem: facts about the concrete members, only needed
    # by the final containment query (keeping them out of the branch queries makes those much cheaper)
    pre = [wellformed(*A)]
    mem = [member(x, *A)]
    if kind in ("bin", "cmp", "join"):
        pre.append(wellformed(*B))
        mem.append(member(y, *B))
    if op == "lub3":
        pre.append(wellformed(*Cc))
        mem.append(member(w, *Cc))
    if kind == "bin" and BIN[op][2] is not None:
        mem.append(BIN[op][2](x, y))
    arity = 3 if op == "lub3" else (2 if kind in ("bin", "cmp", "join") else 1)
    excl = known_exclusion(prop, oid, n, arity, [*A, *B, *Cc][: 3 * arity])
    if excl is not None:
        pre.append(excl)
        res["known_hits"].append(f"{prop}-si-" + (op if kind != "ext" else op))
        res["sample"]["known_failing_operand_tuples_excluded"] = tables()[prop + "/" + oid]["count"]

    def run():
        E.FORMAT_MODE[0] = "concretize"
        try:
            return run_()
        finally:
            E.FORMAT_MODE[0] = "opaque"

    def run_():
        E.ENG.assume(z3.And(*pre))
        a = _si(SI, E, A, n)
        if kind == "bin":
            return BIN[op][0](a, _si(SI, E, B, n))
        if kind == "cmp":
            return getattr(a, op)(_si(SI, E, B, n))
        if kind == "un":
            return UN[op][0](a)
        if kind == "ext":
            if op == "zext":
                return a.zero_extend(n + params["k"])
            if op == "sext":
                return a.sign_extend(n + params["k"])
            return a.extract(params["hi"], params["lo"])
        if kind == "join":
            b = _si(SI, E, B, n)
            if op == "union":
                return a.union(b)
            if op == "lub":
                return SI.least_upper_bound(a, b)
            if op == "lub3":
                return SI.least_upper_bound(a, b, _si(SI, E, Cc, n))
            if op == "widen":
                return a.widen(b)
            return a.intersection(b)
        # queries
        if op == "eval":
            return a.eval(2**n + 1)
        if op == "evalsigned":
            return a.eval(2**n + 1, signed=True)
        if op == "min":
            return a.min(False) if False else a.min()
        if op == "max":
            return a.max()
        if op == "smin":
            return a.min(signed=True)
        if op == "smax":
            return a.max(signed=True)
        if op == "cardinality":
            return a.cardinality
        if op == "solution":
            return a.solution(E.SInt.unsigned(y))
        if op == "is_top_empty":
            return (a.is_top, a.is_empty, a.is_integer)
        raise ValueError(op)

    def native(m):
        """the same call on the concrete operands of model m, without shadows"""
        g = lambda t: m.eval(t, model_completion=True).as_long()  # noqa: E731
        mk = lambda P: SI(bits=n, stride=g(P[0]), lower_bound=g(P[1]), upper_bound=g(P[2]))  # noqa: E731
        a = mk(A)
        if kind == "bin":
            return BIN[op][0](a, mk(B))
        if kind == "cmp":
            return getattr(a, op)(mk(B))
        if kind == "un":
            return UN[op][0](a)
        if kind == "ext":
            return a.zero_extend(n + params["k"]) if op == "zext" else a.sign_extend(n + params["k"]) if op == "sext" else a.extract(params["hi"], params["lo"])
        if kind == "join":
            b = mk(B)
            return {"union": lambda: a.union(b), "lub": lambda: SI.least_upper_bound(a, b),
                    "lub3": lambda: SI.least_upper_bound(a, b, mk(Cc)), "widen": lambda: a.widen(b),
                    "intersection": lambda: a.intersection(b)}[op]()
        return {"eval": lambda: a.eval(2**n + 1), "evalsigned": lambda: a.eval(2**n + 1, signed=True), "min": lambda: a.min(),
                "max": lambda: a.max(), "smin": lambda: a.min(signed=True), "smax": lambda: a.max(signed=True),
                "cardinality": lambda: a.cardinality, "solution": lambda: a.solution(g(y)),
                "is_top_empty": lambda: (a.is_top, a.is_empty, a.is_integer)}[op]()

    def canon(r, m):
        ev = lambda v: m.eval(E.term(v), model_completion=True).as_signed_long() if isinstance(v, E.SInt) else v  # noqa: E731
        if isinstance(r, SI):
            return ("SI", r.bits, "empty") if r.is_empty else ("SI", r.bits, ev(r.stride), ev(r.lower_bound), ev(r.upper_bound))
        if isinstance(r, BoolResult):
            return ("B", tuple(sorted(r.value)))
        if isinstance(r, (list, tuple)):
            return tuple(canon(v, m) for v in r)
        if isinstance(r, bool):
            return r
        if isinstance(r, int):
            return ev(r)
        return repr(r)

    def eval_path(path):
        """runs in the leaf process of the exploration: decides this path, returns a picklable summary"""
        out = {"kind": path.kind, "incon": [], "known": [], "fail": None, "validated": 0, "exc": None,
               "checks": E.STATS.checks, "solver_s": E.STATS.solver_s}
        if path.kind in ("unknown", "unsupported", "diverged"):
            out["incon"].append(f"{path.kind}: {path.result}"[:160])
            return out
        s = E.new_solver(path.pc, qms)
        for o in path.obligations:
            if E.check_sat(s, z3.Not(o)) != "unsat":
                out["incon"].append("integer-model obligation (fits) not valid on a path")
                return out

        def mkcase(fk):
            E.check_sat(s)
            m = s.model()
            g = lambda t: m.eval(t, model_completion=True).as_long()  # noqa: E731
            return {"harness": "harness.p_vsa", "prop": prop, "kind": kind, "op": op, "n": n,
                    "params": {k: v for k, v in params.items() if k in ("k", "hi", "lo")},
                    "a": [g(t) for t in A], "b": [g(t) for t in B], "c": [g(t) for t in Cc], "x": g(x), "y": g(y), "w": g(w),
                    "obligation": oid, "fail_kind": fk}

        if path.kind == "exc":
            if E.check_sat(s) != "sat":
                return out
            e = path.result
            out["exc"] = f"{type(e).__name__}: {str(e)[:80]}"
            hits, left = common.split_known(s, known, decls)
            out["known"] = hits
            if left == "sat":
                out["fail"] = (f"well-formed operands raise {out['exc']}\n" + "".join(traceback.format_exception(e))[-600:], mkcase("exception"))
            return out
        r = path.result
        if E.check_sat(s) == "sat":
            # encoding validation: the native run on a model of this path must give the same result
            m = s.model()
            try:
                nat = canon(native(m), m)
            except Exception as e:  # noqa: BLE001
                nat = ("EXC", type(e).__name__)
            if nat != canon(r, m):
                out["fail"] = ("ENCODING", f"encoding validation failed: symbolic {canon(r, m)} vs native {nat} on "
                               f"a={[m.eval(t) for t in A]} b={[m.eval(t) for t in B]}")
                return out
            out["validated"] = 1
        bad = _violation_formula(kind, op, params, r, n, x, y, w, A, B, Cc, SI, None, E, s)
        if bad is None:
            return out
        if isinstance(bad, str):
            if E.check_sat(s) == "sat":
                out["fail"] = (bad, mkcase("structure"))
            return out
        s.add(bad, *mem)
        hits, left = common.split_known(s, known, decls)
        out["known"] = hits
        if left == "sat":
            out["fail"] = ("the abstract result misses a concrete result", mkcase("soundness"))
        elif left == "unknown":
            out["incon"].append("unknown: containment query")
        out["checks"] = E.STATS.checks
        out["solver_s"] = E.STATS.solver_s
        return out

    if params.get("fork"):
        outs, complete = E.explore_fork(run, eval_path, timeout_ms=qms, width=E.W(), max_seconds=params.get("cap", 60))
    else:
        # fork-by-replay (measured: process forks of this large image cost more than re-execution at these path lengths)
        outs = []
        ex = E.explore(run, max_paths=max_paths)
        for path in ex:
            o = eval_path(path)
            outs.append(o)
            if o["fail"]:
                break
        complete = ex.complete or bool(outs and outs[-1]["fail"])
        if not complete:
            res["inconclusive"] += [i for i in ex.inconclusive if "budget" not in i]
    fail = None
    excs = {}
    for o in outs:
        if "harness_error" in o:
            res["status"] = "error"
            res["detail"] = "exploration leaf crashed: " + o["harness_error"]
            return res
        res["paths"] += 1
        res["inconclusive"] += o["incon"]
        res["known_hits"] += [h for h in o["known"] if h not in res["known_hits"]]
        res["validated"] = res.get("validated", 0) + o["validated"]
        res["queries"] = max(res["queries"], o.get("checks", 0))
        res["solver_s"] = max(res["solver_s"], round(o.get("solver_s", 0), 3))
        if o["exc"]:
            excs[o["exc"]] = excs.get(o["exc"], 0) + 1
        if o["fail"] and fail is None:
            fail = o["fail"]
    if not complete:
        res["inconclusive"].append(f"wall budget exhausted after {res['paths']} paths")
    res["sample"]["exceptions_seen"] = excs
    res["sample"]["paths"] = res["paths"]
    if fail:
        why, case = fail
        if why == "ENCODING":
            res["status"] = "error"
            res["detail"] = case
            return res
        res["status"] = "violation"
        res["detail"] = why
        res["cex"] = [case]
    elif res["inconclusive"]:
        res["status"] = "inconclusive"
        res["detail"] = res["inconclusive"][0]
    return res


def _violation_formula(kind, op, params, r, n, x, y, w, A, B, Cc, SI, BR, E, s):
    """returns a Z3 formula that is satisfiable iff the property fails on this path (None: nothing to check;
    str: structural failure)"""
    if kind == "bin":
        if not isinstance(r, SI):
            return f"result is {type(r).__name__}, not a StridedInterval"
        z = BIN[op][1](x, y)
        nr = z.size()
        if r.bits != nr:
            return f"result has {r.bits} bits, expected {nr}"
        return _not_member_of(r, z, nr)
    if kind == "cmp":
        from claripy.backends.backend_vsa.bool_result import BoolResult

        z = CMPS[op](x, y)
        if not (isinstance(r, (bool, BoolResult))):
            return f"comparison returned {type(r).__name__}"
        ht, hf = BoolResult.has_true(r), BoolResult.has_false(r)
        return z3.Or(z3.And(z, z3.BoolVal(not ht)), z3.And(z3.Not(z), z3.BoolVal(not hf)))
    if kind == "un":
        if not isinstance(r, SI) or r.bits != n:
            return "result is not an n-bit StridedInterval"
        return _not_member_of(r, UN[op][1](x), n)
    if kind == "ext":
        if op == "zext":
            z = z3.ZeroExt(params["k"], x)
        elif op == "sext":
            z = z3.SignExt(params["k"], x)
        else:
            z = z3.Extract(params["hi"], params["lo"], x)
        if not isinstance(r, SI) or r.bits != z.size():
            return f"result is not a {z.size()}-bit StridedInterval"
        return _not_member_of(r, z, z.size())
    if kind == "join":
        if not isinstance(r, SI) or r.bits != n:
            return "result is not an n-bit StridedInterval"
        if op == "intersection":
            # every common member is in the result: x in a, x in b  (y unused: re-use x)
            return z3.And(member(x, *B), _not_member_of(r, x, n))
        bads = [_not_member_of(r, x, n), _not_member_of(r, y, n)]
        if op == "lub3":
            bads.append(_not_member_of(r, w, n))
        return z3.Or(*bads)
    # queries ------------------------------------------------------------------------------------------
    a_mem = lambda t: member(t, *A)  # noqa: E731
    card = z3.If(A[0] == 0, z3.BitVecVal(1, n + 1), z3.UDiv(z3.ZeroExt(1, A[2] - A[1]), z3.ZeroExt(1, A[0])) + 1)
    if op in ("eval", "evalsigned"):
        if not isinstance(r, list):
            return "eval did not return a list"
        vals = [_low(v, n) if isinstance(v, int) else None for v in r]
        if any(v is None for v in vals):
            return "eval returned a non-integer"
        bads = [z3.Not(a_mem(v)) for v in vals]
        if len(vals) > 1:
            bads.append(z3.Not(z3.Distinct(*vals)))
        # all members (asked for 2**n + 1): count equals the cardinality, and the arbitrary member x is listed
        bads.append(z3.BitVecVal(len(vals), n + 1) != card)
        bads.append(z3.And(*[x != v for v in vals]) if vals else z3.BoolVal(True))
        # (values are compared as n-bit patterns: the property does not fix the integer representation)
        return z3.Or(*bads)
    if op in ("min", "max", "smin", "smax"):
        if not isinstance(r, int):
            return f"{op} returned {type(r).__name__}"
        v = _low(r, n)
        signed = op.startswith("s")
        le = (lambda p, q: p <= q) if signed else z3.ULE
        is_min = op.endswith("min")
        # v is a member, and the arbitrary member x is not beyond it
        beyond = z3.Not(le(v, x)) if is_min else z3.Not(le(x, v))
        return z3.Or(z3.Not(a_mem(v)), beyond)
    if op == "cardinality":
        if not isinstance(r, int):
            return "cardinality is not an int"
        t = E.term(r)
        return z3.Or(z3.Extract(n, 0, t) != card, z3.Extract(E.W() - 1, n + 1, t) != 0)
    if op == "solution":
        if not isinstance(r, bool):
            return "solution() did not return a bool"
        return z3.BoolVal(r) != a_mem(y)
    if op == "is_top_empty":
        is_top, is_empty, is_int = r
        bads = []
        if is_empty:
            return z3.BoolVal(True)  # a well-formed interval with a member is never empty
        full = z3.BitVecVal(1 << n, n + 1)
        bads.append(z3.BoolVal(bool(is_top)) != (card == full) if isinstance(is_top, bool) else z3.BoolVal(False))
        if isinstance(is_int, bool):
            bads.append(z3.BoolVal(is_int) != (A[1] == A[2]))
        return z3.Or(*bads)
    return None


# ---------------------------------------------------------------------------------------------------------
# native replay with an independent, enumerating oracle


def replay(case):
    from claripy.backends.backend_vsa.bool_result import FalseResult, MaybeResult, TrueResult
    from claripy.backends.backend_vsa.strided_interval import StridedInterval as SI

    n, kind, op = case["n"], case["kind"], case["op"]
    P = case.get("params", {})
    mk = lambda t: SI(bits=n, stride=t[0], lower_bound=t[1], upper_bound=t[2])  # noqa: E731
    a, b, c = case["a"], case["b"], case["c"]
    ma, mb, mc = py_members(n, *a), py_members(n, *b), py_members(n, *c)
    desc = f"{op} n={n} a={a[0]}[{a[1]},{a[2]}] b={b[0]}[{b[1]},{b[2]}]"
    mask = (1 << n) - 1

    def zv(t):
        t = z3.simplify(t)
        return z3.is_true(t) if z3.is_bool(t) else t.as_long()

    def rmembers(r):
        if r.is_empty:
            return set()
        return py_members(r.bits, r.stride, r.lower_bound, r.upper_bound)

    try:
        A_ = mk(a)
        if kind == "bin":
            r = BIN[op][0](A_, mk(b))
        elif kind == "cmp":
            r = getattr(A_, op)(mk(b))
        elif kind == "un":
            r = UN[op][0](A_)
        elif kind == "ext":
            r = A_.zero_extend(n + P["k"]) if op == "zext" else A_.sign_extend(n + P["k"]) if op == "sext" else A_.extract(P["hi"], P["lo"])
        elif kind == "join":
            B_ = mk(b)
            r = {"union": lambda: A_.union(B_), "lub": lambda: SI.least_upper_bound(A_, B_),
                 "lub3": lambda: SI.least_upper_bound(A_, B_, mk(c)), "widen": lambda: A_.widen(B_),
                 "intersection": lambda: A_.intersection(B_)}[op]()
        else:
            r = {"eval": lambda: A_.eval(2**n + 1), "evalsigned": lambda: A_.eval(2**n + 1, signed=True),
                 "min": lambda: A_.min(), "max": lambda: A_.max(), "smin": lambda: A_.min(signed=True),
                 "smax": lambda: A_.max(signed=True), "cardinality": lambda: A_.cardinality,
                 "solution": lambda: A_.solution(case["y"]),
                 "is_top_empty": lambda: (A_.is_top, A_.is_empty, A_.is_integer)}[op]()
    except Exception as e:  # noqa: BLE001
        return {"violated": True, "detail": f"well-formed operands raise {type(e).__name__}: {e}; {desc}"}
    X = lambda v: z3.BitVecVal(v, n)  # noqa: E731
    if kind == "bin":
        pre = BIN[op][2]
        rm = rmembers(r)
        for xv in sorted(ma):
            for yv in sorted(mb):
                if pre is not None and not zv(pre(X(xv), X(yv))):
                    continue
                z = zv(BIN[op][1](X(xv), X(yv)))
                if z not in rm:
                    return {"violated": True, "detail": f"{op}({xv},{yv})={z} is not in the result {r!r}; {desc}"}
        return {"violated": False, "detail": f"all member pairs contained in {r!r}; {desc}"}
    if kind == "cmp":
        from claripy.backends.backend_vsa.bool_result import BoolResult

        truths = {zv(CMPS[op](X(xv), X(yv))) for xv in ma for yv in mb}
        claimed = set()
        if BoolResult.has_true(r):
            claimed.add(True)
        if BoolResult.has_false(r):
            claimed.add(False)
        bad = not truths <= claimed
        return {"violated": bad, "detail": f"result {getattr(r, 'value', r)} but truth values {sorted(truths)} occur; {desc}"}
    if kind in ("un", "ext"):
        rm = rmembers(r)
        for xv in sorted(ma):
            if kind == "un":
                z = zv(UN[op][1](X(xv)))
            elif op == "zext":
                z = xv
            elif op == "sext":
                z = zv(z3.SignExt(P["k"], X(xv)))
            else:
                z = zv(z3.Extract(P["hi"], P["lo"], X(xv)))
            if z not in rm:
                return {"violated": True, "detail": f"{op}({xv})={z} is not in the result {r!r}; {desc}"}
        return {"violated": False, "detail": f"all members contained in {r!r}; {desc}"}
    if kind == "join":
        rm = rmembers(r)
        need = (ma & mb) if op == "intersection" else (ma | mb | (mc if op == "lub3" else set()))
        miss = sorted(need - rm)
        return {"violated": bool(miss), "detail": f"result {r!r} misses {miss[:5]}; {desc}"}
    # queries
    sgn = lambda v: v - (1 << n) if v >> (n - 1) else v  # noqa: E731
    if op in ("eval", "evalsigned"):
        got = [v & mask for v in r]
        bad = set(got) != ma or len(got) != len(set(got))
        return {"violated": bad, "detail": f"eval -> {r} but members are {sorted(ma)}; {desc}"}
    if op in ("min", "max", "smin", "smax"):
        key = sgn if op.startswith("s") else (lambda v: v)
        exp = (min if op.endswith("min") else max)(ma, key=key)
        return {"violated": (r & mask) != exp, "detail": f"{op} -> {r} expected pattern {exp}; {desc}"}
    if op == "cardinality":
        return {"violated": r != len(ma), "detail": f"cardinality -> {r} but {len(ma)} members; {desc}"}
    if op == "solution":
        if case.get("all_members"):
            wrong = [v for v in range(mask + 1) if A_.solution(v) != (v in ma)]
            return {"violated": bool(wrong), "detail": f"solution(v) wrong for v in {wrong[:6]}; members {sorted(ma)}; {desc}"}
        return {"violated": r != (case["y"] in ma), "detail": f"solution({case['y']}) -> {r}; members {sorted(ma)}; {desc}"}
    if op == "is_top_empty":
        it, ie, ii = r
        bad = ie or (it != (len(ma) == 1 << n)) or (ii != (a[1] & mask == a[2] & mask))
        return {"violated": bool(bad), "detail": f"is_top={it} is_empty={ie} is_integer={ii}; members {len(ma)}; {desc}"}
    return {"violated": False, "detail": "?"}


# ---------------------------------------------------------------------------------------------------------


def check(prop, tier, cap, only=None, procs=None, list_only=False, t0=None):
    obs = obligations(prop, tier)
    for _, p in obs:
        p["prop"] = prop
        p["cap"] = cap
    if only:
        obs = [o for o in obs if fnmatch.fnmatchcase(o[0], only)]
    if list_only:
        for o, _ in obs:
            print(o)
        return 0
    results = common.run_pool("harness.p_vsa", obs, tier, cap, procs=procs)
    quick = tier == "quick"
    # a known finding is reported only if its stored witness still fails on the real code (native replay)
    allk = {k["id"]: k for k in common.load_known(prop)}
    hit = sorted({h for r in results for h in r.get("known_hits", [])})
    paths_ = {}
    for h in hit:
        wcase = allk.get(h, {}).get("witness")
        if wcase:
            paths_[h] = common.write_replay(prop, "known_" + h, wcase)
    rep = common.replay_native(list(paths_.values()))
    confirmed = {h for h, p_ in paths_.items() if rep.get(p_, {}).get("violated")}
    for r in results:
        r["known_hits"] = [h for h in r.get("known_hits", []) if h in confirmed]
    return common.finish(
        prop, tier, "other", results, t0,
        functions=["claripy.backends.backend_vsa.strided_interval.StridedInterval: " + (
            "add sub mul udiv sdiv __mod__ neg bitwise_not/and/or/xor lshift rshift_logical rshift_arithmetic zero_extend sign_extend "
            "extract concat SLT SLE SGT SGE ULT ULE UGT UGE eq (+ _ssplit/_nsplit/_psplit, _wrapped_*, normalize)" if prop == "C21" else
            "union least_upper_bound widen intersection eval min max cardinality solution is_top/is_empty/is_integer"),
            "claripy.backends.backend_vsa.warren_methods", "claripy.backends.backend_vsa.bool_result"],
        bounds={"widths": "n in 1..3 for every operation, n=4 for the cheap ones" if quick else "n in 1..4 for every operation, n in {5,8} for cheap ones",
                "path_budget": 3000 if quick else 50000, "wall_cap_s": cap,
                "outside": "widths above the listed ones; ill-formed operand intervals (span not a multiple of the stride); reversed / uninitialized flags"},
        assumptions=["operand intervals are well-formed (lb == ub, or stride != 0 and (ub - lb) mod stride == 0): asserted before the code runs",
                     "division/remainder: the divisor member is non-zero (documented exemption)",
                     "gamma(s[lb,ub]) = { z : (z-lb) <=u (ub-lb) and (s == 0 ? z == lb : (z-lb) mod s == 0) }",
                     "PYTHONHASHSEED=0 (set by ./check): sdiv/udiv join their per-piece results in set-iteration order of string-hashed "
                     "intervals, so their results depend on the hash seed; the known-failing tuples of sdiv are the union over seeds 0..7",
                     "shims: " + "; ".join(SHIMS)],
        rule="one obligation = one (operation, width); stride/lower/upper of every operand and the concrete members are solver variables; "
             "per explored path Z3 proves containment for all of them; non-trivial = at least one path explored",
        trusted_base=["z3 4.13.0", "pysym operator models", "gamma formula above", "shims listed in assumptions"],
    )
