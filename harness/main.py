"""./check <ID> [--tier quick|thorough] [--replay file] [--only glob] [--procs n]"""
from __future__ import annotations

import argparse
import fnmatch
import importlib
import json
import os
import sys
import time

from . import common

# property -> (module, per-obligation wall cap quick, thorough)
REGISTRY = {
    # thorough caps are sized so that one thorough command ends within roughly half an hour on 16 cores even when
    # every costly obligation runs into its cap (obligations that do are reported inconclusive, never as held)
    "C01": ("harness.p_expr", 25, 150),
    "C04": ("harness.p_expr", 25, 150),
    "C05": ("harness.p_expr", 25, 150),
    "C06": ("harness.p_expr", 25, 150),
    "C10": ("harness.p_expr", 25, 150),
    "C07": ("harness.p_c07", 40, 200),
    "C09": ("harness.p_c09", 60, 300),
    "C08": ("harness.p_c08", 40, 200),
    "C25": ("harness.p_c25", 40, 240),
    "C24": ("harness.p_c24", 30, 240),
    "C23": ("harness.p_c23", 60, 300),
    "C11": ("harness.p_c11", 60, 600),
    "C02": ("harness.p_c02", 40, 400),
    "C03": ("harness.p_c03", 40, 400),
    "C26": ("harness.p_c26", 60, 300),
    "C12": ("harness.p_solvers", 60, 600),
    "C13": ("harness.p_solvers", 60, 600),
    "C14": ("harness.p_solvers", 60, 600),
    "C15": ("harness.p_solvers", 60, 600),
    "C16": ("harness.p_solvers", 60, 600),
    "C17": ("harness.p_solvers", 60, 600),
    "C18": ("harness.p_solvers", 60, 600),
    "C19": ("harness.p_c19", 120, 1200),
    "C21": ("harness.p_vsa", 60, 300),
    "C22": ("harness.p_vsa", 60, 300),
}


def main():
    ap = argparse.ArgumentParser()
    ap.add_argument("prop")
    ap.add_argument("--tier", default=os.environ.get("VERIF_TIER", "quick"), choices=["quick", "thorough"])
    ap.add_argument("--replay")
    ap.add_argument("--only")
    ap.add_argument("--procs", type=int)
    ap.add_argument("--list", action="store_true")
    a = ap.parse_args()
    if a.replay:
        rep = common.replay_native([os.path.abspath(a.replay)])
        d = list(rep.values())[0]
        print(json.dumps(d, indent=1))
        if d.get("violated"):
            print(f"VIOLATION property={a.prop} replay={a.replay}")
            return 1
        return 3 if d.get("error") else 0
    if a.prop not in REGISTRY:
        print(f"property {a.prop} has no check (see MANIFEST.json not_applicable)")
        return 3
    modname, capq, capt = REGISTRY[a.prop]
    mod = importlib.import_module(modname)
    t0 = time.time()
    return mod.check(a.prop, a.tier, capq if a.tier == "quick" else capt, only=a.only, procs=a.procs,
                     list_only=a.list, t0=t0)


if __name__ == "__main__":
    sys.exit(main())
