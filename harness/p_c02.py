"""C02: floating-point expressions follow IEEE-754 in every rounding mode, folded or not.

fold:<op>:<rm>:<sort>   claripy's eager folding runs on SYMBOLIC concrete operands: the operand values are pysym float / int shadows
                        (every double, including NaN, signed zeros, subnormals, infinities), the real claripy.FPV / op constructors,
                        Base.__new__ folding, backend_concrete.fp kernels and the single-precision rounding of ast.fp.FPV are executed;
                        per explored path Z3 (FloatingPoint theory) decides  folded result == SMT-LIB operation  for all operand values
                        (NaN compared as NaN; NaN bit patterns and float->int of NaN / infinity / out-of-range values exempt).
z3:<op>:<rm>:<sort>     the Z3 translation of the same operation over symbolic FP ASTs (FPS / BVS leaves) is compared with an independently
                        built Z3 term (catches swapped arguments, wrong comparison / rounding-mode mapping, wrong conversion).
lit:<sort>              BackendZ3.FPV (string / Decimal numeral transport of a CONCRETE float - a C boundary): boundary values; Z3 checks the
                        IEEE bit pattern of the converted numeral.
"""
from __future__ import annotations

import fnmatch
import struct as pystruct

import z3

from . import common, symrun
from .symrun import Fail, equiv_fail

RMS = ["RNE", "RNA", "RTP", "RTN", "RTZ"]


def zrm(n):
    return {"RNE": z3.RNE(), "RNA": z3.RNA(), "RTP": z3.RTP(), "RTN": z3.RTN(), "RTZ": z3.RTZ()}[n]


def zsort(s):
    return z3.Float64() if s == "DOUBLE" else z3.Float32()


ARITH = {"fpAdd": z3.fpAdd, "fpSub": z3.fpSub, "fpMul": z3.fpMul, "fpDiv": z3.fpDiv}
CMP = {"fpEQ": z3.fpEQ, "fpNEQ": lambda a, b: z3.Not(z3.fpEQ(a, b)), "fpLT": z3.fpLT, "fpLEQ": z3.fpLEQ, "fpGT": z3.fpGT, "fpGEQ": z3.fpGEQ}
UN = {"fpNeg": z3.fpNeg, "fpAbs": z3.fpAbs}


def obligations(tier):
    quick = tier == "quick"
    out = []
    for sort in ("DOUBLE", "FLOAT"):
        for leg in ("fold", "z3"):
            for op in ARITH:
                for rm in RMS:
                    if leg == "fold" and sort == "FLOAT" and quick and rm == "RNE":
                        continue   # double-op-then-round vs single op: Z3/cvc5 do not decide it in the quick budget (thorough tier)
                    out.append((f"{leg}:{op}:{rm}:{sort}", {"leg": leg, "op": op, "rm": rm, "sort": sort}))
            for rm in RMS:
                out.append((f"{leg}:fpSqrt:{rm}:{sort}", {"leg": leg, "op": "fpSqrt", "rm": rm, "sort": sort}))
            for op in list(CMP) + list(UN) + ["fpIsNaN", "fpIsInf", "fpToIEEEBV", "fpToFP-bv", "fpFP"]:
                out.append((f"{leg}:{op}:-:{sort}", {"leg": leg, "op": op, "rm": "-", "sort": sort}))
            for rm in RMS:
                out.append((f"{leg}:fpToFP-fp:{rm}:{sort}", {"leg": leg, "op": "fpToFP-fp", "rm": rm, "sort": sort}))
                for n in ((8, 32, 64) if not quick else (8, 64)):
                    out.append((f"{leg}:fpToFP-sbv{n}:{rm}:{sort}", {"leg": leg, "op": "fpToFP-sbv", "rm": rm, "sort": sort, "n": n}))
                    out.append((f"{leg}:fpToFP-ubv{n}:{rm}:{sort}", {"leg": leg, "op": "fpToFP-ubv", "rm": rm, "sort": sort, "n": n}))
                for n in ((8, 32) if not quick else (8,)):
                    out.append((f"{leg}:fpToSBV{n}:{rm}:{sort}", {"leg": leg, "op": "fpToSBV", "rm": rm, "sort": sort, "n": n}))
                    out.append((f"{leg}:fpToUBV{n}:{rm}:{sort}", {"leg": leg, "op": "fpToUBV", "rm": rm, "sort": sort, "n": n}))
        out.append((f"lit:{sort}", {"leg": "lit", "sort": sort}))
    out.append(("lemma:widen-round", {"leg": "lemma"}))
    for sort in ("DOUBLE", "FLOAT"):
        out.append((f"z3:cancel-tobv-tofp:-:{sort}", {"leg": "z3", "op": "cancel1", "rm": "-", "sort": sort}))
        out.append((f"z3:cancel-tofp-tobv:-:{sort}", {"leg": "z3", "op": "cancel2", "rm": "-", "sort": sort}))
    return out


# ---------------------------------------------------------------------------------------------------------


def _clrm(cl, rm):
    return cl.fp.RM("RM_" + rm) if rm != "-" else cl.fp.RM.default()


def _fs(cl, sort):
    return cl.fp.FSORT_DOUBLE if sort == "DOUBLE" else cl.fp.FSORT_FLOAT


# float sorts the concrete backend does not support (C04's crash leg: conversions INTO them raise a claripy error, nothing else)
_TS = {"HALF": (5, 11), "QUAD": (15, 113), "SINGLE": (8, 24)}


def apply_op(cl, p, A, B, X):
    """builds the claripy expression; A, B: FP operands (ASTs), X: BV operand of the needed width"""
    op, rm, fs = p["op"], _clrm(cl, p["rm"]), _fs(cl, p["sort"])
    other = cl.fp.FSORT_FLOAT if p["sort"] == "DOUBLE" else cl.fp.FSORT_DOUBLE
    if p.get("tsort"):
        fs = other = cl.fp.FSort(p["tsort"], *_TS[p["tsort"]])
    if op in ARITH:
        return getattr(cl, op)(rm, A, B)
    if op == "fpSqrt":
        return cl.fpSqrt(rm, A)
    if op in CMP:
        return getattr(cl, op)(A, B)
    if op in UN:
        return getattr(cl, op)(A)
    if op in ("fpIsNaN", "fpIsInf"):
        return getattr(cl, op)(A)
    if op == "fpToIEEEBV":
        return cl.fpToIEEEBV(A)
    if op == "fpToFP-bv":
        return cl.fpToFP(X, fs)
    if op == "fpFP":
        w = fs.length
        eb = 11 if w == 64 else 8
        return cl.fpFP(X[w - 1:w - 1], X[w - 2:w - 1 - eb], X[w - 2 - eb:0])
    if op == "fpToFP-fp":
        return cl.fpToFP(rm, A, other)
    if op == "fpToFP-sbv":
        return cl.fpToFP(rm, X, fs)
    if op == "fpToFP-ubv":
        return cl.fpToFPUnsigned(rm, X, fs)
    if op == "fpToSBV":
        return cl.fpToSBV(rm, A, p["n"])
    if op == "fpToUBV":
        return cl.fpToUBV(rm, A, p["n"])
    if op == "cancel1":
        return cl.fpToIEEEBV(cl.fpToFP(X, fs))
    if op == "cancel2":
        return cl.fpToFP(cl.fpToIEEEBV(A), fs)
    raise ValueError(op)


def reference(p, a, b, x):
    """independent Z3 term; a, b: FP terms of the operand sort, x: BV term.  Returns (term, precondition or None)"""
    op, sort = p["op"], zsort(p["sort"])
    rm = zrm(p["rm"]) if p["rm"] != "-" else z3.RNE()
    other = z3.Float32() if p["sort"] == "DOUBLE" else z3.Float64()
    if op in ARITH:
        return ARITH[op](rm, a, b), None
    if op == "fpSqrt":
        return z3.fpSqrt(rm, a), None
    if op in CMP:
        return CMP[op](a, b), None
    if op in UN:
        return UN[op](a), None
    if op == "fpIsNaN":
        return z3.fpIsNaN(a), None
    if op == "fpIsInf":
        return z3.fpIsInf(a), None
    if op == "fpToIEEEBV":
        return z3.fpToIEEEBV(a), z3.Not(z3.fpIsNaN(a))   # NaN bit patterns are unspecified
    if op == "fpToFP-bv":
        return z3.fpBVToFP(x, sort), None
    if op == "fpFP":
        return z3.fpBVToFP(x, sort), None
    if op == "fpToFP-fp":
        return z3.fpFPToFP(rm, a, other), None
    if op == "fpToFP-sbv":
        return z3.fpSignedToFP(rm, x, sort), None
    if op == "fpToFP-ubv":
        return z3.fpUnsignedToFP(rm, x, sort), None
    if op in ("fpToSBV", "fpToUBV"):
        n = p["n"]
        r = z3.fpRoundToIntegral(rm, a)
        # the bounds are powers of two (exact in every sort): 2**n - 1 itself is not representable in single precision for n = 32 and
        # would round UP to the first value that is out of range
        if op == "fpToSBV":
            lo, hi1 = z3.FPVal(float(-(2 ** (n - 1))), sort), z3.FPVal(float(2 ** (n - 1)), sort)
            t = z3.fpToSBV(rm, a, z3.BitVecSort(n))
        else:
            lo, hi1 = z3.FPVal(0.0, sort), z3.FPVal(float(2 ** n), sort)
            t = z3.fpToUBV(rm, a, z3.BitVecSort(n))
        inrange = z3.And(z3.Not(z3.fpIsNaN(a)), z3.Not(z3.fpIsInf(a)), z3.fpLEQ(lo, r), z3.fpLT(r, hi1))
        return t, inrange     # NaN, infinities and out-of-range values are unspecified
    if op == "cancel1":
        return z3.fpToIEEEBV(z3.fpBVToFP(x, sort)), z3.Not(z3.fpIsNaN(z3.fpBVToFP(x, sort)))
    if op == "cancel2":
        return z3.fpBVToFP(z3.fpToIEEEBV(a), sort), z3.Not(z3.fpIsNaN(a))
    raise ValueError(op)


def truth_obligations(tier):
    """C10's floating-point leg: comparisons and classifications of concrete floats fold to a Boolean literal, which every truth check then
    reports: the fold obligations of the Boolean-valued operations (symbolic operand VALUES, including NaN, signed zeros, infinities)"""
    out = []
    for oid, p in obligations(tier):
        if p["leg"] == "fold" and (p["op"] in CMP or p["op"] in ("fpIsNaN", "fpIsInf")):
            out.append(("fptruth:" + oid[5:], dict(p)))
    return out


def crash_obligations(tier):
    """C04's floating-point leg: the fold obligations of the conversions and of arithmetic, asked only whether folding crashes - for every
    operand value, including the ones whose result SMT-LIB leaves unspecified"""
    out = []
    for oid, p in obligations(tier):
        if p["leg"] != "fold" or p["rm"] not in ("RNE", "RTZ", "-"):
            continue
        if p["op"] in ("fpToSBV", "fpToUBV", "fpToFP-sbv", "fpToFP-ubv", "fpToFP-fp", "fpToFP-bv", "fpSqrt", "fpDiv", "fpToIEEEBV", "fpFP") or (p["op"] in ARITH and p["rm"] == "RNE"):
            q = dict(p)
            q["crash_only"] = True
            out.append(("fpcrash:" + oid[5:], q))
    # integers beyond the range of a double (2**1024): the conversion saturates, it does not raise
    for op in ("fpToFP-sbv", "fpToFP-ubv"):
        for sort in ("DOUBLE", "FLOAT"):
            out.append((f"fpcrash:{op}1100:RNE:{sort}", {"leg": "fold", "op": op, "rm": "RNE", "sort": sort, "n": 1100, "crash_only": True}))
    for ts in _TS:
        for op in ("fpToFP-bv", "fpToFP-sbv", "fpToFP-ubv", "fpToFP-fp"):
            out.append((f"fpcrash:{op}:into-{ts}", {"leg": "fold", "op": op, "rm": "RNE" if op != "fpToFP-bv" else "-", "sort": "DOUBLE", "n": 8, "tsort": ts, "crash_only": True}))
    return out


def _xwidth(p):
    if p.get("tsort") and p["op"] == "fpToFP-bv":
        return sum(_TS[p["tsort"]])
    if p["op"] in ("fpToFP-sbv", "fpToFP-ubv"):
        return p["n"]
    return 64 if p["sort"] == "DOUBLE" else 32


def run_obligation(oid, params, tier):
    leg = params["leg"]
    if leg == "lit":
        return run_lit(oid, params, tier)
    if leg == "lemma":
        from . import fpglue

        res = common.result(oid, "holds")
        res["paths"] = 5
        d = fpglue.widen_round_lemma()
        if d:
            res["status"] = "error"
            res["detail"] = "shim lemma (rounding to integral commutes with widening a single) not proved: " + d
        return res
    if leg == "z3":
        return run_z3(oid, params, tier)
    return run_fold(oid, params, tier)


def run_z3(oid, p, tier):
    import claripy

    res = common.result(oid, "holds")
    res["paths"] = 1
    fs = _fs(claripy, p["sort"])
    A, B = claripy.FPS("fa", fs, explicit_name=True), claripy.FPS("fb", fs, explicit_name=True)
    xw = _xwidth(p)
    X = claripy.BVS("bx", xw, explicit_name=True)
    a, b, x = z3.FP("fa", zsort(p["sort"])), z3.FP("fb", zsort(p["sort"])), z3.BitVec("bx", xw)
    known = common.known_for(common.load_known("C02"), oid)
    try:
        e = apply_op(claripy, p, A, B, X)
        got = claripy.backends.z3.convert(e)
    except Exception as ex:  # noqa: BLE001
        res["status"] = "violation"
        res["detail"] = f"building / translating {p['op']} raised {type(ex).__name__}: {str(ex)[:200]}"
        res["cex"] = [{"harness": "harness.p_c02", "params": p, "vals": {}, "obligation": oid, "detail": res["detail"]}]
        return res
    want, pre = reference(p, a, b, x)
    res["sample"] = {"obligation": oid, "expr": repr(e)[:160], "z3": str(got)[:160]}
    s = z3.Solver()
    s.set("timeout", 20000 if tier == "quick" else 300000)
    if pre is not None:
        s.add(pre)
    f = equiv_fail(s, got, want, "translation", f"Z3 translation of {e!r:.150} differs from the reference {str(want)[:120]}")
    if f is None:
        return res
    if f.kind == "unknown":
        res["status"] = "inconclusive"
        res["detail"] = f.detail
        res["inconclusive"] = [f.detail]
        return res
    if known:
        res["known_hits"] = [k["id"] for k in known]
        return res
    s.add(f.extra) if f.extra is not None else None
    s.check()
    m = s.model()
    res["status"] = "violation"
    res["detail"] = f.detail
    res["cex"] = [{"harness": "harness.p_c02", "params": p, "vals": {str(d): str(m[d]) for d in m.decls()}, "obligation": oid, "detail": f.detail[:300]}]
    return res


def run_fold(oid, p, tier):
    import claripy
    from pysym import engine as E
    from pysym import glue

    from . import fpglue

    fpglue.install()
    sort = p["sort"]
    a64, b64 = z3.FP("fa", z3.Float64()), z3.FP("fb", z3.Float64())
    a32, b32 = z3.FP("fa", z3.Float32()), z3.FP("fb", z3.Float32())
    xw = _xwidth(p)
    x = z3.BitVec("bx", xw)
    if sort == "DOUBLE":
        a, b = a64, b64
        va, vb = a64, b64
        zconsts = {"fa": a64, "fb": b64, "bx": x}
    else:
        a, b = a32, b32
        # a FLOAT-sorted claripy value is a Python double that is exactly representable in single precision
        va, vb = z3.fpFPToFP(z3.RNE(), a32, z3.Float64()), z3.fpFPToFP(z3.RNE(), b32, z3.Float64())
        zconsts = {"fa": a32, "fb": b32, "bx": x}
    fs = _fs(claripy, sort)
    known = common.known_for(common.load_known("C02"), oid)
    want, pre = reference(p, a, b, x) if not p.get("crash_only") else (None, None)

    def build():
        A = claripy.FPV(E.SFloat(va), fs)
        B = claripy.FPV(E.SFloat(vb), fs)
        X = glue.BVV(glue.mk(x), xw)
        return apply_op(claripy, p, A, B, X)

    def check(path, s, out):
        if p.get("crash_only"):
            # C04: for EVERY operand value (specified or not) folding returns an expression or raises a claripy error
            if path.kind == "exc" and not isinstance(path.result, claripy.errors.ClaripyError):
                ex = path.result
                return [Fail("exception", f"folding {p['op']} raised {type(ex).__name__}: {str(ex)[:160]}", None, known_key="exc:" + type(ex).__name__)]
            return []
        if path.kind == "exc":
            ex = path.result
            cond = pre  # an exception on operands for which the operation is specified
            return [Fail("exception", f"folding {p['op']} raised {type(ex).__name__}: {str(ex)[:160]}", cond, known_key="exc:" + type(ex).__name__)]
        r = out
        if not isinstance(r, claripy.ast.Base):
            return [Fail("structure", f"result is {type(r).__name__}")]
        if r.op not in ("FPV", "BVV", "BoolV"):
            return [Fail("not-folded", f"concrete operands did not fold: {r!r:.100}", None, known_key="not-folded")]
        got = claripy.backends.z3.convert(r)
        if pre is not None:
            s.add(pre)
        f = equiv_fail(s, got, want, "fold", f"folded result of {p['op']} ({p['rm']}, {sort}) differs from the SMT-LIB value", known_key="fold")
        if f is not None and f.extra is not None and pre is not None:
            f.extra = z3.And(pre, f.extra)
        return [f] if f else []

    def make_case(vals, f):
        return {"harness": "harness.p_c02", "params": p, "vals": {k: str(v) for k, v in vals.items()}, "obligation": oid, "detail": f.detail[:300]}

    return symrun.run(oid, width=max(xw + 8, 80), zconsts=zconsts, build=build, check=check, make_case=make_case, max_paths=400,
                      query_ms=20000 if tier == "quick" else 300000, known=known, sample={"obligation": oid},
                      allow_all_exc=bool(p.get("tsort")))   # into an unsupported sort every path raises a claripy error: that IS the documented outcome


LITS = [0.0, -0.0, 5e-324, -5e-324, 2.2250738585072014e-308, 1.0, 1.0000000000000002, 0.9999999999999999, 1.7976931348623157e308, float("inf"),
        float("-inf"), float("nan"), 0.1, 1 / 3, 123456789.12345679, 2.0 ** 53 + 2, 1e-7, 3.4028234663852886e38, 1.401298464324817e-45, 16777217.0, -2.5]


def run_lit(oid, p, tier):
    import claripy

    res = common.result(oid, "holds")
    fs = _fs(claripy, p["sort"])
    bad = None
    for v in LITS:
        res["paths"] += 1
        d = _lit_one(claripy, fs, v)
        if d:
            bad = (v, d)
            break
    if bad:
        res["status"] = "violation"
        res["detail"] = bad[1]
        res["cex"] = [{"harness": "harness.p_c02", "params": p, "vals": {"literal": repr(bad[0])}, "obligation": oid, "detail": bad[1][:300]}]
    return res


def _lit_one(claripy, fs, v):
    e = claripy.FPV(v, fs)
    stored = e.args[0]
    try:
        t = claripy.backends.z3.convert(e)
    except Exception as ex:  # noqa: BLE001
        return f"translating the literal {v!r} raised {type(ex).__name__}: {ex}"
    if fs.length == 64:
        bits = pystruct.unpack("<Q", pystruct.pack("<d", v))[0]
    else:
        v32 = pystruct.unpack("f", pystruct.pack("f", v))[0]     # native format: out-of-range values become infinities
        bits = pystruct.unpack("<I", pystruct.pack("<f", v32))[0]
    s = z3.Solver()
    if v != v:
        ok = s.check(z3.Not(z3.fpIsNaN(t))) == z3.unsat
    else:
        ok = s.check(z3.fpToIEEEBV(t) != z3.BitVecVal(bits, fs.length)) == z3.unsat
    return None if ok else f"FPV({v!r}, {fs}) (stored {stored!r}) reaches Z3 as {t} whose bit pattern is not {bits:#x}"


# ---------------------------------------------------------------------------------------------------------


def _parse_fp(sval, sort):
    """z3 model value string -> python float via Z3 itself (ground evaluation)"""
    raise NotImplementedError


def replay(case):
    """native: the operands of the counterexample as plain Python floats / ints; the folded result is compared with Z3's evaluation of the
    reference on the same literals, by IEEE bit pattern"""
    import claripy

    p = case["params"]
    if p["leg"] == "lit":
        v = eval(case["vals"]["literal"], {"inf": float("inf"), "nan": float("nan")})  # noqa: S307 - our own repr of a float
        d = _lit_one(claripy, _fs(claripy, p["sort"]), v)
        return {"violated": bool(d), "detail": d or "literal transported exactly"}
    sort = p["sort"]
    zs = zsort(sort)
    xw = _xwidth(p)
    if p["leg"] == "z3":
        fs = _fs(claripy, sort)
        A, B = claripy.FPS("fa", fs, explicit_name=True), claripy.FPS("fb", fs, explicit_name=True)
        X = claripy.BVS("bx", xw, explicit_name=True)
        a, b, x = z3.FP("fa", zs), z3.FP("fb", zs), z3.BitVec("bx", xw)
        try:
            got = claripy.backends.z3.convert(apply_op(claripy, p, A, B, X))
        except Exception as ex:  # noqa: BLE001
            return {"violated": True, "detail": f"raised {type(ex).__name__}: {ex}"}
        want, pre = reference(p, a, b, x)
        s = z3.Solver()
        s.set("timeout", 120000)
        if pre is not None:
            s.add(pre)
        f = equiv_fail(s, got, want, "translation", "differs")
        return {"violated": bool(f and f.kind != "unknown"), "detail": f"translation {got} vs reference {want}"}
    # fold: reconstruct the operands from the model strings
    vals = case["vals"]

    def fpval(name):
        sv = vals.get(name)
        if sv is None:
            return 0.0
        t = z3.FPVal(0.0, zs)
        # parse the z3 numeral through the solver: assert fa == literal-as-printed is not possible for NaN; use eval of smt2
        try:
            e = z3.parse_smt2_string(f"(declare-const r {zs.sexpr()}) (assert (= r {_sexpr_of(sv, zs)}))")
        except Exception:  # noqa: BLE001
            e = None
        return _float_of_model_string(sv, zs)

    a_py, b_py = _float_of_model_string(vals.get("fa"), zs), _float_of_model_string(vals.get("fb"), zs)
    x_py = int(vals.get("bx", "0"))
    fs = _fs(claripy, sort)
    if p.get("crash_only"):
        try:
            apply_op(claripy, p, claripy.FPV(a_py, fs), claripy.FPV(b_py, fs), claripy.BVV(x_py, xw))
        except claripy.errors.ClaripyError as ex:
            return {"violated": False, "detail": f"claripy error {type(ex).__name__}"}
        except Exception as ex:  # noqa: BLE001
            return {"violated": True, "detail": f"folding raised {type(ex).__name__}: {ex} on a={a_py!r} b={b_py!r} x={x_py}"}
        return {"violated": False, "detail": "returned an expression"}
    try:
        r = apply_op(claripy, p, claripy.FPV(a_py, fs), claripy.FPV(b_py, fs), claripy.BVV(x_py, xw))
    except Exception as ex:  # noqa: BLE001
        return {"violated": True, "detail": f"folding raised {type(ex).__name__}: {ex} on a={a_py!r} b={b_py!r} x={x_py}"}
    za = _z3_float(a_py, zs)
    zb = _z3_float(b_py, zs)
    want, pre = reference(p, za, zb, z3.BitVecVal(x_py, xw))
    s = z3.Solver()
    if pre is not None and s.check(pre) != z3.sat:
        return {"violated": False, "detail": "operands outside the specified domain"}
    got = claripy.backends.z3.convert(r)
    f = equiv_fail(s, got, want, "fold", "differs")
    desc = f"{p['op']} rm={p['rm']} {sort} a={a_py!r} b={b_py!r} x={x_py}: claripy folds to {r!r:.80}, SMT-LIB value {z3.simplify(want)}"
    return {"violated": bool(f and f.kind != "unknown"), "detail": desc}


def _z3_float(v, zs):
    if v != v:
        return z3.fpNaN(zs)
    if zs.sbits() == 53:
        bits = pystruct.unpack("<Q", pystruct.pack("<d", v))[0]
        return z3.fpBVToFP(z3.BitVecVal(bits, 64), zs)
    bits = pystruct.unpack("<I", pystruct.pack("<f", v))[0]
    return z3.fpBVToFP(z3.BitVecVal(bits, 32), zs)


def _sexpr_of(sv, zs):
    return sv


def _float_of_model_string(sv, zs):
    """turns the string of a Z3 FP model value (as printed by z3py) into a Python float, exactly, via Z3's own evaluation"""
    if sv is None:
        return 0.0
    sv = sv.strip()
    if sv in ("NaN", "nan"):
        return float("nan")
    if sv in ("+oo", "oo"):
        return float("inf")
    if sv == "-oo":
        return float("-inf")
    if sv in ("+0.0", "0.0"):
        return 0.0
    if sv == "-0.0":
        return -0.0
    # forms like 1.25*(2**-3) or -1.5 or 1*(2**10)
    import fractions

    expr = sv.replace("*(2**", "*(").rstrip(")")
    if "*(" in sv:
        mant, ex = sv.split("*(2**")
        ex = int(ex.rstrip(")"))
        val = fractions.Fraction(mant) * (fractions.Fraction(2) ** ex)
    else:
        val = fractions.Fraction(sv)
    return float(val)


FUNCTIONS = [
    "claripy.backends.backend_concrete.fp (FPV arithmetic / comparisons, fpToFP x3, fpToFPUnsigned, fpToIEEEBV, fpFP, fpToSBV, fpToUBV, fpSqrt, fpIsNaN, fpIsInf)",
    "claripy.ast.fp.FPV (single-precision rounding) and the fp operation constructors", "claripy.fp.RM.pydecimal_equivalent_rounding_mode",
    "claripy.ast.base.Base.__new__ (eager folding of float operands) / _arg_serialize", "claripy.backends.backend_concrete.BackendConcrete.call/_abstract",
    "claripy.backends.backend_z3.BackendZ3._op_raw_fp* / FPV", "claripy.simplifications.fptobv_simplifier / fptofp_simplifier",
]


def check(prop, tier, cap, only=None, procs=None, list_only=False, t0=None):
    from . import fpglue

    obs = obligations(tier)
    if only:
        obs = [o for o in obs if fnmatch.fnmatchcase(o[0], only)]
    if list_only:
        for o, _ in obs:
            print(o)
        return 0
    results = common.run_pool("harness.p_c02", obs, tier, cap, procs=procs)
    quick = tier == "quick"
    return common.finish(
        prop, tier, "translation_validation", results, t0, functions=FUNCTIONS,
        bounds={"sorts": ["DOUBLE", "FLOAT"], "rounding_modes": RMS, "operands": "every double / single value (symbolic), every bit-vector value of the listed widths",
                "conversion_widths": "int->float 8, 64 (quick) + 32; float->int 8 (quick) + 32", "query_cap_ms": 20000 if quick else 300000,
                "literal_transport": f"{len(LITS)} boundary literals per sort (concrete: the numeral crosses libz3 as a decimal string)",
                "outside": "operation trees deeper than one operation; FLOAT-sort RNE add/sub/mul/div (double rounding innocuousness) is thorough-tier only and "
                           "routinely inconclusive; float->int beyond the integer model width"},
        assumptions=["operand values are Z3 FloatingPoint variables carried by float shadows; CPython float arithmetic = IEEE binary64 RNE",
                     "NaN compared as NaN; NaN bit patterns, float->int of NaN / infinities / out-of-range values exempt",
                     "shims: " + "; ".join(fpglue.SHIMS)],
        rule="one obligation = one operation x rounding mode x sort (x width); folding runs on symbolic operand values, every path is explored and Z3's "
             "FloatingPoint theory decides equality with the SMT-LIB term for all operand values",
        trusted_base=["z3 4.13.0 FloatingPoint theory", "pysym float/int shadows", "shims listed in assumptions"],
    )
