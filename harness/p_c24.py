"""C24: VSA evaluation of expressions over annotated variables over-approximates.

Expressions of the C01 shape pool are built over variables annotated with strided intervals (claripy.SI) and symbolic
constants (pysym); backends.vsa.convert (ITE excavation, If joins, BoolResult combination, annotation application, the
interval transfer functions) runs on the shadows.  Per explored path Z3 decides, for all constants and all members x, y
of the variables' intervals, that the SMT-LIB value of the written tree is contained in the abstract value (Boolean:
the occurring truth value is among the answers).  SolverVSA.eval / min / max / satisfiable are checked as containment
obligations on the same runs.
"""
from __future__ import annotations

import fnmatch

import z3

from . import common, shapes, symrun, vsaglue
from .expr import ClaripyInterp, Z3Interp, consts_of, is_leaf, show, vars_of, width_of
from .symrun import Fail

# operations whose StridedInterval transfer function has a recorded C21/C22 finding: a failing shape that contains one of
# them is attributed to that finding (nothing new can be detected below such a node)
C21_KNOWN_OPS = {"shl", "lshr", "ashr", "mul", "udiv", "utruediv", "urem", "sdiv", "smod", "or", "zext", "sext", "extract", "getitem",
                 "slt", "sle", "sgt", "sge", "eq", "ne", "beq", "bne", "reverse", "rol", "ror", "concat", "xor", "and"}


def ops_in(t, out=None):
    out = set() if out is None else out
    if isinstance(t, list) and not is_leaf(t):
        out.add(t[0])
        for a in t[1:]:
            if isinstance(a, list):
                ops_in(a, out)
    return out


def _var_shift(t):
    """a shift / rotate whose amount is not a constant"""
    if not isinstance(t, list) or is_leaf(t):
        return False
    if t[0] in ("shl", "lshr", "ashr", "rol", "ror") and isinstance(t[2], list) and t[2][0] not in ("c", "lit", "int"):
        return True
    return any(_var_shift(a) for a in t[1:] if isinstance(a, list))


ANNOTS = {  # name -> ((stride, lb, ub) for x, for y, for z) as functions of the width
    "a0": lambda n: ([1, 1, (1 << n) - 3], [1, 0, (1 << n) // 2 - 1], [1, 0, (1 << n) - 1]),
    "a1": lambda n: ([2, 0, (1 << n) - 2], [1, 2, 3], [0, 1, 1]),
    "a2": lambda n: ([0, (1 << n) // 2 - 1, (1 << n) // 2 - 1], [3, 1, 7 if n >= 3 else 1], [1, 0, (1 << n) - 1]),
}


class _SIInterp(ClaripyInterp):
    def __init__(self, consts, annots):
        super().__init__(consts)
        self.annots = annots

    def _ev(self, t):
        if t[0] == "var":
            a = self.annots[t[1]]
            return self.cl.SI(name=t[1], bits=t[2], stride=a[0], lower_bound=a[1], upper_bound=a[2], explicit_name=True)
        return super()._ev(t)


def extra_shapes(n):
    """shapes whose If / Boolean structure depends on the annotated variables (the C01 pool's conditions are Boolean variables, which
    the VSA backend does not support): If joins, ITE excavation below operators, BoolResult combination"""
    from .shapes import C, L, X, Y, Z

    x, y, z = X(n), Y(n), Z(n)
    # conditions compare with a symbolic constant; values joined by If are variables or literals (a join with a symbolic interval
    # is the most expensive StridedInterval operation: it does not finish in the budget)
    c0, c1 = C(0, n), L((1 << n) - 2, n)
    S = []
    for cmp_ in ("ult", "ule", "ugt", "uge", "slt", "sge", "eq", "ne"):
        S.append((f"v-if-{cmp_}-xc-x-c", ["if", [cmp_, x, c0], x, c1]))
        S.append((f"v-if-{cmp_}-xy-x-y", ["if", [cmp_, x, y], x, y]))
        S.append((f"v-and-{cmp_}", ["And", [cmp_, x, c0], ["ule", y, c1]]))
        S.append((f"v-or-{cmp_}", ["Or", [cmp_, x, c0], ["uge", y, c1]]))
        S.append((f"v-not-{cmp_}", ["Not", [cmp_, x, y]]))
    S.append(("v-if-add", ["add", ["if", ["ult", x, c0], x, c1], y]))
    S.append(("v-add-if-if", ["add", ["if", ["ult", x, c0], x, c1], ["if", ["ult", x, c0], y, z]]))
    S.append(("v-add-if-ifnot", ["add", ["if", ["ult", x, c0], x, c1], ["if", ["Not", ["ult", x, c0]], y, z]]))
    S.append(("v-if-nested", ["if", ["ule", x, c0], ["if", ["ule", y, c1], x, y], z]))
    S.append(("v-if-cond-if", ["if", ["ult", ["if", ["ule", x, c0], x, y], c1], y, z]))
    S.append(("v-cmp-if", ["ule", ["if", ["ult", x, c0], x, c1], y]))
    S.append(("v-eq-if-if", ["eq", ["if", ["ult", x, c0], x, y], ["if", ["ult", x, c0], y, x]]))
    S.append(("v-if-and-cond", ["if", ["And", ["ule", x, c0], ["uge", x, c1]], x, y]))
    S.append(("v-if-or-cond", ["if", ["Or", ["ule", x, c0], ["uge", y, c1]], x, y]))
    S.append(("v-if-not-cond", ["if", ["Not", ["ule", x, c0]], x, y]))
    S.append(("v-if-true-false", ["if", ["ule", x, c0], ["boolv", True], ["boolv", False]]))
    S.append(("v-if-bool-arms", ["if", ["ule", x, c0], ["ult", y, c1], ["uge", y, c1]]))
    S.append(("v-not-if", ["not", ["if", ["ult", x, c0], x, c1]]))
    S.append(("v-neg-if", ["neg", ["if", ["ult", x, c0], x, y]]))
    S.append(("v-sub-x-if", ["sub", x, ["if", ["ule", y, c0], y, c1]]))
    S.append(("v-and-if-c", ["and", ["if", ["ule", x, c0], x, y], c1]))
    # n-ary conjunctions / disjunctions (the simplifier flattens nested binary ones into one node): a decided prefix, an undecided tail
    c2 = L(0, n)
    S.append(("v-and3-true-true-maybe", ["And", ["uge", x, c2], ["ule", y, L((1 << n) - 1, n)], ["ule", z, c0]]))
    S.append(("v-and3", ["And", ["ule", x, c0], ["uge", y, c2], ["ult", z, c1]]))
    S.append(("v-or3-false-false-maybe", ["Or", ["ult", x, c2], ["ugt", y, L((1 << n) - 1, n)], ["ule", z, c0]]))
    S.append(("v-or3", ["Or", ["ule", x, c0], ["ult", y, c2], ["uge", z, c1]]))
    S.append(("v-if-and3", ["if", ["And", ["uge", x, c2], ["ule", y, L((1 << n) - 1, n)], ["ule", z, c0]], x, c1]))
    S.append(("v-not-and3", ["Not", ["And", ["uge", x, c2], ["uge", y, c2], ["ule", z, c0]]]))
    S.append(("v-if-or3", ["if", ["Or", ["ult", x, c2], ["ult", y, c2], ["ule", z, c0]], y, c1]))
    if n >= 2:
        S.append(("v-concat-if", ["concat", ["if", ["ult", x, c0], x, c1], y]))
        S.append(("v-extract-if", ["extract", n - 1, 1, ["if", ["ult", x, c0], x, y]]))
        S.append(("v-zext-if", ["zext", 2, ["if", ["ult", x, c0], x, y]]))
    return S


def obligations(tier):
    quick = tier == "quick"
    out = []
    seen = set()
    from .astleg import bad_rev

    for n in ([3] if quick else [2, 3, 4, 6]):
        pool = extra_shapes(n) + list(shapes.seeds(n)) + list(shapes.grammar1(n))
        if not quick and n == 4:
            pool += shapes.grammar2(n, shapes.QUICK_OUTER, shapes.QUICK_INNER)
        for k, (nm, t) in enumerate(pool):
            if is_leaf(t) or bad_rev(t) or not vars_of(t):
                continue
            if any(v[0] == "var" and v[2] != n for v in vars_of(t)):
                continue
            if quick and (shapes.is_heavy(t) or _var_shift(t)):
                continue   # multiplication / division and shifts by an interval amount do not finish in the quick budget (thorough tier)
            for an in ANNOTS:
                if quick and (k + list(ANNOTS).index(an)) % 3 and not nm.startswith("v-"):
                    continue   # quick: every pool shape under one of the three annotation sets (rotating); the If/Boolean shapes under all
                oid = f"vsa:{an}:{nm}:{n}"
                if oid in seen:
                    continue
                seen.add(oid)
                out.append((oid, {"tree": t, "n": n, "ann": an}))
            if not quick and n <= 3 and len(ops_in(t)) <= 2:
                out.append((f"vsa:sym:{nm}:{n}", {"tree": t, "n": n, "ann": "sym"}))
    return out


def _queries(cl, e, n):
    """SolverVSA queries on e"""
    s = cl.SolverVSA()
    out = {}
    if isinstance(e, cl.ast.BV):
        for k, f in (("eval", lambda: s.eval(e, (1 << e.length) + 1)), ("min", lambda: s.min(e)), ("max", lambda: s.max(e)),
                     ("smin", lambda: s.min(e, signed=True)), ("smax", lambda: s.max(e, signed=True))):
            try:
                out[k] = f()
            except cl.errors.ClaripyFrontendError:
                out[k] = None
    elif isinstance(e, cl.ast.Bool):
        s.add(e)
        out["satisfiable"] = s.satisfiable()
        s2 = cl.SolverVSA()
        out["sat_extra"] = s2.satisfiable(extra_constraints=[e])
        out["is_true"] = s2.is_true(e)
        out["is_false"] = s2.is_false(e)
    return out


def run_obligation(oid, params, tier):
    import claripy
    from pysym import engine as E
    from pysym import glue

    vsaglue.install()
    tree, n, an = params["tree"], params["n"], params["ann"]
    cs = consts_of(tree)
    zc = {f"c{i}": z3.BitVec(f"c{i}", w) for i, w in cs}
    vs = [v for v in vars_of(tree) if v[0] == "var"]
    zv = {v[1]: z3.BitVec(v[1], v[2]) for v in vs}
    zconsts = dict(zc)
    zconsts.update(zv)
    for v in vars_of(tree):
        if v[0] == "bvar":
            zconsts[v[1]] = z3.Bool(v[1])
    pre = []
    dom = []
    A = {}
    if an == "sym":
        for v in vs:
            P = [z3.BitVec(f"{v[1]}_{f}", v[2]) for f in ("s", "lb", "ub")]
            A[v[1]] = P
            for p in P:
                zconsts[str(p)] = p
            pre += [vsaglue.wellformed(*P), z3.ULE(P[1], P[2])]
            dom.append(vsaglue.member(zv[v[1]], *P))
    else:
        ax, ay, az = ANNOTS[an](n)
        conc = {"x": ax, "y": ay, "z": az}
        for v in vs:
            t = conc.get(v[1], [1, 0, (1 << v[2]) - 1])
            dom.append(vsaglue.member(zv[v[1]], *[z3.BitVecVal(q, v[2]) for q in t]))
    known = common.known_for(common.load_known("C24"), oid)
    want_holder = {}

    def classify(m):
        """attribute the failure to an interval-level finding iff a transfer function / query call recorded on this path had
        operands that are a known-failing tuple of C21/C22 under the counterexample"""
        def ev(v):
            if isinstance(v, E.SInt):
                return m.eval(E.term(v), model_completion=True).as_long()
            return int(v)

        why = vsaglue.attribute(ev)
        return "inherits" if why else None

    nz_holder = {}

    def nonzero_divisors():
        # division / remainder by zero is exempt (as in C21): assume every divisor sub-term is non-zero
        if "v" not in nz_holder:
            from .expr import div_nodes

            zi = Z3Interp()
            nz_holder["v"] = [zi._pair(d[1], d[2])[1] != 0 for d in div_nodes(tree)]
        return nz_holder["v"]

    def wellbehaved(av_):
        """the abstract value is a non-wrapping interval with stride <= 1 (outside the C22 findings on signed queries / eval of
        wrapping strided intervals)"""
        from claripy.backends.backend_vsa.strided_interval import StridedInterval

        if not isinstance(av_, StridedInterval) or av_.is_empty:
            return z3.BoolVal(True)
        nb_ = av_.bits
        return z3.And(z3.ULE(vsaglue.low(av_.lower_bound, nb_), vsaglue.low(av_.upper_bound, nb_)), z3.ULE(vsaglue.low(av_.stride, nb_), 1))

    def annots():
        if an == "sym":
            return {k: [E.SInt.unsigned(p) for p in P] for k, P in A.items()}
        ax, ay, az = ANNOTS[an](n)
        return {"x": ax, "y": ay, "z": az}

    def build():
        E.FORMAT_MODE[0] = "concretize"
        try:
            if pre:
                E.ENG.assume(z3.And(*pre))
            vsaglue.reset_calls()
            consts = {i: glue.BVV(glue.mk(zc[f"c{i}"]), w) for i, w in cs}
            e = _SIInterp(consts, annots()).ev(tree)
            if not isinstance(e, claripy.ast.Base):
                return None
            try:
                av = claripy.backends.vsa.convert(e)
            except claripy.errors.BackendError:
                return ("unsupported", e)
            return ("ok", e, av, _queries(claripy, e, n))
        finally:
            E.FORMAT_MODE[0] = "opaque"

    def check(path, s, out):
        if path.kind == "exc":
            ex = path.result
            if isinstance(ex, (claripy.errors.ClaripyZeroDivisionError,)):
                return []
            return [Fail("exception", f"backends.vsa.convert raised {type(ex).__name__}: {str(ex)[:160]}", z3.And(*dom) if dom else None,
                         known_key="exc", classify=classify)]
        if out is None or out[0] != "ok":
            return []
        _, e, av, q = out
        if "w" not in want_holder:
            want_holder["w"] = Z3Interp().ev(tree)
        want = want_holder["w"]
        D = z3.And(*dom, *nonzero_divisors()) if (dom or nonzero_divisors()) else z3.BoolVal(True)
        fails = []
        ni = vsaglue.not_in(av, want)
        key = "sound"
        if isinstance(ni, str):
            fails.append(Fail("structure", f"{e!r:.120}: {ni}", None, known_key=key, classify=classify))
        else:
            fails.append(Fail("containment", f"the abstract value {av!r:.80} of {e!r:.120} misses a concrete value", z3.And(D, ni), known_key=key, classify=classify))
        nb = want.size() if z3.is_bv(want) else None
        if q.get("eval") is not None and nb is not None:
            vals = q["eval"]
            if len(vals) <= (1 << nb):
                miss = z3.And(D, *[want != vsaglue.low(v, nb) for v in vals])
                fails.append(Fail("solver-eval", f"SolverVSA.eval({e!r:.100}) = {vals!r:.100} misses a value the expression takes", miss, known_key=key, classify=classify))
        for k, signed, is_min in (("min", False, True), ("max", False, False), ("smin", True, True), ("smax", True, False)):
            if q.get(k) is not None and nb is not None:
                v = q[k]
                # compare as mathematical integers in W-bit terms: value of e (signed/unsigned) vs the returned bound
                W = E.W()
                ev_ = z3.SignExt(W - nb, want) if signed else z3.ZeroExt(W - nb, want)
                bt = E.term(v) if isinstance(v, int) else None
                if bt is None:
                    continue
                beyond = (ev_ < bt) if is_min else (ev_ > bt)
                msg = f"SolverVSA.{k}({e!r:.100}) = {v!r:.40} but the expression takes a value beyond it"
                fails.append(Fail("solver-" + k, msg, z3.And(D, beyond), known_key=key, classify=classify))
        if "satisfiable" in q:
            if q["satisfiable"] is False or q["sat_extra"] is False:
                fails.append(Fail("solver-satisfiable", f"SolverVSA.satisfiable() is False for {e!r:.120}, which has a model", z3.And(D, want), known_key=key, classify=classify))
            if q["is_true"]:
                fails.append(Fail("solver-is_true", f"SolverVSA.is_true({e!r:.120}) although it can be false", z3.And(D, z3.Not(want)), known_key=key, classify=classify))
            if q["is_false"]:
                fails.append(Fail("solver-is_false", f"SolverVSA.is_false({e!r:.120}) although it can be true", z3.And(D, want), known_key=key, classify=classify))
        return fails

    def make_case(vals, f):
        return {"harness": "harness.p_c24", "tree": tree, "n": n, "ann": an, "vals": vals, "obligation": oid, "fail_kind": f.kind,
                "detail": f.detail[:300]}

    from .astleg import _all_widths

    wmax = max(_all_widths(tree) + [n])
    return symrun.run(oid, width=3 * wmax + 8, zconsts=zconsts, build=build, check=check, make_case=make_case,
                      max_paths=300 if tier == "quick" else 4000, known=known, sample={"obligation": oid, "tree": show(tree), "annotations": an})


def replay(case):
    """native: concrete constants and annotations; every member assignment enumerated; the concrete value of the expression
    comes from claripy's concrete backend applied to the same tree with constants substituted for the variables"""
    import itertools

    import claripy

    from .p_vsa import py_members

    tree, n, an, vals = case["tree"], case["n"], case["ann"], case["vals"]
    cs = consts_of(tree)
    vs = [v for v in vars_of(tree)]
    if an == "sym":
        ann = {v[1]: [int(vals.get(f"{v[1]}_{f}", 0)) for f in ("s", "lb", "ub")] for v in vs if v[0] == "var"}
    else:
        ax, ay, az = ANNOTS[an](n)
        ann = {"x": ax, "y": ay, "z": az}
    consts = {i: claripy.BVV(int(vals.get(f"c{i}", 0)), w) for i, w in cs}
    desc = f"tree={show(tree)} consts={ {k: v for k, v in vals.items() if k.startswith('c')} } annotations={ann}"
    try:
        e = _SIInterp(consts, ann).ev(tree)
        av = claripy.backends.vsa.convert(e)
        q = _queries(claripy, e, n)
    except claripy.errors.BackendError as ex:
        return {"violated": False, "detail": f"unsupported natively: {ex}; {desc}"}
    except claripy.errors.ClaripyZeroDivisionError:
        return {"violated": False, "detail": "division by zero (exempt); " + desc}
    except Exception as ex:  # noqa: BLE001
        return {"violated": True, "detail": f"backends.vsa.convert raised {type(ex).__name__}: {str(ex)[:200]}; {desc}"}
    doms = []
    for v in vs:
        if v[0] == "bvar":
            doms.append([False, True])
        else:
            doms.append(sorted(py_members(v[2], *ann.get(v[1], [1, 0, (1 << v[2]) - 1]))))
    zi = Z3Interp({i: z3.BitVecVal(int(vals.get(f"c{i}", 0)), w) for i, w in cs})
    want = zi.ev(tree)
    for combo in itertools.product(*doms):
        sub = [((z3.BitVec(v[1], v[2]), z3.BitVecVal(val, v[2])) if v[0] == "var" else (z3.Bool(v[1]), z3.BoolVal(val))) for v, val in zip(vs, combo)]
        cv = z3.simplify(z3.substitute(want, *sub)) if sub else z3.simplify(want)
        val = z3.is_true(cv) if z3.is_bool(cv) else cv.as_long()
        asg = {v[1]: c for v, c in zip(vs, combo)}
        if not vsaglue.py_covers(av, val):
            return {"violated": True, "detail": f"abstract value {av!r:.80} of {e!r:.150} misses the value {val} taken at {asg}; {desc}"}
        if z3.is_bv(want):
            nb = want.size()
            if q.get("eval") is not None and len(q["eval"]) <= (1 << nb) and val not in [x & ((1 << nb) - 1) for x in q["eval"]]:
                return {"violated": True, "detail": f"SolverVSA.eval = {q['eval']} misses {val} taken at {asg}; {desc}"}
            sv = val - (1 << nb) if val >> (nb - 1) else val
            for k, x, lo in (("min", val, True), ("max", val, False), ("smin", sv, True), ("smax", sv, False)):
                if q.get(k) is not None and ((x < q[k]) if lo else (x > q[k])):
                    return {"violated": True, "detail": f"SolverVSA.{k} = {q[k]} but the value {x} is taken at {asg}; {desc}"}
        else:
            if val and (q.get("satisfiable") is False or q.get("sat_extra") is False or q.get("is_false")):
                return {"violated": True, "detail": f"SolverVSA says unsatisfiable/false but {asg} satisfies {e!r:.150}; {desc}"}
            if not val and q.get("is_true"):
                return {"violated": True, "detail": f"SolverVSA.is_true but {asg} falsifies {e!r:.150}; {desc}"}
    return {"violated": False, "detail": f"abstract value {av!r:.80} covers every member assignment; {desc}"}


FUNCTIONS = [
    "claripy.backends.backend_vsa.backend_vsa.BackendVSA.convert / _convert / If / And / Or / Not / comparisons / Concat / Extract / ZeroExt / SignExt / "
    "Reverse / apply_annotation / BVV / BVS / _eval / _min / _max / _is_true / _is_false", "claripy.backends.backend.Backend.convert / call (dispatch, caching)",
    "claripy.algorithm.ite_relocation.excavate_ite", "claripy.backends.backend_vsa.bool_result.BoolResult",
    "claripy.backends.backend_vsa.strided_interval.StridedInterval (transfer functions as called)", "claripy.frontend.light_frontend.LightFrontend (SolverVSA)",
]


def check(prop, tier, cap, only=None, procs=None, list_only=False, t0=None):
    obs = obligations(tier)
    if only:
        obs = [o for o in obs if fnmatch.fnmatchcase(o[0], only)]
    if list_only:
        for o, _ in obs:
            print(o)
        return 0
    results = common.run_pool("harness.p_c24", obs, tier, cap, procs=procs)
    quick = tier == "quick"
    return common.finish(
        prop, tier, "translation_validation", results, t0, functions=FUNCTIONS,
        bounds={"widths": [3] if quick else [2, 3, 4, 6], "shapes": "C01 shape pool (rule seeds + depth-1 trees; depth-2 at width 4 in thorough), <= 3 variables",
                "annotations": "three concrete annotation sets per width (non-wrapping, strided, singleton)" + ("" if quick else "; fully symbolic non-wrapping annotations for shapes with <= 2 operators at widths 2,3"),
                "path_budget": 300 if quick else 4000,
                "outside": "wrapping annotations (C21/C22's subject), wider variables, deeper trees; shapes containing an operation with a recorded C21 "
                           "finding are attributed to it"},
        assumptions=["every constant is a solver variable; every member of every variable's interval is quantified by Z3",
                     "the meaning of the expression is the independent z3py interpretation of the written tree", "gamma as in C21",
                     "shims: " + "; ".join(vsaglue.SHIMS)],
        rule="one obligation = one (shape, width, annotation set); backends.vsa.convert and the SolverVSA queries run on symbolic constants, every path is "
             "explored, and Z3 decides containment for all constants and all members",
        trusted_base=["z3 4.13.0", "pysym operator models", "gamma formula", "shims listed in assumptions"],
    )
