"""Common machinery for all property harnesses: obligation runner (16-process pool), known findings,
replay-before-report, evidence writer, exit codes.

Exit codes: 0 held / known findings only / inconclusive obligations (counted); 1 replayed violation outside
known regions (prints VIOLATION line); 3 harness error (non-reproducing counterexample, failed vacuity twin,
unsupported construct).
"""
from __future__ import annotations

import fnmatch
import json
import multiprocessing as mp
import os
import signal
import subprocess
import sys
import time
import traceback

ROOT = os.path.dirname(os.path.dirname(os.path.abspath(__file__)))
# the overrides are for development / seeded-change runs, so that they do not overwrite the evidence of the run on /repo itself
EVIDENCE_DIR = os.environ.get("VERIF_EVIDENCE_DIR") or os.path.join(ROOT, "evidence")
REPLAY_DIR = os.environ.get("VERIF_REPLAY_DIR") or os.path.join(ROOT, "replays")
KNOWN_FILE = os.path.join(ROOT, "known_findings.json")
PY = "/venv/bin/python"


class ObligationTimeout(BaseException):
    pass


# ---------------------------------------------------------------------------------------------------------
# results


def result(oid, status, **kw):
    """status: holds | violation | inconclusive | error | twin_ok | twin_failed"""
    r = {"id": oid, "status": status, "paths": 0, "queries": 0, "solver_s": 0.0, "detail": "", "cex": [],
         "known_hits": [], "sample": None, "wall_s": 0.0, "inconclusive": []}
    r.update(kw)
    return r


# ---------------------------------------------------------------------------------------------------------
# known findings


def load_known(prop):
    if not os.path.exists(KNOWN_FILE):
        return []
    with open(KNOWN_FILE) as f:
        data = json.load(f)
    return [k for k in data.get("findings", []) if k["property"] == prop and k.get("status", "open") == "open"]


def known_for(known, oid):
    """findings whose obligation glob (or one of the globs in "obligations") matches"""
    out = []
    for k in known:
        pats = k.get("obligations") or [k["obligation"]]
        if any(fnmatch.fnmatchcase(oid, p) for p in pats):
            out.append(k)
    return out


def parse_region(region, decls):
    """region: SMT-LIB Boolean term over the obligation's named inputs; decls: {name: z3 const}"""
    import z3

    if region in (None, "", "true"):
        return z3.BoolVal(True)
    r = z3.parse_smt2_string(f"(assert {region})", decls=decls)
    return z3.And(*r) if len(r) != 1 else r[0]


def split_known(solver, known, decls, consts=None):
    """solver holds PC and not-spec.  For each known finding whose region intersects the failing set, record a
    hit; then exclude all regions.  Returns (hits, leftover_status) with leftover 'sat'|'unsat'|'unknown'."""
    import z3
    from pysym.engine import check_sat

    hits = []
    regs = []
    for k in known:
        try:
            reg = parse_region(k.get("region", "true"), decls)
        except z3.Z3Exception as e:  # region mentions names this obligation does not have
            continue
        regs.append(reg)
        r = check_sat(solver, reg)
        if r == "sat":
            hits.append(k["id"])
    for reg in regs:
        solver.add(z3.Not(reg))
    return hits, check_sat(solver)


# ---------------------------------------------------------------------------------------------------------
# worker pool


def _alarm(signum, frame):
    raise ObligationTimeout()


def _run_one(args):
    modname, oid, params, tier, cap = args
    import importlib

    t0 = time.time()
    try:
        mod = importlib.import_module(modname)
        from pysym import engine as E

        E.STATS.checks = 0
        E.STATS.solver_s = 0.0
        E.STATS.unknown = 0
        E.set_engine(E.Engine())
        # cooperative deadline at branch points; SIGALRM only as a backstop for a stuck solver call
        E.DEADLINE[0] = time.time() + cap
        signal.signal(signal.SIGALRM, _alarm)
        signal.alarm(int(cap * 3) + 30)
        try:
            r = mod.run_obligation(oid, params, tier)
        finally:
            signal.alarm(0)
            E.DEADLINE[0] = None
        r.setdefault("queries", 0)
        r["queries"] = max(r["queries"], E.STATS.checks)
        r["solver_s"] = max(r.get("solver_s", 0), round(E.STATS.solver_s, 3))
    except ObligationTimeout:
        from pysym import engine as E

        r = result(oid, "inconclusive", detail=f"wall cap {cap}s reached", queries=E.STATS.checks,
                   solver_s=round(E.STATS.solver_s, 3))
        r["inconclusive"] = [f"wall cap {cap}s"]
    except BaseException as e:  # noqa: BLE001
        r = result(oid, "error", detail="".join(traceback.format_exception(e))[-3000:])
    r["wall_s"] = round(time.time() - t0, 3)
    return r


def run_pool(modname, obligations, tier, cap, procs=None, progress=True):
    """obligations: list of (oid, params) — params must be picklable and free of Z3 objects"""
    procs = procs or int(os.environ.get("VERIF_PROCS", "16"))
    ctx = mp.get_context("fork")
    out = []
    args = [(modname, oid, params, tier, cap) for oid, params in obligations]
    if procs == 1 or len(args) <= 1:
        for a in args:
            out.append(_run_one(a))
        return out
    with ctx.Pool(processes=min(procs, len(args)), maxtasksperchild=60) as pool:
        for i, r in enumerate(pool.imap_unordered(_run_one, args, chunksize=1)):
            out.append(r)
            if progress and r["status"] not in ("holds", "twin_ok"):
                print(f"  [{i + 1}/{len(args)}] {r['id']}: {r['status']} {r['detail'][:200]}", flush=True)
    # an obligation that errored is re-run once in a fresh process (a worker's state may have been damaged by an
    # asynchronous timeout in an earlier obligation); only a repeated error counts
    byid = {a[1]: a for a in args}
    for k, r in enumerate(out):
        if r["status"] == "error":
            with ctx.Pool(processes=1, maxtasksperchild=1) as pool:
                r2 = pool.apply(_run_one, (byid[r["id"]],))
            r2["retried_after_error"] = r["detail"][-300:]
            out[k] = r2
    return out


# ---------------------------------------------------------------------------------------------------------
# replay


def write_replay(prop, oid, case):
    d = os.path.join(REPLAY_DIR, prop)
    os.makedirs(d, exist_ok=True)
    safe = "".join(ch if ch.isalnum() or ch in "-_." else "_" for ch in oid)[:120]
    p = os.path.join(d, safe + ".json")
    with open(p, "w") as f:
        json.dump(case, f, indent=1, default=str)
    return p


def replay_native(paths, timeout=600):
    """runs `python -m harness.replay <files>` in a fresh interpreter with no shadows installed.
    Returns {path: {"violated": bool, "detail": str}}"""
    if not paths:
        return {}
    env = dict(os.environ)
    env["PYTHONPATH"] = ROOT + os.pathsep + os.environ.get("VERIF_REPO", "/repo")
    env.pop("VERIF_SYMBOLIC", None)
    out = {}
    for i in range(0, len(paths), 50):
        chunk = paths[i : i + 50]
        try:
            p = subprocess.run([PY, "-m", "harness.replay", *chunk], capture_output=True, text=True, env=env,
                               cwd=ROOT, timeout=timeout)
        except subprocess.TimeoutExpired:
            for c in chunk:
                out[c] = {"violated": False, "detail": "replay timed out", "error": True}
            continue
        got = False
        for line in p.stdout.splitlines():
            if line.startswith("REPLAY "):
                d = json.loads(line[7:])
                out[d["path"]] = d
                got = True
        if not got:
            for c in chunk:
                out[c] = {"violated": False, "detail": "replay produced no output: " + p.stderr[-1500:], "error": True}
    return out


# ---------------------------------------------------------------------------------------------------------
# evidence + verdict


def finish(prop, tier, level, results, t0, *, functions, bounds, assumptions, rule, trusted_base=None,
           extra_coverage=None, known=None, replayed_known=None):
    """Replays candidate violations, prints verdict lines, writes evidence, returns the exit code."""
    seed = int(os.environ.get("VERIF_SEED", "0"))
    known = known if known is not None else load_known(prop)
    known_by_id = {k["id"]: k for k in known}
    nviol = 0
    harness_errors = []
    cand = []  # (result, case, path)
    for r in results:
        for case in r.get("cex", []):
            p = write_replay(prop, r["id"] + ("" if len(r["cex"]) == 1 else "_" + str(r["cex"].index(case))), case)
            cand.append((r, case, p))
    rep = replay_native([p for _, _, p in cand])
    violations = []
    for r, case, p in cand:
        d = rep.get(p, {"violated": False, "detail": "no replay result", "error": True})
        if d.get("violated"):
            nviol += 1
            violations.append((r["id"], p, d.get("detail", "")))
            print(f"VIOLATION property={prop} replay={p}")
            print(f"  obligation={r['id']} {d.get('detail', '')[:400]}")
        else:
            harness_errors.append(f"{r['id']}: counterexample did not reproduce natively ({d.get('detail', '')[:300]}) replay={p}")
    # known findings: print a line for each one hit by this run
    hit_ids = []
    for r in results:
        for k in r.get("known_hits", []):
            if k not in hit_ids:
                hit_ids.append(k)
    for kid in hit_ids:
        k = known_by_id.get(kid)
        if k:
            print(f"KNOWN-FINDING: property={prop} {k['what']} [{kid}]")
    for r in results:
        if r["status"] in ("error", "twin_failed"):
            harness_errors.append(f"{r['id']}: {r['status']}: {r['detail'][-600:]}")
    incon = [r for r in results if r["status"] == "inconclusive" or r.get("inconclusive")]
    holds = [r for r in results if r["status"] in ("holds", "twin_ok")]
    paths = sum(r.get("paths", 0) for r in results)
    queries = sum(r.get("queries", 0) for r in results)
    solver_s = round(sum(r.get("solver_s", 0) for r in results), 2)
    samples = [r["sample"] for r in results if r.get("sample")][:12]
    if not samples:
        samples = [{"obligation": r["id"], "status": r["status"]} for r in results[:5]] or [{"note": "no obligations"}]
    distinct = len({r["id"] for r in results if r.get("paths", 0) > 0 or r.get("queries", 0) > 0})
    cov = {
        "obligations": len(results),
        "discharged": len([r for r in holds if not r.get("inconclusive")]),
        "inconclusive_obligations": len(incon),
        "evaluations": max(1, paths),
        "distinct_nontrivial": distinct,
        "rule": rule,
        "samples": samples,
        "programs": max(1, len(results)),
        "disagreements_checked": len(cand),
        "states": max(1, paths),
        "transitions": max(1, queries),
        "traces_validated_against_impl": len(cand) + sum(r.get("validated", 0) for r in results),
        "checker_cmd": f"./check {prop} --tier {tier}",
        "trusted_base": trusted_base or ["z3 4.13.0 (libz3 used by claripy)", "pysym operator models (validated per run)"],
        "explanation": rule,
        "paths_explored": paths,
        "solver_queries": queries,
        "solver_seconds": solver_s,
        "functions_encoded": functions,
        "bounds": bounds,
        "inconclusive": [{"obligation": r["id"], "why": (r.get("inconclusive") or [r["detail"]])[:3]} for r in incon][:200],
        "known_findings_hit": hit_ids,
        "violations": [{"obligation": o, "replay": p, "detail": d[:300]} for o, p, d in violations],
        "harness_errors": harness_errors[:50],
        "per_obligation": [{"id": r["id"], "status": r["status"], "paths": r.get("paths", 0),
                            "queries": r.get("queries", 0), "wall_s": r.get("wall_s", 0)} for r in results][:3000],
    }
    if extra_coverage:
        cov.update(extra_coverage)
    ev = {
        "property_id": prop,
        "tier": tier,
        "seed": seed,
        "level": level,
        "coverage": cov,
        "assumptions": assumptions,
        "wall_s": round(time.time() - t0, 2),
        "violations": nviol,
    }
    os.makedirs(EVIDENCE_DIR, exist_ok=True)
    with open(os.path.join(EVIDENCE_DIR, prop + ".json"), "w") as f:
        json.dump(ev, f, indent=1, default=str)
    print(f"{prop} [{tier}] obligations={len(results)} held={len(holds)} inconclusive={len(incon)} "
          f"known-findings={len(hit_ids)} violations={nviol} harness-errors={len(harness_errors)} "
          f"paths={paths} queries={queries} solver={solver_s}s wall={ev['wall_s']}s")
    for r in incon[:20]:
        print(f"  inconclusive: {r['id']}: {(r.get('inconclusive') or [r['detail']])[0][:160]}")
    for h in harness_errors[:20]:
        print("HARNESS-ERROR " + h)
    if nviol:
        return 1
    if harness_errors:
        return 3
    return 0
