"""C18, expression leg: pickled expressions round-trip.

  inproc:<family>           pickle.loads(pickle.dumps(e)) is e for every expression of the pool (same process)
  xproc:<family>:<s1>-<s2>  a producer process (PYTHONHASHSEED = s1) pickles the pool; a consumer process (PYTHONHASHSEED = s2) unpickles it
                            BEFORE building anything itself, then builds the same pool: every unpickled expression must be structurally equal
                            to (deep comparison independent of claripy's hashes, annotations as a set) and translate to the same Z3 term as
                            the one the consumer builds; unpickling a second time must return the objects of the first time; with equal seeds
                            the unpickled expression must also be the very object the consumer builds.

The pools cover every sort (bit-vectors, Booleans, floats with special values, strings), the annotation kinds (eliminatable, relocatable,
staying, strided-interval, region, uninitialized), expressions whose annotations were stripped or replaced after construction, and nodes
with several annotations.  The processes are real interpreter runs (hash randomisation cannot be changed inside a process); this leg is
exploration over the pools x hash-seed pairs, not a symbolic decision.
"""
from __future__ import annotations

import json
import os
import pickle
import subprocess
import sys
import tempfile

from . import common
from .p_c06b import deep_key

SEED_PAIRS = [("0", "0"), ("1", "2"), ("2", "77"), ("random", "random")]
FAMILIES = ["plain", "annotated", "stripped", "fp-str"]


def annotation_classes(cl):
    import harness.p_c18x as me

    return me.Elim, me.Reloc, me.Stay


def _define_annotations():
    import claripy

    class _Base(claripy.Annotation):
        def __init__(self, tag):
            self.tag = tag

        def key(self):
            return self.tag

        def __hash__(self):
            return hash((type(self).__name__, self.tag))

        def __eq__(self, o):
            return type(o) is type(self) and o.tag == self.tag

    class Elim(_Base):
        eliminatable = True
        relocatable = False

    class Reloc(_Base):
        eliminatable = False
        relocatable = True

    class Stay(_Base):
        eliminatable = False
        relocatable = False

    g = globals()
    for c in (Elim, Reloc, Stay):
        c.__module__ = __name__
        c.__qualname__ = c.__name__
        g[c.__name__] = c


def build_pool(cl, family):
    """deterministic list of (label, expression)"""
    if "Elim" not in globals():
        _define_annotations()
    E_, R_, S_ = globals()["Elim"], globals()["Reloc"], globals()["Stay"]
    x, y = cl.BVS("kx", 8, explicit_name=True), cl.BVS("ky", 8, explicit_name=True)
    b = cl.BoolS("kb", explicit_name=True)
    P = []
    if family == "plain":
        P += [("x", x), ("x+y", x + y), ("x*3-y", x * 3 - y), ("concat", cl.Concat(x, y)), ("extract", cl.Concat(x, y)[11:2]), ("if", cl.If(b, x, y + 1)),
              ("ult", cl.ULT(x, y)), ("and", cl.And(b, cl.SLE(x, 5))), ("bvv", cl.BVV(0xAB, 8)), ("bvv-wide", cl.BVV((1 << 200) + 5, 300)), ("true", cl.true()),
              ("zext", cl.ZeroExt(3, x)), ("sext", cl.SignExt(3, x)), ("lshr", cl.LShR(x, y)), ("rol", cl.RotateLeft(x, cl.BVV(3, 8))), ("rev", cl.Reverse(cl.Concat(x, y))),
              ("not-b", cl.Not(b)), ("ite-bool", cl.If(b, cl.ULT(x, y), cl.UGT(x, y))), ("sdiv", cl.SDiv(x, y)), ("esi", cl.ESI(8))]
    elif family == "annotated":
        SIA, RA, UA = cl.annotation.StridedIntervalAnnotation, cl.annotation.RegionAnnotation, cl.annotation.UninitializedAnnotation
        P += [("x@elim", x.annotate(E_("e"))), ("x@reloc", x.annotate(R_("r"))), ("x@stay", x.annotate(S_("s"))), ("x@three", x.annotate(E_("e"), R_("r"), S_("s"))),
              ("x@four", x.annotate(S_("a1"), S_("a2"), S_("a3"), S_("a4"))), ("(x@reloc)+y", x.annotate(R_("r")) + y), ("zext(x@reloc)", cl.ZeroExt(2, x.annotate(R_("r")))),
              ("(x+y)@stay", (x + y).annotate(S_("top"))), ("si", cl.SI(name="ks", bits=8, stride=2, lower_bound=0, upper_bound=6, explicit_name=True)),
              ("si-neg", cl.SI(name="ks", bits=8, stride=1, lower_bound=-1, upper_bound=6, explicit_name=True)), ("si+1", cl.SI(name="ks", bits=8, stride=2, lower_bound=0, upper_bound=6, explicit_name=True) + 1),
              ("region", x.annotate(RA("heap", 0x1000))), ("uninit", x.annotate(UA())), ("uninit+y", x.annotate(UA()) + y), ("bvv@stay", cl.BVV(5, 8).annotate(S_("c"))),
              ("bool@reloc", cl.ULT(x.annotate(R_("r")), y)), ("if@", cl.If(b.annotate(S_("c")), x, y)), ("tsi", cl.TSI(8, name="kt", explicit_name=True))]
    elif family == "stripped":
        ax = x.annotate(R_("r"))
        ua = x.annotate(cl.annotation.UninitializedAnnotation())
        P += [("zext(ax) cleared", cl.ZeroExt(2, ax).clear_annotations()), ("(ax+y) cleared", (ax + y).clear_annotations()), ("concat(ax,y) replaced", cl.Concat(ax, y).replace_annotations((S_("n"),))),
              ("ult(ax,y) cleared", cl.ULT(ax, y).clear_annotations()), ("sdiv(ax,y) removed", cl.SDiv(ax, y).remove_annotation(R_("r"))), ("zext(ua) cleared", cl.ZeroExt(2, ua).clear_annotations()),
              ("(ax+y) cleared + 1", (ax + y).clear_annotations() + 1), ("if(b, cleared, y)", cl.If(b, cl.ZeroExt(2, ax).clear_annotations(), cl.ZeroExt(2, y)))]
    else:
        f = cl.FPS("kf", cl.fp.FSORT_DOUBLE, explicit_name=True)
        g = cl.FPS("kg", cl.fp.FSORT_FLOAT, explicit_name=True)
        t = cl.StringS("kt", explicit_name=True)
        RM = cl.fp.RM
        P += [("f", f), ("f+f", cl.fpAdd(RM.RM_NearestTiesEven, f, f)), ("f*g", cl.fpMul(RM.RM_TowardsZero, f, cl.fpToFP(RM.RM_TowardsPositiveInf, g, cl.fp.FSORT_DOUBLE))),
              ("flt", cl.fpLT(f, cl.FPV(1.5, cl.fp.FSORT_DOUBLE))), ("fneg", cl.fpNeg(f)), ("fpv-nan", cl.FPV(float("nan"), cl.fp.FSORT_DOUBLE)), ("fpv--0", cl.FPV(-0.0, cl.fp.FSORT_FLOAT)),
              ("fpv-inf", cl.FPV(float("-inf"), cl.fp.FSORT_DOUBLE)), ("fp-bits", cl.fpToIEEEBV(g)), ("fp-from-bv", cl.fpToFP(cl.BVS("kq", 64, explicit_name=True), cl.fp.FSORT_DOUBLE)),
              ("fp-tosbv", cl.fpToSBV(RM.RM_NearestTiesAwayFromZero, f, 16)), ("f@", f.annotate(globals()["Stay"]("s"))), ("t", t), ("t+lit", cl.StrConcat(t, cl.StringV("\x00\\u{41}\U0001F600"))),
              ("strlen", cl.StrLen(t)), ("str-eq", t == cl.StringV("a\nb")), ("substr", cl.StrSubstr(cl.BVV(1, 64), cl.BVV(2, 64), t)), ("indexof", cl.StrIndexOf(t, cl.StringV("."), cl.BVV(0, 64)))]
    return P


def _z3key(cl, e):
    try:
        return cl.backends.z3.convert(e).sexpr()
    except Exception as ex:  # noqa: BLE001
        return f"<{type(ex).__name__}>"


def _deep_eq(a, b, where="e"):
    """structural equality under the library's OWN equality of non-expression arguments (sorts, rounding modes, ints, strings): the
    first difference as text, or None.  Floats are compared by bit pattern (NaN != NaN under ==)."""
    import struct

    import claripy

    if isinstance(a, claripy.ast.Base) != isinstance(b, claripy.ast.Base):
        return f"{where}: {type(a).__name__} vs {type(b).__name__}"
    if isinstance(a, claripy.ast.Base):
        if a.op != b.op or len(a.args) != len(b.args) or getattr(a, "length", None) != getattr(b, "length", None):
            return f"{where}: {a.op}/{len(a.args)} vs {b.op}/{len(b.args)}"
        for i, (x, y) in enumerate(zip(a.args, b.args)):
            d = _deep_eq(x, y, f"{where}.args[{i}]")
            if d:
                return d
        return None
    if isinstance(a, float) and isinstance(b, float):
        return None if struct.pack("<d", a) == struct.pack("<d", b) or (a != a and b != b) else f"{where}: {a!r} vs {b!r}"
    if isinstance(a, (tuple, list)) and isinstance(b, (tuple, list)) and len(a) == len(b):
        for i, (x, y) in enumerate(zip(a, b)):
            d = _deep_eq(x, y, f"{where}[{i}]")
            if d:
                return d
        return None
    return None if (a == b) is True else f"{where}: {a!r} == {b!r} is not True ({type(a).__name__})"


_MODEL = {"kx": 5, "ky": 250, "kb": True, "kf": 1.5, "kg": -0.0, "kt": "a.b", "kq": 0x3FF8000000000000, "ks": 2, "kt8": 3}


def _concrete_value(cl, e):
    """the value of e under a fixed assignment of its variables, computed by the library's own concrete evaluation (leaf replacement +
    folding, as the model cache does); printed, so that it can be compared across processes.  Floats by bit pattern."""
    import struct

    from claripy.frontend.mixin.model_cache_mixin import ModelCache

    try:
        v = ModelCache(dict(_MODEL)).eval_ast(e)
    except Exception as ex:  # noqa: BLE001
        return f"<{type(ex).__name__}>"
    if isinstance(v, float):
        return "nan" if v != v else struct.pack(">d", v).hex()
    return repr(v)


def _child(mode, family, path, same_seed=False):
    """runs in the producer / consumer process"""
    import claripy

    if mode == "produce":
        pool = build_pool(claripy, family)
        with open(path, "wb") as f:
            pickle.dump([e for _, e in pool], f, -1)
        with open(path + ".values", "w") as f:
            json.dump([_concrete_value(claripy, e) for _, e in pool], f)
        print(json.dumps({"ok": True, "n": len(pool)}))
        return
    if "Elim" not in globals():
        _define_annotations()
    with open(path, "rb") as f:
        data = f.read()
    first = pickle.loads(data)                 # nothing of the pool is alive in this process yet
    keys1 = [repr(deep_key(e)) for e in first]
    with open(path + ".values") as f:
        produced_values = json.load(f)
    values1 = [_concrete_value(claripy, e) for e in first]   # evaluated before anything else is built in this process
    pool = build_pool(claripy, family)
    second = pickle.loads(data)                # now everything is alive
    out = []
    for (lab, _), v0, v1 in zip(pool, produced_values, values1):
        if v0 != v1:
            out.append(f"{lab}: under the assignment {_MODEL} the original evaluates (concretely, in its process) to {v0}, the unpickled expression to {v1}")
    for (lab, mine), a, k1, b in zip(pool, first, keys1, second):
        km = repr(deep_key(mine))
        if k1 != km:
            out.append(f"{lab}: the unpickled expression differs structurally from the one built here: {a!r:.80} annotations {[type(x).__name__ for x in a.annotations]} vs {mine!r:.80} {[type(x).__name__ for x in mine.annotations]}")
        elif b is not a:
            out.append(f"{lab}: a second unpickling in the same process returned another object than the first, live one: {b!r:.80}")
        elif _z3key(claripy, a) != _z3key(claripy, mine):
            out.append(f"{lab}: translates to a different Z3 term")
        elif _deep_eq(a, mine):
            out.append(f"{lab}: the unpickled expression is not structurally equal (under the library's own equality of its arguments) to the one built here: {_deep_eq(a, mine)}")
        elif same_seed and a is not mine and len(a.annotations) <= 1:
            # with the same hash seed (and no annotation set whose iteration order could differ) the structural hash is reproducible:
            # the unpickled expression must be hash-consed with the one built here
            out.append(f"{lab}: structurally equal but not the same object as the expression built here under the same hash seed: {a!r:.80}")
    print(json.dumps({"ok": True, "fails": out[:5], "n": len(pool)}))


SOLVER_SCENARIOS = ["replacement-fp", "replacement-bv", "solver-annotated", "composite-groups", "hybrid", "solver-strings"]


def _solver_scenario(cl, name):
    """returns (solver, [(label, query function)]); queries enumerate ALL values (n exceeds the domain), so answers are sets"""
    x, y = cl.BVS("sx", 3, explicit_name=True), cl.BVS("sy", 3, explicit_name=True)
    fx = cl.FPS("sf", cl.fp.FSORT_DOUBLE, explicit_name=True)
    one = cl.FPV(1.0, cl.fp.FSORT_DOUBLE)
    RNE = cl.fp.RM.RM_NearestTiesEven
    if name == "replacement-fp":
        s = cl.SolverReplacement()
        s.add_replacement(fx, cl.FPV(1.5, cl.fp.FSORT_DOUBLE))
        s.add(cl.ULE(x, 5))
        qs = [("fx+1", lambda s: sorted(s.eval(cl.fpAdd(RNE, fx, one), 3))), ("x", lambda s: sorted(s.eval(x, 20))), ("fx<2", lambda s: s.satisfiable([cl.fpLT(fx, cl.FPV(2.0, cl.fp.FSORT_DOUBLE))]))]
    elif name == "replacement-bv":
        s = cl.SolverReplacement()
        s.add(x == 3)
        s.add(cl.ULE(y, x))
        qs = [("x+1", lambda s: sorted(s.eval(x + 1, 20))), ("y", lambda s: sorted(s.eval(y, 20))), ("max y", lambda s: s.max(y))]
    elif name == "solver-annotated":
        s = cl.Solver()
        ax = x.annotate(cl.annotation.UninitializedAnnotation())
        s.add(cl.ULE(ax, 5), ax != 2)
        s.eval(x, 3)
        qs = [("x", lambda s: sorted(s.eval(x, 20))), ("ax+y", lambda s: sorted(s.eval(ax + y, 20))), ("min", lambda s: s.min(x, signed=True))]
    elif name == "composite-groups":
        s = cl.SolverComposite()
        s.add(cl.ULE(x, 4), cl.UGE(y, 6))
        s.eval(x, 2)
        qs = [("x", lambda s: sorted(s.eval(x, 20))), ("y", lambda s: sorted(s.eval(y, 20))), ("x+y", lambda s: sorted(s.eval(x + y, 20))), ("sat x==y", lambda s: s.satisfiable([x == y]))]
    elif name == "hybrid":
        s = cl.SolverHybrid()
        s.add(cl.ULE(x, 4), fx == cl.FPV(2.5, cl.fp.FSORT_DOUBLE))
        qs = [("x", lambda s: sorted(s.eval(x, 20))), ("fx", lambda s: sorted(s.eval(fx, 3))), ("max", lambda s: s.max(x))]
    else:
        t = cl.StringS("st", explicit_name=True)
        s = cl.SolverStrings()
        s.add(t == cl.StringV("a\x00\\u{41}"), cl.ULE(x, 1))
        qs = [("t", lambda s: sorted(s.eval(t, 3))), ("len", lambda s: sorted(s.eval(cl.StrLen(t), 3))), ("x", lambda s: sorted(s.eval(x, 20)))]
    return s, qs


def _solver_child(mode, name, path):
    import claripy

    s, qs = _solver_scenario(claripy, name)
    if mode == "produce":
        answers = {lab: repr(q(s)) for lab, q in qs}
        with open(path, "wb") as f:
            pickle.dump(s, f, -1)
        print(json.dumps({"answers": answers}))
        return
    with open(path, "rb") as f:
        s2 = pickle.load(f)
    answers = {}
    for lab, q in qs:
        try:
            answers[lab] = repr(q(s2))
        except Exception as ex:  # noqa: BLE001
            answers[lab] = f"raised {type(ex).__name__}: {str(ex)[:80]}"
    print(json.dumps({"answers": answers}))


def obligations(tier):
    out = []
    for name in SOLVER_SCENARIOS:
        for s1, s2 in (SEED_PAIRS[1:3] if tier == "quick" else SEED_PAIRS):
            out.append((f"xsolver:{name}:{s1}-{s2}", {"kind": "xsolver", "name": name, "s1": s1, "s2": s2}))
    for fam in FAMILIES:
        out.append((f"inproc:{fam}", {"kind": "inproc", "family": fam}))
        for s1, s2 in (SEED_PAIRS if tier != "quick" else SEED_PAIRS[:3]):
            out.append((f"xproc:{fam}:{s1}-{s2}", {"kind": "xproc", "family": fam, "s1": s1, "s2": s2}))
    return out


def run_obligation(oid, params, tier):
    import claripy

    res = common.result(oid, "holds")
    fam = params.get("family")
    fail = None
    if params["kind"] == "xsolver":
        root = os.path.dirname(os.path.dirname(os.path.abspath(__file__)))
        repo = os.environ.get("VERIF_REPO", "/repo")
        with tempfile.TemporaryDirectory(prefix="c18x_") as td:
            path = os.path.join(td, "solver.pickle")
            outs = []
            for mode, seed in (("produce", params["s1"]), ("consume", params["s2"])):
                env = dict(os.environ, PYTHONPATH=root + os.pathsep + repo, PYTHONHASHSEED=seed)
                p = subprocess.run([sys.executable, "-c", f"from harness import p_c18x; p_c18x._solver_child({mode!r}, {params['name']!r}, {path!r})"], env=env,
                                   capture_output=True, text=True, timeout=300)
                if p.returncode != 0:
                    fail = f"{mode} process (PYTHONHASHSEED={seed}) failed: {p.stderr[-300:]}"
                    break
                outs.append(json.loads(p.stdout.strip().splitlines()[-1])["answers"])
            if not fail:
                res["paths"] = len(outs[0])
                for lab in outs[0]:
                    if outs[0][lab] != outs[1].get(lab):
                        fail = (f"solver pickled with PYTHONHASHSEED={params['s1']} and unpickled with {params['s2']}: query {lab} answered {outs[1].get(lab)}, "
                                f"the original answered {outs[0][lab]}")
                        break
    elif params["kind"] == "inproc":
        pool = build_pool(claripy, fam)
        res["paths"] = len(pool)
        blob = pickle.dumps([e for _, e in pool], -1)
        back = pickle.loads(blob)
        for (lab, e), r in zip(pool, back):
            if r is not e:
                fail = f"{lab}: pickle round trip in the same process returned another object: {r!r:.80} vs {e!r:.80}"
                break
            one = pickle.loads(pickle.dumps(e, -1))
            if one is not e:
                fail = f"{lab}: pickle round trip of the single expression returned another object"
                break
    else:
        root = os.path.dirname(os.path.dirname(os.path.abspath(__file__)))
        repo = os.environ.get("VERIF_REPO", "/repo")
        with tempfile.TemporaryDirectory(prefix="c18x_") as td:
            path = os.path.join(td, "pool.pickle")
            outs = []
            for mode, seed in (("produce", params["s1"]), ("consume", params["s2"])):
                env = dict(os.environ, PYTHONPATH=root + os.pathsep + repo, PYTHONHASHSEED=seed)
                p = subprocess.run([sys.executable, "-c", f"from harness import p_c18x; p_c18x._child({mode!r}, {fam!r}, {path!r}, {params["s1"] == params["s2"] and params["s1"] != "random"!r})"], env=env, capture_output=True, text=True, timeout=300)
                if p.returncode != 0:
                    fail = f"{mode} process (PYTHONHASHSEED={seed}) failed: {p.stderr[-300:]}"
                    break
                outs.append(json.loads(p.stdout.strip().splitlines()[-1]))
            if not fail:
                res["paths"] = outs[1]["n"]
                if outs[1]["fails"]:
                    fail = f"pickled with PYTHONHASHSEED={params['s1']}, unpickled with {params['s2']}: " + outs[1]["fails"][0]
    if fail:
        known = common.known_for(common.load_known("C18"), oid)
        kk = [k for k in known if k.get("key") and k["key"] in fail]
        if kk:
            res["known_hits"] = [kk[0]["id"]]
            return res
        res["status"] = "violation"
        res["detail"] = fail
        res["cex"] = [{"harness": "harness.p_c18x", "params": params, "vals": {}, "obligation": oid, "detail": fail[:300]}]
    return res


def replay(case):
    r = run_obligation(case["obligation"], case["params"], "quick")
    return {"violated": r["status"] == "violation", "detail": r.get("detail", "")}
