"""Glue for running claripy's string folding on symbolic strings (pysym.sstr.SStr).

The functions of claripy/backends/backend_concrete/strings.py are RE-COMPILED FROM THE CURRENT SOURCE with one syntactic change: every
string literal `"..."` becomes `__S("...")` (a shadow with concrete characters), so that methods called on literals (`"".join(...)`,
`r"^" + x`) reach the model instead of the C implementation.  The re-compiled functions replace the originals in the module and in
BackendConcrete's operation table; classes are left untouched.  In that module's namespace the names int / str / re are shims:

  int(s)      model of CPython's base-10 int() on a string shadow (whitespace, sign, underscores, Unicode decimal digits)
  str(v)      decimal rendering of an int shadow (up to 4 digits; longer values are outside the model)
  re.match    on a pattern / subject containing symbolic characters: no metacharacter possible -> literal matching semantics of the
              two pattern forms used ("^" + p, ".*" + p + "$"); otherwise ONE solver-chosen representative of the characters is run
              through the real `re` (the path is then reported as sampled, never as held)

claripy.ast.base._arg_serialize: a string shadow is serialised by a digest of its terms; BackendZ3's StringV: the shadow's sequence term.
"""
from __future__ import annotations

import ast as pyast
import inspect
import re

import z3

from pysym import engine as E
from pysym import sstr
from pysym.engine import SInt
from pysym.sstr import SStr

SHIMS = ["backend_concrete/strings.py functions re-compiled from the current source with string literals lifted to shadows",
         "int(str shadow): model of CPython base-10 int(); str(int shadow): decimal rendering up to 4 digits",
         "re.match with symbolic characters: literal semantics when no metacharacter is possible, else one solver-chosen representative (reported as sampled)",
         "claripy.ast.base._arg_serialize: digest of the shadow's terms; BackendZ3 StringV leaf: Concat of (Unit (char.from_bv c)) over the code points",
         "BackendConcrete._convert: a string shadow passes the exact-type test for str",
         "code points 0 .. 0x2FFFF (Z3's character sort); lengths are concrete per path"]

META = sorted(ord(c) for c in ".^$*+?{}[]\\|()")


class _Meta(type):
    def __instancecheck__(cls, x):
        return isinstance(x, cls._real)

    def __subclasscheck__(cls, c):
        return issubclass(c, cls._real)


class IntT(metaclass=_Meta):
    _real = int

    def __new__(cls, v=0, *a):
        if isinstance(v, SStr):
            if a and a[0] != 10:
                raise E.Unsupported("int(symbolic string, base != 10)")
            return sstr.parse_int(v)
        return int(v, *a)


class StrT(metaclass=_Meta):
    _real = str

    def __new__(cls, v="", *a):
        if isinstance(v, SStr):
            return v
        if isinstance(v, SInt):
            return sstr.int_to_str(v)
        return str(v, *a)


def _pin(s):
    """pins every symbolic character of s to the value it has in the current model; returns the concrete Python string"""
    out = []
    for c in s.cs:
        if isinstance(c, SInt):
            v = E.ENG.get_model().eval(c.t, model_completion=True).as_long()
            E.ENG.assume(c.t == v)
            out.append(v)
        else:
            out.append(c)
    return "".join(chr(v) for v in out)


class _SymMatch:
    def __init__(self, ok):
        self.ok = ok


class ReShim:
    error = re.error

    def __getattr__(self, k):
        return getattr(re, k)

    @staticmethod
    def _may_be_meta(s):
        for c in s.cs:
            if isinstance(c, SInt):
                if E.ENG.branch(z3.Or(*[c.t == m for m in META])):
                    return True
            elif c in META:
                return True
        return False

    def match(self, pattern, string, flags=0):
        if not isinstance(pattern, SStr) and not isinstance(string, SStr):
            return re.match(pattern, string, flags)
        pattern, string = sstr.lift(pattern), sstr.lift(string)
        if not sstr.sym_chars(pattern) and not sstr.sym_chars(string):
            return re.match("".join(chr(c) for c in pattern.cs), "".join(chr(c) for c in string.cs), flags)
        # the two forms used by the string kernels: "^" + p and ".*" + p + "$" with p free of metacharacters
        cs = pattern.cs
        if flags == 0 and cs and cs[0] == ord("^") and not self._may_be_meta(SStr(cs[1:])):
            return _SymMatch(True) if string.startswith(SStr(cs[1:])) else None
        if flags == 0 and len(cs) >= 3 and cs[0] == ord(".") and cs[1] == ord("*") and cs[-1] == ord("$") and not self._may_be_meta(SStr(cs[2:-1])):
            body = SStr(cs[2:-1])
            # '.' does not match a newline: the part of the subject before the suffix must be newline-free; '$' also matches before a final newline
            n, m = len(string.cs), len(body.cs)
            if m <= n and string.endswith(body) and not SStr(string.cs[:n - m]).__contains__("\n"):
                return _SymMatch(True)
            if m <= n - 1 and E.ENG.branch(E.term(string.cs[-1]) == 10) and SStr(string.cs[:-1]).endswith(body) and not SStr(string.cs[:n - 1 - m]).__contains__("\n"):
                return _SymMatch(True)
            return None
        E.ENG.resources.append(("sampled", None))
        return re.match(_pin(pattern), _pin(string), flags)

    def search(self, *a, **kw):
        raise E.Unsupported("re.search on a symbolic string")

    fullmatch = sub = findall = split = compile = search


class _Lift(pyast.NodeTransformer):
    def visit_Expr(self, node):
        if isinstance(node.value, pyast.Constant) and isinstance(node.value.value, str):
            return node   # docstring
        return self.generic_visit(node)

    def visit_JoinedStr(self, node):
        return node       # f-strings (only in __repr__ / messages): formatting goes through __format__

    def visit_Constant(self, node):
        if isinstance(node.value, str):
            return pyast.copy_location(pyast.Call(func=pyast.Name(id="__S", ctx=pyast.Load()), args=[node], keywords=[]), node)
        return node


_installed = False


def install():
    global _installed
    if _installed:
        return
    _installed = True
    import claripy
    import claripy.ast.base as cbase
    import claripy.backends.backend_concrete.strings as ks
    from pysym import glue

    glue.install()
    src = inspect.getsource(ks)
    tree = pyast.parse(src)
    body = []
    for node in tree.body:
        if isinstance(node, (pyast.FunctionDef, pyast.AsyncFunctionDef)):
            body.append(_Lift().visit(node))
    mod = pyast.Module(body=body, type_ignores=[])
    pyast.fix_missing_locations(mod)
    ns = ks.__dict__
    ns["__S"] = sstr.lift
    ns["int"] = IntT
    ns["str"] = StrT
    ns["re"] = ReShim()
    exec(compile(mod, ks.__file__, "exec"), ns)  # noqa: S102 - the repository's own source, re-compiled
    names = [n.name for n in body]
    conc = claripy.backends.concrete
    for n in names:
        if n in conc._op_raw:
            conc._op_raw[n] = ns[n]

    orig_ser = cbase.Base._arg_serialize

    def arg_serialize(arg):
        if isinstance(arg, SStr):
            # hash-consing is by VALUE: two shadows whose characters are equal on this path must give one AST (natively they are the
            # same Python string).  The path forks on equality with every string value of the same length seen before on it.
            lst = glue.KNOWN.setdefault(("str", len(arg.cs)), [])
            for r in lst:
                if r is arg:
                    return r.digest()
            for r in lst:
                if E.ENG.branch(sstr.chars_eq(arg.cs, r.cs)):
                    return r.digest()
            lst.append(arg)
            return arg.digest()
        return orig_ser(arg)

    cbase.Base._arg_serialize = staticmethod(arg_serialize)

    # BackendConcrete._convert lets a Python string through by an exact type test (type(r) in {int, str, bytes}); a shadow is a subclass
    orig_conv = type(conc)._convert

    def conc_convert(self, r):
        if isinstance(r, SStr):
            return r
        return orig_conv(self, r)

    type(conc)._convert = conc_convert

    z3b = claripy.backends.z3
    orig = z3b._op_expr["StringV"]

    def z3_StringV(a):
        v = a.args[0]
        if isinstance(v, SStr):
            return v.seq()
        return orig(a)

    z3b._op_expr["StringV"] = z3_StringV
    orig_has = glue.has_sym

    def has_sym(expr):
        for leaf in expr.leaf_asts():
            if leaf.op == "StringV" and isinstance(leaf.args[0], SStr):
                return True
        return orig_has(expr)

    glue.has_sym = has_sym
    return names
