"""Probe: fork-based exploration (no replay) for code that is not replay-deterministic."""
import os, pickle, sys, z3, traceback
import symint
from symint import PathAbort

class ForkEngine:
    """At a two-sided branch: fork; child takes the False side. Depth-first: parent waits for the child's subtree."""
    def __init__(self, out_fd):
        self.solver = z3.Solver(); self.pc = []; self.obligations = []; self.out_fd = out_fd; self.model = None
    def assume(self, f):
        self.pc.append(f); self.solver.add(f); self.model = None
    def _sat(self, extra=None):
        r = self.solver.check(extra) if extra is not None else self.solver.check()
        if r == z3.unknown: raise RuntimeError("unknown")
        return r == z3.sat
    def branch(self, cond):
        cond = z3.simplify(cond)
        if z3.is_true(cond): return True
        if z3.is_false(cond): return False
        t = self._sat(cond); f = self._sat(z3.Not(cond))
        if t and f:
            pid = os.fork()
            if pid == 0:
                self.assume(z3.Not(cond)); return False
            os.waitpid(pid, 0)
            self.assume(cond); return True
        if t: self.assume(cond); return True
        if f: self.assume(z3.Not(cond)); return False
        raise PathAbort("infeasible")
    def concretize(self, t):
        t = z3.simplify(t)
        while True:
            if z3.is_bv_value(t): return t.as_signed_long()
            if not self._sat(): raise PathAbort("infeasible")
            v = self.solver.model().eval(t, model_completion=True)
            if self.branch(t == v): return v.as_signed_long()

def explore_fork(fn, finish):
    """fn(): run under test; finish(pc, kind, result) -> picklable summary, executed in the leaf process."""
    r, w = os.pipe()
    root = os.fork()
    if root == 0:
        os.close(r)
        eng = ForkEngine(w); symint.ENG = eng
        import symclaripy; symclaripy.ENG = eng
        for m in list(sys.modules.values()):
            if getattr(m, "ENG", None) is not None and m is not symint: m.ENG = eng
        try:
            try: res = ("ok", fn())
            except PathAbort: os._exit(0)
            except Exception as e: res = ("exc", e)
            out = finish(eng.pc, *res)
            data = pickle.dumps(out); os.write(w, len(data).to_bytes(4, "little") + data)
        finally:
            os._exit(0)
    os.close(w)
    buf = b""
    while True:
        chunk = os.read(r, 65536)
        if not chunk: break
        buf += chunk
    os.waitpid(root, 0)
    outs = []
    i = 0
    while i < len(buf):
        n = int.from_bytes(buf[i:i+4], "little"); outs.append(pickle.loads(buf[i+4:i+4+n])); i += 4 + n
    return outs
