"""Prototype glue: symbolic constants inside claripy ASTs (hash-cons faithful)."""
import itertools
import z3
import symint
from symint import SInt, SBool, ENG
import claripy
import claripy.ast.bv as cbv

_uid = itertools.count(1)


def mk(t, n):
    s = SInt(z3.ZeroExt(symint.W - n, t))
    s.uid = next(_uid)
    return s


SInt.bit_length = lambda s: 200


def _to_bytes(s, length=1, byteorder="big", *, signed=False):
    # deterministic per *term*: identical terms are the same constant; replays see identical structural hashes
    import hashlib
    return b"\xfeSYM" + hashlib.blake2b(s.t.sexpr().encode(), digest_size=12).digest() + b"\xfe"


def reset_caches():
    """evaluation caches keyed by AST hash are path-dependent once constants are symbolic: clear per run"""
    import sys
    asim = sys.modules['claripy.algorithm.simplify']; ite = sys.modules['claripy.algorithm.ite_relocation']
    for b in claripy.backends.all_backends:
        b.downsize()
    asim.simplification_cache.clear(); ite.excavated_cache.clear(); ite.burrowed_cache.clear()
    KNOWN.clear()


SInt.to_bytes = _to_bytes
SInt.__format__ = lambda s, spec: "sym"

_orig_BVV = cbv.BVV
KNOWN = {}  # size -> list of (value, node)


def BVV(value, size=None, **kwargs):
    if kwargs or value is None or not isinstance(value, int) or size is None:
        return _orig_BVV(value, size, **kwargs)
    lst = KNOWN.setdefault(size, [])
    mask = (1 << size) - 1
    if isinstance(value, SInt):
        value = value & mask
        t = z3.simplify(symint.term(value))
        if z3.is_bv_value(t):
            value = t.as_long()
    else:
        value &= mask
    for kv, node in lst:
        if isinstance(kv, SInt) or isinstance(value, SInt):
            if kv is value or (kv == value):  # SBool -> fork
                return node
        elif kv == value:
            return node
    if isinstance(value, SInt):
        node = cbv.BV("BVV", (value, size), length=size)   # bypass the (value,size) memo: identity handled above
    else:
        node = _orig_BVV(value, size)
    lst.append((value, node))
    return node


def install():
    import claripy.frontend.frontend as ff
    import claripy.frontend.mixin.model_cache_mixin as mcm
    import claripy.backends.backend_concrete.backend_concrete as bcc
    for mod in (cbv, claripy, ff):
        if hasattr(mod, "BVV"):
            mod.BVV = BVV
    z3b = claripy.backends.z3
    orig = z3b._op_expr["BVV"]

    def z3_BVV(ast):
        v = ast.args[0]
        if isinstance(v, SInt):
            return z3.Extract(ast.args[1] - 1, 0, symint.term(v))
        return orig(ast)

    z3b._op_expr["BVV"] = z3_BVV
    z3b._cache_objects = False


def stub_z3_simplify():
    """Mode A: symbolic constants cannot cross Z3's C simplifier; make it decline (BackendError path)."""
    from claripy.errors import BackendError
    z3b = claripy.backends.z3
    cls = type(z3b)
    orig = cls.simplify

    def simplify(self, expr):
        for leaf in expr.leaf_asts():
            if leaf.op == "BVV" and isinstance(leaf.args[0], SInt):
                return expr   # identity is a valid simplification; constants cannot cross libz3
        return orig(self, expr)

    cls.simplify = simplify
