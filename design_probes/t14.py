"""Probe: BackendVSA.convert of expressions over annotated variables with symbolic annotation fields (C24)."""
import sys, time, hashlib, z3
import symint
from symint import SInt, explore, ENG
symint.W = 24; W = 24
import claripy, symclaripy
from symclaripy import mk, BVV
symclaripy.install(); symclaripy.stub_z3_simplify()
import claripy.annotation as ann
import claripy.backends.backend_vsa.strided_interval as simod
from claripy.backends.backend_vsa.strided_interval import StridedInterval
from claripy.backends.backend_vsa.bool_result import BoolResult
N = int(sys.argv[1]) if len(sys.argv) > 1 else 3

def nominal_hash(obj):
    def ser(o):
        if isinstance(o, SInt): return b"S" + o.t.sexpr().encode()
        if isinstance(o, tuple): return b"(" + b",".join(ser(i) for i in o) + b")"
        return repr(o).encode()
    return int.from_bytes(hashlib.blake2b(ser(obj), digest_size=7).digest(), "little")
ann.hash = nominal_hash     # shim: annotation hashing is nominal in this harness (its real behaviour is C06's subject)

class MathShim:
    @staticmethod
    def gcd(a, b):
        a = abs(a); b = abs(b)
        while b != 0: a, b = b, a % b
        return a
    def __getattr__(self, k):
        import math; return getattr(math, k)
simod.math = MathShim()

def member(z, s, lb, ub):
    d = z - lb; span = ub - lb
    return z3.And(z3.ULE(d, span), z3.If(s == 0, d == 0, z3.URem(d, s) == 0))
def wf(s, lb, ub): return z3.If(lb == ub, z3.BoolVal(True), z3.And(s != 0, z3.URem(ub - lb, s) == 0))
def low(v): return z3.Extract(N - 1, 0, symint.term(v)) if isinstance(v, SInt) else z3.BitVecVal(v, N)

def check(name, build):
    A = [z3.BitVec(f"a_{k}", N) for k in ("s", "lb", "ub")]
    k0 = z3.BitVec("k0", N); zx = z3.BitVec("x", N)
    pre = z3.And(wf(*A), member(zx, *A))
    def run():
        symclaripy.reset_caches(); ENG.assume(pre)
        x = claripy.SI(name="x", bits=N, stride=mk(A[0], N), lower_bound=mk(A[1], N), upper_bound=mk(A[2], N), explicit_name=True)
        K = BVV(mk(k0, N), N)
        e = build(x, K)
        return e, claripy.backends.vsa.convert(e)
    t0 = time.time(); paths = 0; bad = None; excs = {}
    for pc, obl, (kind, r) in explore(run, max_paths=20000):
        paths += 1
        s = z3.Solver(); s.add(*pc)
        if kind == "exc":
            k = type(r).__name__ + ":" + str(r)[:60]; excs[k] = excs.get(k, 0) + 1; continue
        e, av = r
        ze = claripy.backends.z3.convert(e)     # meaning of e over the variable named x
        if isinstance(av, StridedInterval):
            s.add(z3.BoolVal(True) if av.is_empty else z3.Not(member(ze, low(av.stride), low(av.lower_bound), low(av.upper_bound))))
        elif isinstance(av, BoolResult):
            s.add(z3.Or(z3.And(ze, z3.BoolVal(True not in av.value)), z3.And(z3.Not(ze), z3.BoolVal(False not in av.value))))
        else:
            bad = ("unexpected abstract value", type(av)); break
        if s.check() == z3.sat:
            m = s.model(); bad = (str(av), {str(d): m[d] for d in m.decls() if not str(d).startswith("sk")}); break
    print(f"{name:18s} N={N} paths={paths:4d} excs={excs} {'SOUND' if bad is None else 'CEX ' + str(bad)} {time.time()-t0:.1f}s", flush=True)

check("x + k", lambda x, k: x + k)
check("x & k", lambda x, k: x & k)
check("-x", lambda x, k: -x)
check("x <= k", lambda x, k: claripy.ULE(x, k))
check("If(x<k, x, k)+1", lambda x, k: claripy.If(claripy.ULT(x, k), x, k) + 1)
check("ZeroExt(x)[N:1]", lambda x, k: claripy.ZeroExt(N, x)[N:1])
