from claripy.backends.backend_vsa.strided_interval import StridedInterval as SI
import itertools, traceback
n = 4
seen = {}
for s1, lb1, ub1, s2, lb2, ub2 in itertools.product(range(16), range(16), range(16), [0, 1, 3, 5, 15], range(16), range(16)):
    def wf(s, lb, ub): return lb == ub or (s != 0 and ((ub - lb) % 16) % s == 0)
    if not (wf(s1, lb1, ub1) and wf(s2, lb2, ub2)): continue
    if lb1 != ub1 or s1 != 0: continue   # a is an integer
    try:
        SI(bits=n, stride=s1, lower_bound=lb1, upper_bound=ub1).mul(SI(bits=n, stride=s2, lower_bound=lb2, upper_bound=ub2))
    except Exception as ex:
        k = type(ex).__name__ + ": " + str(ex)[:60]
        if k not in seen:
            seen[k] = (s1, lb1, ub1, s2, lb2, ub2)
print(seen)
