"""Probe: SolverComposite / SolverReplacement / pickling / branch on the symbolic oracle backend."""
import sys, pickle, traceback
sys.argv = ["t5.py", "2"]
src = open("t5.py").read().split("ule = lambda")[0]
exec(src)
import claripy.solvers as cs
x = claripy.BVS("x", N, explicit_name=True); y = claripy.BVS("y", N, explicit_name=True)
zx, zy = z3.BitVec("x", N), z3.BitVec("y", N)
ks = [z3.BitVec(f"k{i}", N) for i in range(2)]
be = SymBackend([("x", zx, N), ("y", zy, N)])
claripy.backends.backends_by_type["SymBackend"] = be

def drive(name, mk_solver, script):
    def run():
        symclaripy.reset_caches(); be.fresh = itertools.count()
        K = [BVV(mk(k, N), N) for k in ks]
        s = mk_solver()
        return script(s, K)
    t0 = time.time(); n = 0; exc = {}; bad = None
    for pc, obl, (kind, r) in explore(run, max_paths=30000):
        n += 1
        sol = z3.Solver(); sol.add(*pc)
        if kind == "exc":
            k = type(r).__name__ + ": " + str(r)[:70]
            if k not in exc: exc[k] = "".join(traceback.format_exception(r))[-400:]
            continue
        F, t, m = r   # check: m is the true unsigned max of t under F
        if isinstance(m, str):
            spec = z3.Not(be._exists(F))
        else:
            mm = z3.Extract(N - 1, 0, symint.term(m))
            spec = spec_max(F, t, mm, False, be)
        sol.add(z3.Not(spec))
        if sol.check() == z3.sat:
            mo = sol.model(); bad = (m, {str(k): mo.eval(k) for k in ks}); break
    print(f"{name:34s} paths={n:5d} {'HOLDS' if bad is None else 'CEX ' + str(bad)} excs={list(exc)} {time.time()-t0:.1f}s", flush=True)
    for k, v in exc.items(): print("   ", v.replace("\n", " | ")[-300:])

def script1(s, K):
    c1 = claripy.ULE(x, K[0]); c2 = y == K[1]
    s.add(c1); s.add(c2)
    try: m = s.max(x)
    except UnsatError: m = "UNSAT"
    return z3.And(be.conv(c1), be.conv(c2)), zx, m
def script2(s, K):   # connect the groups afterwards
    c1 = claripy.ULE(x, K[0]); c2 = y == K[1]; c3 = x == y
    s.add(c1); s.add(c2); s.satisfiable(); s.add(c3)
    try: m = s.max(x)
    except UnsatError: m = "UNSAT"
    return z3.And(be.conv(c1), be.conv(c2), be.conv(c3)), zx, m
def script3(s, K):   # branch isolation + pickle
    c1 = claripy.ULE(x, K[0])
    s.add(c1); b = s.branch(); b.add(x != K[0]); b.max(x)
    s2 = pickle.loads(pickle.dumps(s))
    try: m = s2.max(x)
    except UnsatError: m = "UNSAT"
    return be.conv(c1), zx, m

drive("Composite: 2 groups, max", lambda: cs.SolverComposite(template_solver=cs.SolverCompositeChild(backend=be)), script1)
drive("Composite: groups joined later", lambda: cs.SolverComposite(template_solver=cs.SolverCompositeChild(backend=be)), script2)
drive("Replacement(Solver): y==k then max", lambda: cs.SolverReplacement(actual_frontend=cs.Solver(backend=be)), script1)
drive("Solver: branch + pickle", lambda: cs.Solver(backend=be), script3)
drive("Composite: branch + pickle", lambda: cs.SolverComposite(template_solver=cs.SolverCompositeChild(backend=be)), script3)
