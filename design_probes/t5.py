"""Prototype: real claripy frontends over a symbolic oracle backend."""
import itertools, time, sys, traceback
import z3
import symint
from symint import SInt, SBool, explore, ENG
symint.W = 16
W = 16
import claripy
import symclaripy
from symclaripy import mk, BVV
symclaripy.install(); symclaripy.stub_z3_simplify()
from claripy.backends.backend import Backend
from claripy.errors import UnsatError

N = int(sys.argv[1]) if len(sys.argv) > 1 else 3


class SymSolver:
    def __init__(self):
        self.cons = []


class SymBackend(Backend):
    reuse_z3_solver = False

    def __init__(self, variables):
        Backend.__init__(self, solver_required=True)
        self.vars = variables  # list of (name, z3var, width)
        self.fresh = itertools.count()

    def conv(self, e):
        if isinstance(e, claripy.ast.Base):
            return claripy.backends.z3.convert(e)
        if isinstance(e, SBool):
            return e.t
        if isinstance(e, bool):
            return z3.BoolVal(e)
        raise TypeError(type(e))

    def solver(self, timeout=None, max_memory=None):
        return SymSolver()

    def clone_solver(self, s):
        c = SymSolver(); c.cons = list(s.cons); return c

    def add(self, s, c, track=False):
        s.cons += [self.conv(a) for a in c]

    # ---- oracle helpers
    def _dom(self):
        return itertools.product(*[range(1 << w) for _, _, w in self.vars])

    def _inst(self, f, vals):
        return z3.substitute(f, *[(v, z3.BitVecVal(x, w)) for (_, v, w), x in zip(self.vars, vals)])

    def _exists(self, f):
        return z3.simplify(z3.Or(*[self._inst(f, vals) for vals in self._dom()]))

    def _forall(self, f):
        return z3.simplify(z3.And(*[self._inst(f, vals) for vals in self._dom()]))

    def _skolem(self, f):
        k = next(self.fresh)
        sk = [z3.BitVec(f"sk{k}_{name}", w) for name, _, w in self.vars]
        ENG.assume(z3.substitute(f, *[(v, s) for (_, v, _), s in zip(self.vars, sk)]))
        return sk

    def _model(self, sk):
        return {name: SInt(z3.ZeroExt(W - w, s)) for (name, _, w), s in zip(self.vars, sk)}

    def _F(self, solver, extra):
        return z3.And(*solver.cons, *[self.conv(e) for e in extra]) if (solver.cons or extra) else z3.BoolVal(True)

    # ---- public API used by FullFrontend
    def satisfiable(self, extra_constraints=(), solver=None, model_callback=None):
        F = self._F(solver, extra_constraints)
        if not ENG.branch(self._exists(F)):
            return False
        sk = self._skolem(F)
        if model_callback is not None:
            model_callback(self._model(sk))
        return True

    def batch_eval(self, exprs, n, extra_constraints=(), solver=None, model_callback=None):
        F = self._F(solver, extra_constraints)
        ets = [self.conv(e) if isinstance(e, claripy.ast.Base) else e for e in exprs]
        results = []
        block = []
        for _ in range(n):
            G = z3.And(F, *block)
            if not ENG.branch(self._exists(G)):
                break
            sk = self._skolem(G)
            sub = [(v, s) for (_, v, _), s in zip(self.vars, sk)]
            vals = [z3.simplify(z3.substitute(t, *sub)) for t in ets]
            if model_callback is not None:
                model_callback(self._model(sk))
            results.append(tuple(SInt(z3.ZeroExt(W - t.size(), v)) for t, v in zip(ets, vals)))
            block.append(z3.Or(*[t != v for t, v in zip(ets, vals)]))
        return results

    def eval(self, expr, n, extra_constraints=(), solver=None, model_callback=None):
        return [r[0] for r in self.batch_eval([expr], n, extra_constraints, solver, model_callback)]

    def _extreme(self, is_max, expr, extra_constraints, signed, solver, model_callback):
        F = self._F(solver, extra_constraints)
        t = self.conv(expr)
        sk = self._skolem(F)
        sub = [(v, s) for (_, v, _), s in zip(self.vars, sk)]
        m = z3.simplify(z3.substitute(t, *sub))
        if signed:
            cmp = (lambda a, b: a <= b) if is_max else (lambda a, b: a >= b)
        else:
            cmp = (lambda a, b: z3.ULE(a, b)) if is_max else (lambda a, b: z3.UGE(a, b))
        ENG.assume(self._forall(z3.Implies(F, cmp(t, m))))
        if model_callback is not None:
            model_callback(self._model(sk))
        return SInt(z3.ZeroExt(W - t.size(), m))

    def min(self, expr, extra_constraints=(), signed=False, solver=None, model_callback=None):
        return self._extreme(False, expr, extra_constraints, signed, solver, model_callback)

    def max(self, expr, extra_constraints=(), signed=False, solver=None, model_callback=None):
        return self._extreme(True, expr, extra_constraints, signed, solver, model_callback)

    def solution(self, expr, v, extra_constraints=(), solver=None, model_callback=None):
        t = self.conv(expr)
        vt = self.conv(v) if isinstance(v, claripy.ast.Base) else z3.Extract(t.size() - 1, 0, symint.term(v))
        return self.satisfiable(extra_constraints=(*extra_constraints, SBool(t == vt)), solver=solver, model_callback=model_callback)

    def is_true(self, e, extra_constraints=(), solver=None, model_callback=None):
        return False

    def is_false(self, e, extra_constraints=(), solver=None, model_callback=None):
        return False


def spec_min(F, t, m, signed, be):
    le = (lambda a, b: a <= b) if signed else z3.ULE
    return z3.And(be._exists(z3.And(F, t == m)), be._forall(z3.Implies(F, le(m, t))))


def spec_max(F, t, m, signed, be):
    ge = (lambda a, b: a >= b) if signed else z3.UGE
    return z3.And(be._exists(z3.And(F, t == m)), be._forall(z3.Implies(F, ge(m, t))))


def run_history(name, hist, nconst=2, cls=claripy.Solver):
    x = claripy.BVS("x", N, explicit_name=True)
    zx = z3.BitVec("x", N)
    ks = [z3.BitVec(f"k{i}", N) for i in range(nconst)]
    be = SymBackend([("x", zx, N)])
    log = []

    def run():
        symclaripy.reset_caches()
        be.fresh = itertools.count()
        log.clear()
        K = [BVV(mk(k, N), N) for k in ks]
        s = cls(backend=be)
        F = []
        for step in hist:
            op = step[0]
            if op == "add":
                c = step[1](x, *K)
                s.add(c)
                F.append(claripy.backends.z3.convert(c))
            elif op in ("min", "max"):
                signed = step[1]
                try:
                    r = getattr(s, op)(x, signed=signed)
                except UnsatError:
                    r = "UNSAT"
                log.append((op, signed, r, z3.And(*F) if F else z3.BoolVal(True)))
            elif op == "eval":
                try:
                    r = s.eval(x, step[1])
                except UnsatError:
                    r = "UNSAT"
                log.append((op, step[1], r, z3.And(*F) if F else z3.BoolVal(True)))
        return list(log)

    t0 = time.time(); paths = 0; bad = None
    for pc, obl, (kind, r) in explore(run, max_paths=50000):
        paths += 1
        sol = z3.Solver(); sol.add(*pc)
        if kind == "exc":
            if sol.check() == z3.sat:
                bad = ("EXC", "".join(traceback.format_exception(r))[-600:]); break
            continue
        for entry in r:
            op, arg, ans, F = entry
            if op in ("min", "max"):
                if isinstance(ans, str):
                    spec = z3.Not(be._exists(F))
                else:
                    m = z3.Extract(N - 1, 0, symint.term(ans))
                    spec = (spec_min if op == "min" else spec_max)(F, zx, m, arg, be)
            else:
                if isinstance(ans, str):
                    spec = z3.Not(be._exists(F))
                else:
                    vals = [z3.Extract(N - 1, 0, symint.term(v)) for v in ans]
                    feas = [be._exists(z3.And(F, zx == v)) for v in vals]
                    distinct = z3.Distinct(*vals) if len(vals) > 1 else z3.BoolVal(True)
                    complete = z3.BoolVal(True)
                    if len(vals) < arg:
                        complete = be._forall(z3.Implies(F, z3.Or(*[zx == v for v in vals])))
                    spec = z3.And(*feas, distinct, complete, z3.BoolVal(len(vals) >= 1))
            sol.push(); sol.add(z3.Not(spec))
            if sol.check() == z3.sat:
                m = sol.model()
                bad = (op, arg, ans, {str(k): m.eval(k) for k in ks}); sol.pop(); break
            sol.pop()
        if bad: break
    print(f"{name:40s} N={N} paths={paths:5d} {'HOLDS' if bad is None else 'CEX ' + str(bad)} {time.time()-t0:.1f}s", flush=True)


ule = lambda x, k1, k2: claripy.ULE(x, k1)
uge2 = lambda x, k1, k2: claripy.UGE(x, k2)
ne2 = lambda x, k1, k2: x != k2
run_history("add(x<=k1); min", [("add", ule), ("min", False)])
run_history("add(x<=k1); max; max(signed)", [("add", ule), ("max", False), ("max", True)])
run_history("add(x<=k1); eval3; min(signed)", [("add", ule), ("eval", 3), ("min", True)])
run_history("add(x<=k1); add(x>=k2); eval2; max", [("add", ule), ("add", uge2), ("eval", 2), ("max", False)])
run_history("add(x<=k1); min; add(x!=k2); min", [("add", ule), ("min", False), ("add", ne2), ("min", False)])
