"""Prototype: symbolic ints (int subclass) over z3 bit-vectors, fork-by-replay."""
import z3, itertools

W = 64  # model width

class PathAbort(BaseException): pass

class Engine:
    def __init__(self):
        self.solver = z3.Solver()
        self.decisions = []   # replay prefix
        self.pos = 0
        self.pc = []
        self.obligations = []  # (formula that must hold under pc for model to be exact)
    def reset(self, prefix):
        self.solver = z3.Solver(); self.decisions = list(prefix); self.pos = 0; self.pc = []; self.obligations=[]
    def assume(self, f):
        self.pc.append(f); self.solver.add(f)
    def branch(self, cond):
        # cond is z3 Bool
        cond = z3.simplify(cond)
        if z3.is_true(cond): return True
        if z3.is_false(cond): return False
        if self.pos < len(self.decisions):
            d = self.decisions[self.pos]; self.pos += 1
            self.assume(cond if d else z3.Not(cond))
            return d
        # new decision: check feasibility of both
        can_t = self.solver.check(cond) == z3.sat
        can_f = self.solver.check(z3.Not(cond)) == z3.sat
        if can_t and can_f:
            self.decisions.append(True); self.pos += 1
            self.assume(cond)
            return True
        if can_t:
            return True
        if can_f:
            return False
        raise PathAbort("infeasible")

ENG = Engine()


def term(x):
    if isinstance(x, SInt): return x.t
    if isinstance(x, bool): x = int(x)
    if isinstance(x, int): return z3.BitVecVal(x, W)
    raise TypeError(type(x))

def fits(x):
    if isinstance(x, SInt): return x.fits
    return z3.BoolVal(-(1 << (W-1)) <= x < (1 << (W-1)))

class SBool:
    def __init__(self, t): self.t = t
    def __bool__(self): return ENG.branch(self.t)
    def __and__(self, o): return SBool(z3.And(self.t, o.t if isinstance(o, SBool) else z3.BoolVal(bool(o))))
    __rand__ = __and__
    def __or__(self, o): return SBool(z3.Or(self.t, o.t if isinstance(o, SBool) else z3.BoolVal(bool(o))))
    __ror__ = __or__
    def __invert__(self): return SBool(z3.Not(self.t))
    def __eq__(self, o):
        if isinstance(o, SBool): return SBool(self.t == o.t)
        return SBool(self.t == z3.BoolVal(bool(o)))
    def __hash__(self): return id(self)

def need_fit(*xs):
    for x in xs:
        f = z3.simplify(fits(x))
        if not z3.is_true(f):
            ENG.obligations.append(f)

class SInt(int):
    def __new__(cls, t, fits_=None):
        o = int.__new__(cls, 0)
        o.t = z3.simplify(t)
        o.fits = z3.BoolVal(True) if fits_ is None else z3.simplify(fits_)
        return o
    # ring ops
    def __add__(s, o):
        a, b = term(s), term(o)
        r = a + b
        return SInt(r, z3.And(fits(s), fits(o), z3.BVAddNoOverflow(a, b, True), z3.BVAddNoUnderflow(a, b)))
    __radd__ = __add__
    def __sub__(s, o):
        a, b = term(s), term(o)
        return SInt(a - b, z3.And(fits(s), fits(o), z3.BVSubNoOverflow(a, b), z3.BVSubNoUnderflow(a, b, True)))
    def __rsub__(s, o):
        a, b = term(o), term(s)
        return SInt(a - b, z3.And(fits(s), fits(o), z3.BVSubNoOverflow(a, b), z3.BVSubNoUnderflow(a, b, True)))
    def __mul__(s, o):
        a, b = term(s), term(o)
        return SInt(a * b, z3.And(fits(s), fits(o), z3.BVMulNoOverflow(a, b, True), z3.BVMulNoUnderflow(a, b)))
    __rmul__ = __mul__
    def __neg__(s): return 0 - s
    def __invert__(s): return SInt(~term(s), fits(s))
    def __and__(s, o):
        a, b = term(s), term(o)
        # result fits if either operand fits and is non-negative, or both fit
        f = z3.Or(z3.And(fits(s), fits(o)), z3.And(fits(s), a >= 0), z3.And(fits(o), b >= 0))
        return SInt(a & b, f)
    __rand__ = __and__
    def __or__(s, o): return SInt(term(s) | term(o), z3.And(fits(s), fits(o)))
    __ror__ = __or__
    def __xor__(s, o): return SInt(term(s) ^ term(o), z3.And(fits(s), fits(o)))
    __rxor__ = __xor__
    def _shl(a, k, fa, fk):
        # a << k, k >= 0 required
        r = a << k
        nf = z3.And(fa, fk, z3.ULT(k, W), (r >> k) == a)
        return SInt(r, nf)
    def __lshift__(s, o):
        need_fit(o)
        if ENG.branch(term(o) < 0): raise ValueError("negative shift count")
        return SInt._shl(term(s), term(o), fits(s), fits(o))
    def __rlshift__(s, o):
        need_fit(s)
        if ENG.branch(term(s) < 0): raise ValueError("negative shift count")
        return SInt._shl(term(o), term(s), fits(o), fits(s))
    def __rshift__(s, o):
        need_fit(s, o)
        if ENG.branch(term(o) < 0): raise ValueError("negative shift count")
        k = term(o)
        return SInt(z3.If(z3.UGE(k, W), z3.If(term(s) < 0, z3.BitVecVal(-1, W), z3.BitVecVal(0, W)), term(s) >> k))
    def __rrshift__(s, o):
        need_fit(s, o)
        if ENG.branch(term(s) < 0): raise ValueError("negative shift count")
        k = term(s); a = term(o)
        return SInt(z3.If(z3.UGE(k, W), z3.If(a < 0, z3.BitVecVal(-1, W), z3.BitVecVal(0, W)), a >> k))
    def _divmod(a, b):
        # python floor semantics; b != 0 assumed
        q = a / b  # bvsdiv truncating
        r = z3.SRem(a, b)
        adj = z3.And(r != 0, (r < 0) != (b < 0))
        return z3.If(adj, q - 1, q), z3.If(adj, r + b, r)
    def __floordiv__(s, o):
        need_fit(s, o)
        if ENG.branch(term(o) == 0): raise ZeroDivisionError
        return SInt(SInt._divmod(term(s), term(o))[0])
    def __rfloordiv__(s, o):
        need_fit(s, o)
        if ENG.branch(term(s) == 0): raise ZeroDivisionError
        return SInt(SInt._divmod(term(o), term(s))[0])
    def __mod__(s, o):
        need_fit(s, o)
        if ENG.branch(term(o) == 0): raise ZeroDivisionError
        return SInt(SInt._divmod(term(s), term(o))[1])
    def __rmod__(s, o):
        need_fit(s, o)
        if ENG.branch(term(s) == 0): raise ZeroDivisionError
        return SInt(SInt._divmod(term(o), term(s))[1])
    def _cmp(s, o, f):
        if not isinstance(o, int): return NotImplemented
        need_fit(s, o)
        return ENG.branch(f(term(s), term(o)))
    def __eq__(s, o): return s._cmp(o, lambda a, b: a == b)
    def __ne__(s, o): return s._cmp(o, lambda a, b: a != b)
    def __lt__(s, o): return s._cmp(o, lambda a, b: a < b)
    def __le__(s, o): return s._cmp(o, lambda a, b: a <= b)
    def __gt__(s, o): return s._cmp(o, lambda a, b: a > b)
    def __ge__(s, o): return s._cmp(o, lambda a, b: a >= b)
    def __bool__(s):
        need_fit(s)
        return ENG.branch(term(s) != 0)
    def __hash__(s): return id(s)
    def __repr__(s): return f"SInt({s.t})"
    __str__ = __repr__
    def __index__(s): raise RuntimeError("concretisation of SInt via __index__")
    def __int__(s): return s
    def __abs__(s):
        need_fit(s)
        return SInt(z3.If(term(s) < 0, -term(s), term(s)))

def explore(fn, max_paths=100000):
    """Yields (pc, obligations, result|exception) per path."""
    stack = [[]]
    n = 0
    while stack:
        prefix = stack.pop()
        ENG.reset(prefix)
        try:
            res = ("ok", fn())
        except PathAbort:
            continue
        except Exception as e:
            res = ("exc", e)
        n += 1
        # schedule alternatives for decisions made beyond prefix
        for i in range(len(prefix), len(ENG.decisions)):
            alt = ENG.decisions[:i] + [False]
            stack.append(alt)
        yield list(ENG.pc), list(ENG.obligations), res
        if n >= max_paths: raise RuntimeError("too many paths")
SInt.__name__ = "int"
