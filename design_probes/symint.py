"""Prototype: symbolic ints (int subclass) over z3 bit-vectors, fork-by-replay."""
import z3, itertools

W = 64  # model width

class PathAbort(BaseException): pass

class Engine:
    """Fork-by-replay with one incremental solver: PC entries are frames on a push/pop stack (trie walk)."""
    def __init__(self):
        self.solver = z3.Solver()
        self.frames = []      # formulas currently pushed
        self.decisions = []
        self.pos = 0
        self.pc = []
        self.obligations = []
        self.model = None
        self.nchecks = 0
    def reset(self, prefix):
        self.decisions = list(prefix); self.pos = 0; self.pc = []; self.obligations = []
    def _sync(self, f):
        """make frame len(self.pc) equal to f"""
        i = len(self.pc)
        if i < len(self.frames) and self.frames[i].eq(f):
            pass
        else:
            while len(self.frames) > i:
                self.solver.pop(); self.frames.pop()
            self.solver.push(); self.solver.add(f); self.frames.append(f)
            self.model = None
        self.pc.append(f)
    def _trim(self):
        while len(self.frames) > len(self.pc):
            self.solver.pop(); self.frames.pop(); self.model = None
    def assume(self, f):
        self._sync(f)
    def _check(self, extra=None):
        self._trim()
        self.nchecks += 1
        r = self.solver.check(extra) if extra is not None else self.solver.check()
        if r == z3.unknown: raise RuntimeError("solver unknown")
        return r == z3.sat
    def concretize(self, t):
        """fork over the feasible concrete values of bit-vector term t (signed reading); returns a Python int.
        Candidate values are recorded in the decision list so that replays are deterministic."""
        t = z3.simplify(t)
        while True:
            if z3.is_bv_value(t):
                return t.as_signed_long()
            if self.pos < len(self.decisions):
                kind, v, d = self.decisions[self.pos]; self.pos += 1
                assert kind in ("c", "cf"), kind
                vv = z3.BitVecVal(v, t.size())
                self.assume(t == vv if d else t != vv)
                if d:
                    return vv.as_signed_long()
                continue
            self._trim()
            if not self._check():
                raise PathAbort("infeasible")
            m = self.solver.model(); self.model = m
            vv = m.eval(t, model_completion=True)
            if self._check(t != vv):
                self.decisions.append(("c", vv.as_long(), True)); self.pos += 1
                self.assume(t == vv)
            else:
                self.decisions.append(("cf", vv.as_long(), True)); self.pos += 1
                self.assume(t == vv)
            return vv.as_signed_long()

    def branch(self, cond):
        cond = z3.simplify(cond)
        if z3.is_true(cond): return True
        if z3.is_false(cond): return False
        if self.pos < len(self.decisions):
            kind, _, d = self.decisions[self.pos]; self.pos += 1
            assert kind in ("b", "bf"), kind
            self.assume(cond if d else z3.Not(cond))
            return d
        self._trim()
        # use cached model to know one feasible side for free
        side = None
        if self.model is not None:
            v = self.model.eval(cond, model_completion=True)
            if z3.is_true(v): side = True
            elif z3.is_false(v): side = False
        if side is None:
            if self._check():
                self.model = self.solver.model()
                v = self.model.eval(cond, model_completion=True)
                side = bool(z3.is_true(v))
            else:
                raise PathAbort("infeasible")
        other = z3.Not(cond) if side else cond
        if self._check(other):
            # both feasible: take True first
            self.decisions.append(("b", None, True)); self.pos += 1
            self.assume(cond)
            return True
        self.decisions.append(("bf", None, side)); self.pos += 1   # forced: recorded for replay alignment only
        self.assume(cond if side else z3.Not(cond))
        return side

ENG = Engine()


def term(x):
    if isinstance(x, SInt): return x.t
    if isinstance(x, bool): x = int(x)
    if isinstance(x, int): return z3.BitVecVal(x, W)
    raise TypeError(type(x))

def fits(x):
    if isinstance(x, SInt): return x.fits
    return z3.BoolVal(-(1 << (W-1)) <= x < (1 << (W-1)))

class SBool:
    def __init__(self, t): self.t = t
    def __bool__(self): return ENG.branch(self.t)
    def __and__(self, o): return SBool(z3.And(self.t, o.t if isinstance(o, SBool) else z3.BoolVal(bool(o))))
    __rand__ = __and__
    def __or__(self, o): return SBool(z3.Or(self.t, o.t if isinstance(o, SBool) else z3.BoolVal(bool(o))))
    __ror__ = __or__
    def __invert__(self): return SBool(z3.Not(self.t))
    def __eq__(self, o):
        if isinstance(o, SBool): return SBool(self.t == o.t)
        return SBool(self.t == z3.BoolVal(bool(o)))
    def __hash__(self): return id(self)

def need_fit(*xs):
    for x in xs:
        f = z3.simplify(fits(x))
        if not z3.is_true(f):
            ENG.obligations.append(f)

class SInt(int):
    def __new__(cls, t, fits_=None):
        o = int.__new__(cls, 0)
        o.t = z3.simplify(t)
        o.fits = z3.BoolVal(True) if fits_ is None else z3.simplify(fits_)
        return o
    # ring ops
    def __add__(s, o):
        a, b = term(s), term(o)
        r = a + b
        return SInt(r, z3.And(fits(s), fits(o), z3.BVAddNoOverflow(a, b, True), z3.BVAddNoUnderflow(a, b)))
    __radd__ = __add__
    def __sub__(s, o):
        a, b = term(s), term(o)
        return SInt(a - b, z3.And(fits(s), fits(o), z3.BVSubNoOverflow(a, b), z3.BVSubNoUnderflow(a, b, True)))
    def __rsub__(s, o):
        a, b = term(o), term(s)
        return SInt(a - b, z3.And(fits(s), fits(o), z3.BVSubNoOverflow(a, b), z3.BVSubNoUnderflow(a, b, True)))
    def __mul__(s, o):
        a, b = term(s), term(o)
        return SInt(a * b, z3.And(fits(s), fits(o), z3.BVMulNoOverflow(a, b, True), z3.BVMulNoUnderflow(a, b)))
    __rmul__ = __mul__
    def __neg__(s): return 0 - s
    def __invert__(s): return SInt(~term(s), fits(s))
    def __and__(s, o):
        a, b = term(s), term(o)
        # result fits if either operand fits and is non-negative, or both fit
        f = z3.Or(z3.And(fits(s), fits(o)), z3.And(fits(s), a >= 0), z3.And(fits(o), b >= 0))
        return SInt(a & b, f)
    __rand__ = __and__
    def __or__(s, o): return SInt(term(s) | term(o), z3.And(fits(s), fits(o)))
    __ror__ = __or__
    def __xor__(s, o): return SInt(term(s) ^ term(o), z3.And(fits(s), fits(o)))
    __rxor__ = __xor__
    def _shl(a, k, fa, fk):
        # a << k, k >= 0 required
        r = a << k
        nf = z3.And(fa, fk, z3.ULT(k, W), (r >> k) == a)
        return SInt(r, nf)
    def __lshift__(s, o):
        need_fit(o)
        if ENG.branch(term(o) < 0): raise ValueError("negative shift count")
        return SInt._shl(term(s), term(o), fits(s), fits(o))
    def __rlshift__(s, o):
        need_fit(s)
        if ENG.branch(term(s) < 0): raise ValueError("negative shift count")
        return SInt._shl(term(o), term(s), fits(o), fits(s))
    def __rshift__(s, o):
        need_fit(s, o)
        if ENG.branch(term(o) < 0): raise ValueError("negative shift count")
        k = term(o)
        return SInt(z3.If(z3.UGE(k, W), z3.If(term(s) < 0, z3.BitVecVal(-1, W), z3.BitVecVal(0, W)), term(s) >> k))
    def __rrshift__(s, o):
        need_fit(s, o)
        if ENG.branch(term(s) < 0): raise ValueError("negative shift count")
        k = term(s); a = term(o)
        return SInt(z3.If(z3.UGE(k, W), z3.If(a < 0, z3.BitVecVal(-1, W), z3.BitVecVal(0, W)), a >> k))
    def _divmod(a, b):
        # python floor semantics; b != 0 assumed
        q = a / b  # bvsdiv truncating
        r = z3.SRem(a, b)
        adj = z3.And(r != 0, (r < 0) != (b < 0))
        return z3.If(adj, q - 1, q), z3.If(adj, r + b, r)
    def __floordiv__(s, o):
        need_fit(s, o)
        if ENG.branch(term(o) == 0): raise ZeroDivisionError
        return SInt(SInt._divmod(term(s), term(o))[0])
    def __rfloordiv__(s, o):
        need_fit(s, o)
        if ENG.branch(term(s) == 0): raise ZeroDivisionError
        return SInt(SInt._divmod(term(o), term(s))[0])
    def __mod__(s, o):
        need_fit(s, o)
        if ENG.branch(term(o) == 0): raise ZeroDivisionError
        return SInt(SInt._divmod(term(s), term(o))[1])
    def __rmod__(s, o):
        need_fit(s, o)
        if ENG.branch(term(s) == 0): raise ZeroDivisionError
        return SInt(SInt._divmod(term(o), term(s))[1])
    def _cmp(s, o, f):
        if not isinstance(o, int): return NotImplemented
        need_fit(s, o)
        return ENG.branch(f(term(s), term(o)))
    def __eq__(s, o): return s._cmp(o, lambda a, b: a == b)
    def __ne__(s, o): return s._cmp(o, lambda a, b: a != b)
    def __lt__(s, o): return s._cmp(o, lambda a, b: a < b)
    def __le__(s, o): return s._cmp(o, lambda a, b: a <= b)
    def __gt__(s, o): return s._cmp(o, lambda a, b: a > b)
    def __ge__(s, o): return s._cmp(o, lambda a, b: a >= b)
    def __bool__(s):
        need_fit(s)
        return ENG.branch(term(s) != 0)
    def __hash__(s):
        return hash(ENG.concretize(term(s)))
    def __repr__(s): return f"SInt({s.t})"
    __str__ = __repr__
    def __index__(s): raise RuntimeError("concretisation of SInt via __index__")
    def __int__(s): return s
    def __abs__(s):
        need_fit(s)
        return SInt(z3.If(term(s) < 0, -term(s), term(s)))

def explore(fn, max_paths=100000):
    """Yields (pc, obligations, result|exception) per path."""
    stack = [[]]
    n = 0
    while stack:
        prefix = stack.pop()
        ENG.reset(prefix)
        try:
            res = ("ok", fn())
        except PathAbort:
            continue
        except Exception as e:
            res = ("exc", e)
        n += 1
        # schedule alternatives for decisions made beyond prefix
        for i in range(len(prefix), len(ENG.decisions)):
            k, v, d = ENG.decisions[i]
            if k in ("bf", "cf"):
                continue
            alt = ENG.decisions[:i] + [(k, v, False)]
            stack.append(alt)
        yield list(ENG.pc), list(ENG.obligations), res
        if n >= max_paths: raise RuntimeError("too many paths")
SInt.__name__ = "int"
