"""Probe: unbounded-schedule safety of the GC guard via z3 Spacer (CHC), encoding generated from source."""
import ast, inspect, sys, time, itertools
import z3
import claripy.backends.backend_z3 as bz3
from t8 import compile_fn


def ev(e, st):
    if isinstance(e, ast.Constant):
        return z3.BoolVal(e.value) if isinstance(e.value, bool) else z3.IntVal(e.value)
    if isinstance(e, ast.Name):
        return st[e.id]
    if isinstance(e, ast.Compare):
        a, b = ev(e.left, st), ev(e.comparators[0], st)
        op = e.ops[0]
        return {ast.Eq: a == b, ast.NotEq: a != b, ast.Lt: a < b, ast.LtE: a <= b, ast.Gt: a > b, ast.GtE: a >= b}[type(op)]
    if isinstance(e, ast.BinOp):
        a, b = ev(e.left, st), ev(e.right, st)
        return a + b if isinstance(e.op, ast.Add) else a - b
    if isinstance(e, ast.UnaryOp) and isinstance(e.op, ast.Not):
        return z3.Not(ev(e.operand, st))
    if isinstance(e, ast.Call) and ast.unparse(e.func) == "gc.isenabled":
        return st["gc"]
    raise NotImplementedError(ast.dump(e))


def flatten(prog, enter, exit_):
    flat = []; depth = 0; inprog = []
    for ch in prog:
        body = enter if ch == "E" else exit_
        base = len(flat)
        for ins in body:
            ins = list(ins)
            if ins[0] == "if": ins[2] += base
            if ins[0] == "goto": ins[1] += base
            if ins[0] == "ret": ins = ["nop"]
            flat.append(ins); inprog.append(depth > 0)
        depth += 1 if ch == "E" else -1
        flat.append(["zcall"]); inprog.append(depth > 0)
    return flat, inprog


def chc(progs, enter_src=None, exit_src=None, timeout=100000):
    enter = compile_fn(bz3._enter_z3, enter_src)
    exit_ = compile_fn(bz3._exit_z3, exit_src)
    T = range(len(progs))
    flats = [flatten(p, enter, exit_) for p in progs]
    fp = z3.Fixedpoint()
    fp.set(engine="spacer"); fp.set("timeout", timeout)
    names = [f"pc{i}" for i in T] + ["cnt", "was", "gc", "lock", "under", "gc0"]
    sorts = [z3.IntSort()] * len(progs) + [z3.IntSort(), z3.BoolSort(), z3.BoolSort(), z3.IntSort(), z3.BoolSort(), z3.BoolSort()]
    Inv = z3.Function("Inv", *sorts, z3.BoolSort())
    fp.register_relation(Inv)
    cur = [z3.Const(n, s) for n, s in zip(names, sorts)]
    nxt = [z3.Const(n + "_n", s) for n, s in zip(names, sorts)]
    fp.declare_var(*cur, *nxt)
    def S(vs):
        d = {f"pc{i}": vs[i] for i in T}
        k = len(progs)
        d.update({"_active_z3_calls": vs[k], "_gc_was_enabled": vs[k + 1], "gc": vs[k + 2], "lock": vs[k + 3], "under": vs[k + 4], "gc0": vs[k + 5]})
        return d
    c, n = S(cur), S(nxt)
    init = z3.And(*[c[f"pc{i}"] == 0 for i in T], c["_active_z3_calls"] == 0, z3.Not(c["_gc_was_enabled"]), c["gc"] == c["gc0"], c["lock"] == -1, z3.Not(c["under"]))
    fp.rule(Inv(*cur), init)
    for i in T:
        flat, _ = flats[i]
        for pc, ins in enumerate(flat):
            upd = {k: c[k] for k in ("_active_z3_calls", "_gc_was_enabled", "gc", "lock", "under")}
            npc = z3.IntVal(pc + 1); en = z3.BoolVal(True)
            if ins[0] == "acquire": en = c["lock"] == -1; upd["lock"] = z3.IntVal(i)
            elif ins[0] == "release": upd["lock"] = z3.IntVal(-1)
            elif ins[0] == "assign": upd[ins[1]] = ev(ins[2], c)
            elif ins[0] == "if": npc = z3.If(ev(ins[1], c), z3.IntVal(pc + 1), z3.IntVal(ins[2]))
            elif ins[0] == "goto": npc = z3.IntVal(ins[1])
            elif ins[0] == "call":
                if ins[1] == "gc.disable": upd["gc"] = z3.BoolVal(False)
                elif ins[1] == "gc.enable": upd["gc"] = z3.BoolVal(True)
                elif ins[1] == "log.error": upd["under"] = z3.BoolVal(True)
                else: raise NotImplementedError(ins[1])
            body = z3.And(Inv(*cur), c[f"pc{i}"] == pc, en, n[f"pc{i}"] == npc,
                          *[n[f"pc{j}"] == c[f"pc{j}"] for j in T if j != i],
                          *[n[k] == upd[k] for k in upd], n["gc0"] == c["gc0"])
            fp.rule(Inv(*nxt), body)
    inside = z3.Or(*[c[f"pc{i}"] == pc for i in T for pc, ins in enumerate(flats[i][0]) if ins[0] == "zcall" and flats[i][1][pc]])
    alldone = z3.And(*[c[f"pc{i}"] == len(flats[i][0]) for i in T])
    bad = z3.Or(z3.And(inside, c["gc"]), c["_active_z3_calls"] < 0, c["under"], z3.And(alldone, z3.Or(c["gc"] != c["gc0"], c["_active_z3_calls"] != 0)))
    t0 = time.time()
    r = fp.query(z3.And(Inv(*cur), bad))
    return r, time.time() - t0


if __name__ == "__main__":
    nt = int(sys.argv[1]); plist = sys.argv[2].split(",")
    for combo in itertools.combinations_with_replacement(plist, nt):
        r, dt = chc(combo)
        print(f"real source {combo}: {r} ({'safe for every schedule' if r == z3.unsat else r}) {dt:.1f}s", flush=True)
    mut = inspect.getsource(bz3._enter_z3).replace("with _gc_lock:", "if True:")
    r, dt = chc(tuple(plist[:1] * nt), enter_src=mut)
    print(f"mutant no-lock {plist[0]}x{nt}: {r} {dt:.1f}s")
    mut = inspect.getsource(bz3._exit_z3).replace("_gc_was_enabled = False", "pass")
    r, dt = chc(tuple(plist[:1] * nt), exit_src=mut)
    print(f"mutant keep-flag {plist[0]}x{nt}: {r} {dt:.1f}s")
