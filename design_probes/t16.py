"""Probe: replaying a schedule on the REAL _enter_z3/_exit_z3 with a line-level deterministic scheduler.

Real threads run the real functions; sys.settrace 'line' events inside the two functions are the scheduling
points; the module's lock and gc functions are substituted (model GC flag, scheduler-aware lock).
The purpose is (i) to confirm that one SMT event == one Python 'line' event, (ii) to have the replay harness.
"""
import sys, threading, inspect, ast, textwrap
import claripy.backends.backend_z3 as bz3
from t8 import compile_fn

TARGETS = {bz3._enter_z3.__code__, bz3._exit_z3.__code__}


class ModelGC:
    def __init__(self, enabled): self.enabled = enabled
    def isenabled(self): return self.enabled
    def enable(self): self.enabled = True
    def disable(self): self.enabled = False


class Sched:
    def __init__(self, nthreads):
        self.turn = threading.Condition()
        self.current = None          # thread allowed to take one step
        self.waiting = {}            # tid -> description of the line it is about to execute
        self.done = set()
        self.n = nthreads
        self.lock_owner = None
        self.log = []

    # called in worker threads at every traced line: block until granted
    def at_line(self, tid, desc):
        with self.turn:
            self.waiting[tid] = desc
            self.turn.notify_all()
            self.turn.wait_for(lambda: self.current == tid)
            self.current = None
            del self.waiting[tid]

    def finish(self, tid):
        with self.turn:
            self.done.add(tid); self.turn.notify_all()

    # called by the driver: let thread tid execute exactly one line
    def step(self, tid):
        with self.turn:
            self.turn.wait_for(lambda: tid in self.waiting or tid in self.done)
            if tid in self.done: return None
            desc = self.waiting[tid]
            self.current = tid; self.turn.notify_all()
            # wait until it reaches its next line (or finishes, or blocks on the lock)
            self.turn.wait_for(lambda: self.current is None and (tid in self.waiting or tid in self.done))
            return desc


class SchedLock:
    """Lock whose acquisition is a scheduling point handled by the driver: acquiring when taken is a harness error
    (the driver must not schedule a blocked thread)."""
    def __init__(self, sched): self.s = sched; self.owner = None
    def __enter__(self):
        tid = threading.current_thread().name
        assert self.owner is None, f"scheduled blocked thread {tid}"
        self.owner = tid
    def __exit__(self, *a): self.owner = None


def run_schedule(words, schedule, gc0=True):
    """words: per-thread call word, e.g. ['EX','EX']; schedule: list of thread ids, one per line step."""
    sched = Sched(len(words)); mgc = ModelGC(gc0); lock = SchedLock(sched)
    saved = (bz3._gc_lock, bz3.gc)
    bz3._gc_lock = lock; bz3.gc = mgc
    bz3._active_z3_calls = 0; bz3._gc_was_enabled = False
    obs = []   # (tid, gc state) observed at each point where a wrapped call would run

    def worker(tid, word):
        def tracer(frame, event, arg):
            if frame.f_code not in TARGETS: return None
            def local(frame, event, arg):
                if event == "line":
                    sched.at_line(tid, f"{frame.f_code.co_name}:{frame.f_lineno - frame.f_code.co_firstlineno}")
                return local
            return local
        sys.settrace(tracer)
        try:
            depth = 0
            for ch in word:
                if ch == "E": bz3._enter_z3(); depth += 1
                else: bz3._exit_z3(); depth -= 1
                sched.at_line(tid, f"zcall(depth={depth})")      # the observer point between calls
                if depth > 0: obs.append((tid, mgc.enabled))
        finally:
            sys.settrace(None); sched.finish(tid)

    ths = [threading.Thread(target=worker, args=(str(i), w), name=str(i)) for i, w in enumerate(words)]
    for t in ths: t.start()
    trace = []
    for tid in schedule:
        d = sched.step(str(tid))
        trace.append((tid, d))
    # drain
    while len(sched.done) < len(words):
        for i in range(len(words)):
            if str(i) not in sched.done:
                trace.append((i, sched.step(str(i))))
    for t in ths: t.join(5)
    bz3._gc_lock, bz3.gc = saved
    return trace, obs, mgc.enabled, bz3._active_z3_calls


if __name__ == "__main__":
    # (i) event granularity: lines seen for one thread running E then X, vs the SMT translator's instruction list
    trace, obs, gcf, cnt = run_schedule(["EX"], [], gc0=True)
    print("python line events:", [d for _, d in trace])
    print("translator (enter):", [i[0] for i in compile_fn(bz3._enter_z3)])
    print("translator (exit): ", [i[0] for i in compile_fn(bz3._exit_z3)])
    print("obs", obs, "final gc", gcf, "count", cnt)
    # (ii) an interleaving of two threads
    trace, obs, gcf, cnt = run_schedule(["EX", "EX"], [0, 0, 0, 0, 0, 0, 1, 1, 1, 1, 1, 1, 0, 1], gc0=True)
    print("2 threads: obs", obs, "final gc", gcf, "count", cnt, "steps", len(trace))
