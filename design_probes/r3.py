import claripy
a = claripy.SI(name="v", bits=8, lower_bound=-1, upper_bound=5, stride=1, explicit_name=True)
b = claripy.SI(name="v", bits=8, lower_bound=-2, upper_bound=5, stride=1, explicit_name=True)
print("same object:", a is b, a.annotations, b.annotations)
P = 2**61 - 1
c = claripy.SI(name="w", bits=64, lower_bound=3, upper_bound=5 + 10, stride=1, explicit_name=True)
d = claripy.SI(name="w", bits=64, lower_bound=3 + P, upper_bound=5 + 10, stride=1, explicit_name=True)
print("same object:", c is d, c.annotations, d.annotations, hash(3) == hash(3 + P))
