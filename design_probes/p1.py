from claripy.backends.backend_concrete import bv

def ref_sdiv(a: int, b: int, n: int) -> int:
    m = 1 << n
    sa = a - m if a >= m // 2 else a
    sb = b - m if b >= m // 2 else b
    q = abs(sa) // abs(sb)
    if (sa < 0) != (sb < 0):
        q = -q
    return q % m

def check_sdiv(a: int, b: int) -> bool:
    """
    pre: 0 <= a < 256 and 0 < b < 256
    post: _
    """
    r = bv.SDiv(bv.BVV(a, 8), bv.BVV(b, 8))
    return r.value == ref_sdiv(a, b, 8)

def check_and(a: int, b: int) -> bool:
    """
    pre: 0 <= a < 256 and 0 <= b < 256
    post: _
    """
    r = bv.BVV(a, 8) & bv.BVV(b, 8)
    return r.value <= a

def check_shl(a: int, b: int) -> bool:
    """
    pre: 0 <= a < 256 and 0 <= b < 256
    post: _
    """
    r = bv.BVV(a, 8) << bv.BVV(b, 8)
    return r.value == ((a << b) % 256 if b < 8 else 0)
