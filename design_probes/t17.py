"""Probe C09: Z3 round trip (simplify) equivalence + op_map validation."""
import z3, claripy, time, traceback
from claripy.backends import backend_z3 as bz3
B = claripy.backends.z3
n = 8
x, y = claripy.BVS("x", n, explicit_name=True), claripy.BVS("y", n, explicit_name=True)
b = claripy.BoolS("b", explicit_name=True)
f = claripy.FPS("f", claripy.FSORT_DOUBLE, explicit_name=True)
shapes = {
 "x+y*3": x + y * 3, "x sdiv y": claripy.SDiv(x, y), "x smod y": claripy.SMod(x, y), "x udiv y": x // y, "x urem y": x % y,
 "x>>y": x >> y, "LShR": claripy.LShR(x, y), "rol": claripy.RotateLeft(x, y), "ror": claripy.RotateRight(x, claripy.BVV(3, n)),
 "If": claripy.If(b, x, y) + 1, "ext": claripy.ZeroExt(8, x)[11:4], "sext": claripy.SignExt(8, x) + 1,
 "cmp": claripy.And(claripy.SLT(x, y), claripy.ULE(x, 5), x != y), "concat": claripy.Concat(x, y)[11:2],
 "fpIsNaN": claripy.fpIsNaN(f), "fpIsInf": claripy.fpIsInf(f), "fpLT": claripy.fpLT(f, claripy.FPV(1.5, claripy.FSORT_DOUBLE)),
 "fpAdd": claripy.fpEQ(claripy.fpAdd(claripy.fp.RM.RM_TowardsZero, f, f), f), "fpToIEEEBV": claripy.fpToIEEEBV(f)[63:63] == 1,
 "neg": -x, "not": ~x, "xor3": x ^ y ^ 5, "reverse16": claripy.Concat(x, y).reversed,
}
for name, e in shapes.items():
    t0 = time.time()
    try:
        s = claripy.simplify(e)
        a, c = B.convert(e), B.convert(s)
        sol = z3.Solver(); sol.set("timeout", 20000); sol.add(a != c)
        r = sol.check()
        print(f"simplify {name:12s}: {'EQUIV' if r == z3.unsat else ('CEX ' + str(sol.model()) if r == z3.sat else 'UNKNOWN')}  -> {s}"[:170])
    except Exception as ex:
        print(f"simplify {name:12s}: RAISES {type(ex).__name__}: {ex}"[:170])
# op_map validation: build a z3 app of each kind directly and abstract it
zx, zy = z3.BitVec("x", n), z3.BitVec("y", n)
cands = {"bvsmod": zx % zy if False else z3.BitVecRef(z3.Z3_mk_bvsmod(zx.ctx_ref(), zx.as_ast(), zy.as_ast()), zx.ctx),
         "bvsrem": z3.SRem(zx, zy), "bvsdiv": zx / zy, "bvudiv": z3.UDiv(zx, zy), "bvurem": z3.URem(zx, zy),
         "bvashr": zx >> zy, "bvlshr": z3.LShR(zx, zy), "bvshl": zx << zy, "ext_rotl": z3.RotateLeft(zx, zy), "ext_rotr": z3.RotateRight(zx, zy),
         "rotl_const": z3.RotateLeft(zx, 3), "bvneg": -zx, "bvnot": ~zx, "distinct": z3.Distinct(zx, zy), "xor_bool": z3.Xor(zx == 1, zy == 1),
         "bvcomp?": z3.BitVecRef(z3.Z3_mk_bvredor(zx.ctx_ref(), zx.as_ast()), zx.ctx), "repeat": z3.RepeatBitVec(2, zx), "implies": z3.Implies(zx == 1, zy == 1),
         "sle": zx <= zy, "ule": z3.ULE(zx, zy), "ite_bool": z3.If(zx == 1, zy == 1, zy == 2), "bvnand": z3.BitVecRef(z3.Z3_mk_bvnand(zx.ctx_ref(), zx.as_ast(), zy.as_ast()), zx.ctx)}
for name, t in cands.items():
    try:
        a = B._abstract(t)
        back = B.convert(a)
        sol = z3.Solver(); sol.set("timeout", 20000); sol.add(back != t)
        r = sol.check()
        print(f"abstract {name:11s}: {'EQUIV' if r == z3.unsat else ('CEX ' + str(sol.model()) if r == z3.sat else 'UNKNOWN')} -> {a}"[:170])
    except Exception as ex:
        print(f"abstract {name:11s}: RAISES {type(ex).__name__}: {ex}"[:170])
