"""Probe C03 leg 3 / C26: Z3 string translation of claripy ops vs reference terms; string model extraction."""
import z3, claripy, time
B = claripy.backends.z3
s = claripy.StringS("s", explicit_name=True); t = claripy.StringS("t", explicit_name=True)
i = claripy.BVS("i", 64, explicit_name=True)
zs, zt, zi = z3.String("s"), z3.String("t"), z3.BitVec("i", 64)
cases = {
 "concat": (claripy.StrConcat(s, t), z3.Concat(zs, zt)),
 "len": (claripy.StrLen(s), z3.Int2BV(z3.Length(zs), 64)),
 "contains": (claripy.StrContains(s, t), z3.Contains(zs, zt)),
 "prefix": (claripy.StrPrefixOf(t, s), z3.PrefixOf(zt, zs)),
 "suffix": (claripy.StrSuffixOf(t, s), z3.SuffixOf(zt, zs)),
 "indexof": (claripy.StrIndexOf(s, t, i), z3.Int2BV(z3.IndexOf(zs, zt, z3.BV2Int(zi)), 64)),
 "substr": (claripy.StrSubstr(i, claripy.BVV(2, 64), s), z3.SubString(zs, z3.BV2Int(zi), z3.IntVal(2))),
 "replace": (claripy.StrReplace(s, t, claripy.StringV("z")), z3.Replace(zs, zt, z3.StringVal("z"))),
 "toint": (claripy.StrToInt(s), z3.Int2BV(z3.StrToInt(zs), 64)),
 "fromint": (claripy.IntToStr(i), z3.IntToStr(z3.BV2Int(zi))),
}
for name, (e, ref) in cases.items():
    t0 = time.time()
    try:
        c = B.convert(e)
        sol = z3.Solver(); sol.set("timeout", 20000)
        sol.add(z3.Length(zs) <= 3, z3.Length(zt) <= 2, z3.ULE(zi, 5))
        sol.add(c != ref)
        r = sol.check()
        print(f"{name:9s} {r} {time.time()-t0:.1f}s {'(identical terms)' if c.eq(ref) else ''}")
    except Exception as ex:
        print(f"{name:9s} RAISES {type(ex).__name__}: {ex}"[:160])
# C26: model extraction of special strings
for val in ["\x00z", "a\\b", "\U0001F600", "\\u{48}", "é"]:
    sv = claripy.Solver()
    sv.add(s == claripy.StringV(val))
    try:
        got = sv.eval(s, 1)[0]
        print(f"StringV({val!r:12}) -> eval gives {got!r:14} equal={got == val}")
    except Exception as ex:
        print(f"StringV({val!r}) RAISES {type(ex).__name__}: {ex}"[:160])
