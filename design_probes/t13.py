"""Probe: real BackendZ3._batch_eval against a symbolic feasible set, with a symbolic fault position (C11/C17)."""
import time, sys, z3
import symint
from symint import explore, ENG, SInt
symint.W = 16
import claripy
import claripy.backends.backend_z3 as bz3
from claripy.errors import ClaripySolverInterruptError

N = int(sys.argv[1]) if len(sys.argv) > 1 else 2
D = 1 << N
S = z3.BitVec("S", D)            # feasible set of e
e = z3.BitVec("e", N)
FAULT = z3.BitVec("fault", 8)    # index of the check call that times out (255 = never)


def mask_of(constraints):
    m = 0
    f = z3.And(*constraints) if constraints else z3.BoolVal(True)
    for v in range(D):
        if z3.is_true(z3.simplify(z3.substitute(f, (e, z3.BitVecVal(v, N))))):
            m |= 1 << v
    return z3.BitVecVal(m, D)


class FakeModel:
    def __init__(self, v): self.v = v
    def eval(self, expr, model_completion=False): return z3.BitVecVal(self.v, N)


class FakeSolver:
    def __init__(self): self.stack = [[]]; self.calls = 0; self.last = None
    def push(self): self.stack.append([])
    def pop(self): self.stack.pop()
    def add(self, *c): self.stack[-1].extend(c)
    def assertions(self): return [c for fr in self.stack for c in fr]
    def model(self): return FakeModel(self.last)


def oracle(solver, extra_constraints, occasion):
    idx = solver.calls; solver.calls += 1
    if ENG.branch(FAULT == idx):
        raise ClaripySolverInterruptError("timeout")
    allowed = S & mask_of(solver.assertions() + list(extra_constraints))
    if not ENG.branch(allowed != 0):
        return False
    # the model Z3 returns: any allowed value (forked)
    sk = z3.BitVec(f"mv{idx}", N)
    ENG.assume(z3.Extract(0, 0, z3.LShR(allowed, z3.ZeroExt(D - N, sk))) == 1)
    solver.last = ENG.concretize(sk) % D
    return True


bz3.z3_solver_sat = oracle
popcount = lambda bv: sum([z3.ZeroExt(7, z3.Extract(i, i, bv)) for i in range(D)])

for n in (1, 2, 3):
    t0 = time.time(); paths = 0; bad = None; faults = 0
    def run():
        fs = FakeSolver()
        try:
            r = claripy.backends.z3._batch_eval([e], n, (), fs, None)
            return ("ok", r, fs)
        except ClaripySolverInterruptError:
            return ("fault", None, fs)
    for pc, obl, (kind, r) in explore(run, max_paths=100000):
        paths += 1
        s = z3.Solver(); s.add(*pc)
        if kind == "exc":
            bad = ("EXC", repr(r)); break
        tag, res, fs = r
        if tag == "fault":
            faults += 1
            if fs.stack != [[]]:
                if s.check() == z3.sat:
                    m = s.model(); bad = ("solver not restored after fault", [str(c) for c in fs.assertions()], "depth", len(fs.stack), "fault@", m.eval(FAULT), "S=", bin(m.eval(S, model_completion=True).as_long())); break
            continue
        vals = [v[0] for v in res]
        ok = z3.And(*[z3.Extract(v, v, S) == 1 for v in vals], z3.BoolVal(len(set(vals)) == len(vals)),
                    (popcount(S) == len(vals)) if len(vals) < n else z3.BoolVal(True), z3.BoolVal(fs.stack == [[]]))
        s.add(z3.Not(ok))
        if s.check() == z3.sat:
            bad = (vals, s.model()); break
    print(f"_batch_eval n={n} N={N}: paths={paths} faulted={faults} {'HOLDS' if bad is None else 'CEX ' + str(bad)} {time.time()-t0:.1f}s", flush=True)
