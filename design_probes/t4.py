import z3, symint, time, sys, traceback
from symint import SInt, SBool, explore, ENG
symint.W = 16
W = 16
import claripy
from claripy.backends.backend_vsa.strided_interval import StridedInterval as SI
import claripy.backends.backend_vsa.strided_interval as simod
from claripy.backends.backend_vsa.bool_result import BoolResult, TrueResult, FalseResult, MaybeResult

SInt.__format__ = lambda s, spec: "sym"
# shim math in module under test
class MathShim:
    @staticmethod
    def gcd(*args):
        # Euclid on symbolic ints (forks); variadic like math.gcd
        from functools import reduce
        def g2(a, b):
            a = abs(a); b = abs(b)
            while b != 0:
                a, b = b, a % b
            return a
        return reduce(g2, args, 0)
    @staticmethod
    def log2(v): raise RuntimeError("log2 concretise")
    def __getattr__(self, k):
        import math; return getattr(math, k)
simod.math = MathShim()

def member(z, s, lb, ub, n):
    # z in gamma(SI[s,lb,ub]) over n bits; all z3 BV(n)
    d = z - lb
    span = ub - lb
    return z3.And(z3.ULE(d, span), z3.If(s == 0, d == 0, z3.URem(d, s) == 0))

def wellformed(s, lb, ub, n):
    span = ub - lb
    return z3.If(lb == ub, z3.BoolVal(True), z3.And(s != 0, z3.URem(span, s) == 0))

def mk(prefix, n):
    return [z3.BitVec(f"{prefix}_{k}", n) for k in ("s", "lb", "ub")]

def lift(t, n): return SInt(z3.ZeroExt(W - n, t))
def low(v, n): return z3.Extract(n - 1, 0, symint.term(v)) if isinstance(v, int) else None

def check_bin(name, n, impl, ref, maxpaths=20000):
    A = mk("a", n); B = mk("b", n)
    x = z3.BitVec("x", n); y = z3.BitVec("y", n)
    pre = z3.And(wellformed(*A, n), wellformed(*B, n), member(x, *A, n), member(y, *B, n))
    def run():
        ENG.assume(pre)
        a = SI(bits=n, stride=lift(A[0], n), lower_bound=lift(A[1], n), upper_bound=lift(A[2], n))
        b = SI(bits=n, stride=lift(B[0], n), lower_bound=lift(B[1], n), upper_bound=lift(B[2], n))
        return impl(a, b)
    t0 = time.time(); paths = 0; bad = None; excs = {}
    try:
      for pc, obl, (kind, r) in explore(run, max_paths=maxpaths):
        paths += 1
        s = z3.Solver(); s.add(*pc); s.add(pre)
        if kind == "exc":
            k = type(r).__name__ + ":" + str(r)[:50]
            excs[k] = excs.get(k, 0) + 1
            continue
        z = ref(x, y)
        if isinstance(r, SI):
            if r.is_empty:
                cond = z3.BoolVal(True)  # nothing contained
            else:
                cond = z3.Not(member(z, low(r.stride, n), low(r.lower_bound, n), low(r.upper_bound, n), n))
        else:
            # BoolResult
            if r.identical(TrueResult()): cond = z3.Not(z)
            elif r.identical(FalseResult()): cond = z
            else: cond = z3.BoolVal(False)
        s.add(cond)
        if s.check() == z3.sat:
            m = s.model(); bad = (r, {str(d): m[d] for d in m.decls()}); break
    except RuntimeError as e:
        bad = ("ABORT", str(e))
    print(f"{name:8s} n={n} paths={paths:5d} excs={excs} {'SOUND' if bad is None else 'CEX '+str(bad)}  {time.time()-t0:.1f}s", flush=True)

n = int(sys.argv[1]) if len(sys.argv) > 1 else 4
which = sys.argv[2].split(",") if len(sys.argv) > 2 else None
tests = [
 ("add", lambda a, b: a.add(b), lambda x, y: x + y),
 ("sub", lambda a, b: a.sub(b), lambda x, y: x - y),
 ("ULT", lambda a, b: a.ULT(b), lambda x, y: z3.ULT(x, y)),
 ("SLT", lambda a, b: a.SLT(b), lambda x, y: x < y),
 ("and", lambda a, b: a.bitwise_and(b), lambda x, y: x & y),
 ("or", lambda a, b: a.bitwise_or(b), lambda x, y: x | y),
 ("union", lambda a, b: a.union(b), lambda x, y: x),
 ("isect", lambda a, b: a.intersection(b), lambda x, y: x),
 ("mul", lambda a, b: a.mul(b), lambda x, y: x * y),
 ("xor", lambda a, b: a.bitwise_xor(b), lambda x, y: x ^ y),
 ("lshr", lambda a, b: a.rshift_logical(b), lambda x, y: z3.LShR(x, y)),
]
for nm, impl, ref in tests:
    if which and nm not in which: continue
    check_bin(nm, n, impl, ref)
