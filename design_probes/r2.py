from claripy.backends.backend_vsa.strided_interval import StridedInterval as SI
a = SI(bits=4, stride=0, lower_bound=8, upper_bound=8)
b = SI(bits=4, stride=3, lower_bound=9, upper_bound=8)
print("a", a, "b", b, "b members", b.eval(20))
r = a.SLT(b)
print("SLT ->", r.value, " but 8 <s 8 is False and 8 in b:", 8 in b.eval(20))
import claripy
x = claripy.BVS("x", 8)
print(((x << 255) << 1), claripy.BVV(1,8) / claripy.BVV(3,8))
