import z3, symint, claripy, traceback, time, itertools
from symint import SInt, SBool, explore, ENG
W = symint.W
import symclaripy
from symclaripy import BVV, KNOWN
symclaripy.install()
_mk = symclaripy.mk

def check(name, n, build, ref, nconst=2, bools=0):
    cs = [z3.BitVec(f"c{i}", n) for i in range(nconst)]
    x = claripy.BVS("x", n, explicit_name=True); y = claripy.BVS("y", n, explicit_name=True)
    b = claripy.BoolS("b", explicit_name=True)
    zx, zy, zb = z3.BitVec("x", n), z3.BitVec("y", n), z3.Bool("b")
    def run():
        symclaripy.reset_caches()
        C = [BVV(_mk(c, n), n) for c in cs]
        return build(x, y, b, *C)
    t0 = time.time(); paths = 0; bad = None; incon = 0; excs = 0
    for pc, obl, (kind, r) in explore(run):
        paths += 1
        s = z3.Solver(); s.add(*pc)
        if kind == "exc":
            excs += 1
            bad = ("EXC", type(r).__name__, str(r)[:80], s.model() if s.check()==z3.sat else None); break
        got = claripy.backends.z3.convert(r)
        want = ref(zx, zy, zb, *cs)
        s.add(got != want)
        if s.check() == z3.sat:
            bad = (r, s.model()); break
    print(f"{name:28s} n={n:2d} paths={paths:3d} {'OK' if bad is None else 'CEX '+str(bad)}  {time.time()-t0:.2f}s")

for n in (8, 64):
    check("(x-c1)+c2", n, lambda x,y,b,c1,c2: (x - c1) + c2, lambda x,y,b,c1,c2: (x - c1) + c2)
    check("(x+c1)-c2", n, lambda x,y,b,c1,c2: (x + c1) - c2, lambda x,y,b,c1,c2: (x + c1) - c2)
    check("(x<<c1)<<c2", n, lambda x,y,b,c1,c2: (x << c1) << c2, lambda x,y,b,c1,c2: (x << c1) << c2)
    check("((y&c1)^c2)==0", n, lambda x,y,b,c1,c2: ((y & c1) ^ c2) == 0, lambda x,y,b,c1,c2: ((y & c1) ^ c2) == 0)
    check("~If(b,c1,c2)", n, lambda x,y,b,c1,c2: ~claripy.If(b, c1, c2), lambda x,y,b,c1,c2: ~z3.If(b, c1, c2))
    check("(x&c1)==c2", n, lambda x,y,b,c1,c2: (x & c1) == c2, lambda x,y,b,c1,c2: (x & c1) == c2)
    check("x^c1^x", n, lambda x,y,b,c1,c2: (x ^ c1) ^ x, lambda x,y,b,c1,c2: c1)
    check("ZeroExt==c", n, lambda x,y,b,c1,c2: claripy.ZeroExt(n, x) == claripy.Concat(c1, c2), lambda x,y,b,c1,c2: z3.ZeroExt(n, x) == z3.Concat(c1, c2))
    check("LShR(x,c1)", n, lambda x,y,b,c1,c2: claripy.LShR(claripy.ZeroExt(n, x), claripy.Concat(c1,c2)), lambda x,y,b,c1,c2: z3.LShR(z3.ZeroExt(n, x), z3.Concat(c1,c2)))
    pass
