import z3, symint, claripy, traceback, time, itertools, weakref
from symint import SInt, SBool, explore, W, ENG
import claripy.ast.bv as cbv

# --- unique serialisation for symbolic constants
_uid = itertools.count(1)
def _mk(t, n):
    s = SInt(z3.ZeroExt(W - n, t))
    s.uid = next(_uid)
    return s
SInt.bit_length = lambda s: 200
def _to_bytes(s, length=1, byteorder="big", *, signed=False):
    uid = getattr(s, "uid", None)
    if uid is None:
        s.uid = uid = next(_uid)
    return b"\xfeSYM" + uid.to_bytes(8, "little") + b"\xfe"
SInt.to_bytes = _to_bytes

# --- BVV wrapper: keep hash-consing faithful: fork on equality with every known constant of same size
_orig_BVV = cbv.BVV
KNOWN = {}   # size -> list of (value (int or SInt), node)
def BVV(value, size=None, **kwargs):
    if kwargs or value is None or not isinstance(value, int) or size is None:
        return _orig_BVV(value, size, **kwargs)
    lst = KNOWN.setdefault(size, [])
    mask = (1 << size) - 1
    if isinstance(value, SInt):
        value = value & mask
        t = z3.simplify(symint.term(value))
        if z3.is_bv_value(t):
            value = t.as_long()
    else:
        value &= mask
    for kv, node in lst:
        if isinstance(kv, SInt) or isinstance(value, SInt):
            if kv is value or (kv == value):   # SBool -> fork
                return node
        elif kv == value:
            return node
    node = _orig_BVV(value, size)
    lst.append((value, node))
    return node
for mod in (cbv, claripy, claripy.ast, ):
    if hasattr(mod, "BVV"): mod.BVV = BVV
import claripy.frontend.frontend, claripy.backends.backend_concrete.backend_concrete as bcc
# --- z3 leaf conversion for symbolic constants
_orig_z3_BVV = claripy.backends.z3._op_expr["BVV"]
def z3_BVV(ast):
    v = ast.args[0]
    if isinstance(v, SInt):
        return z3.Extract(ast.args[1] - 1, 0, symint.term(v))
    return _orig_z3_BVV(ast)
claripy.backends.z3._op_expr["BVV"] = z3_BVV
claripy.backends.z3._cache_objects = False

def check(name, n, build, ref, nconst=2, bools=0):
    cs = [z3.BitVec(f"c{i}", n) for i in range(nconst)]
    x = claripy.BVS("x", n, explicit_name=True); y = claripy.BVS("y", n, explicit_name=True)
    b = claripy.BoolS("b", explicit_name=True)
    zx, zy, zb = z3.BitVec("x", n), z3.BitVec("y", n), z3.Bool("b")
    def run():
        KNOWN.clear()
        C = [BVV(_mk(c, n), n) for c in cs]
        return build(x, y, b, *C)
    t0 = time.time(); paths = 0; bad = None; incon = 0; excs = 0
    for pc, obl, (kind, r) in explore(run):
        paths += 1
        s = z3.Solver(); s.add(*pc)
        if kind == "exc":
            excs += 1
            bad = ("EXC", type(r).__name__, str(r)[:80], s.model() if s.check()==z3.sat else None); break
        got = claripy.backends.z3.convert(r)
        want = ref(zx, zy, zb, *cs)
        s.add(got != want)
        if s.check() == z3.sat:
            bad = (r, s.model()); break
    print(f"{name:28s} n={n:2d} paths={paths:3d} {'OK' if bad is None else 'CEX '+str(bad)}  {time.time()-t0:.2f}s")

for n in (8, 32, 64):
    check("(x-c1)+c2", n, lambda x,y,b,c1,c2: (x - c1) + c2, lambda x,y,b,c1,c2: (x - c1) + c2)
    check("(x+c1)-c2", n, lambda x,y,b,c1,c2: (x + c1) - c2, lambda x,y,b,c1,c2: (x + c1) - c2)
    check("(x<<c1)<<c2", n, lambda x,y,b,c1,c2: (x << c1) << c2, lambda x,y,b,c1,c2: (x << c1) << c2)
    check("((y&c1)^c2)==0", n, lambda x,y,b,c1,c2: ((y & c1) ^ c2) == 0, lambda x,y,b,c1,c2: ((y & c1) ^ c2) == 0)
    check("~If(b,c1,c2)", n, lambda x,y,b,c1,c2: ~claripy.If(b, c1, c2), lambda x,y,b,c1,c2: ~z3.If(b, c1, c2))
    check("(x&c1)==c2", n, lambda x,y,b,c1,c2: (x & c1) == c2, lambda x,y,b,c1,c2: (x & c1) == c2)
    check("x^c1^x", n, lambda x,y,b,c1,c2: (x ^ c1) ^ x, lambda x,y,b,c1,c2: c1)
    check("ZeroExt==c", n, lambda x,y,b,c1,c2: claripy.ZeroExt(n, x) == claripy.Concat(c1, c2), lambda x,y,b,c1,c2: z3.ZeroExt(n, x) == z3.Concat(c1, c2))
    check("LShR(x,c1)", n, lambda x,y,b,c1,c2: claripy.LShR(claripy.ZeroExt(n, x), claripy.Concat(c1,c2)), lambda x,y,b,c1,c2: z3.LShR(z3.ZeroExt(n, x), z3.Concat(c1,c2)))
    check("x*c1*c2", n, lambda x,y,b,c1,c2: (x * c1) * c2, lambda x,y,b,c1,c2: (x * c1) * c2)
