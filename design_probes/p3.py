from claripy.backends.backend_concrete import strings as cs
from claripy.backends.backend_concrete.bv import BVV

def ref_indexof(s: str, t: str, i: int) -> int:
    # SMT-LIB str.indexof
    if i < 0 or i > len(s):
        return -1
    j = s.find(t, i)
    return j

def ref_prefixof(p: str, s: str) -> bool:
    return s.startswith(p)

def ref_to_int(s: str) -> int:
    if len(s) == 0: return -1
    for ch in s:
        if not ('0' <= ch <= '9'): return -1
    return int(s)

def check_indexof(s: str, t: str, i: int) -> bool:
    """
    pre: len(s) <= 3 and len(t) <= 2 and 0 <= i < 6
    post: _
    """
    r = cs.StrIndexOf(cs.StringV(s), cs.StringV(t), BVV(i, 64))
    return r.value == ref_indexof(s, t, i) % 2**64

def check_prefix(p: str, s: str) -> bool:
    """
    pre: len(s) <= 3 and len(p) <= 2
    post: _
    raises: 
    """
    return cs.StrPrefixOf(cs.StringV(p), cs.StringV(s)) == ref_prefixof(p, s)

def check_toint(s: str) -> bool:
    """
    pre: len(s) <= 3
    post: _
    """
    return cs.StrToInt(cs.StringV(s)).value == ref_to_int(s) % 2**64

def check_substr(s: str, i: int, n: int) -> bool:
    """
    pre: len(s) <= 4 and 0 <= i < 8 and 0 <= n < 8
    post: _
    """
    r = cs.StrSubstr(BVV(i, 64), BVV(n, 64), cs.StringV(s)).value
    ref = s[i:i+n] if i < len(s) else ""
    return r == ref
