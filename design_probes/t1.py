import time, z3, symint
from symint import SInt, explore, W
from claripy.backends.backend_concrete import bv

def check(name, n, impl, ref):
    a = z3.BitVec("a", n); b = z3.BitVec("b", n)
    def run():
        A = SInt(z3.ZeroExt(W - n, a)); B = SInt(z3.ZeroExt(W - n, b))
        return impl(bv.BVV(A, n), bv.BVV(B, n))
    t0 = time.time(); paths = 0; bad = None; incon = 0
    for pc, obl, (kind, r) in explore(run):
        paths += 1
        s = z3.Solver(); s.add(*pc)
        for o in obl:
            if s.check(z3.Not(o)) != z3.unsat: incon += 1
        if kind == "exc":
            want = ref(a, b)
            # exception path: must be exactly division by zero
            s.add(z3.Not(b == 0) if isinstance(r, ZeroDivisionError) else z3.BoolVal(True))
            if not isinstance(r, ZeroDivisionError): bad = ("exc", r); break
            if s.check() == z3.sat: bad = ("zde", s.model()); break
            continue
        v = r.value if isinstance(r, bv.BVV) else r
        if isinstance(v, symint.SBool): got = v.t; want = ref(a, b)
        elif isinstance(v, bool): got = z3.BoolVal(v); want = ref(a, b)
        else:
            got = z3.Extract(n - 1, 0, symint.term(v)); want = ref(a, b)
            s.add(z3.Or(z3.Not(symint.fits(v)), got != want) ) if True else None
            if s.check() == z3.sat: bad = s.model(); break
            continue
        s.add(got != want)
        if s.check() == z3.sat: bad = s.model(); break
    print(f"{name:10s} n={n:2d} paths={paths:3d} incon={incon} {'OK' if bad is None else 'CEX '+str(bad)}  {time.time()-t0:.2f}s")

def asr(a, b): return a >> b
for n in (4, 8, 16, 32):
    check("add", n, lambda x, y: x + y, lambda a, b: a + b)
    check("sub", n, lambda x, y: x - y, lambda a, b: a - b)
    check("mul", n, lambda x, y: x * y, lambda a, b: a * b)
    check("and", n, lambda x, y: x & y, lambda a, b: a & b)
    check("udiv", n, lambda x, y: x // y, lambda a, b: z3.UDiv(a, b))
    check("urem", n, lambda x, y: x % y, lambda a, b: z3.URem(a, b))
    check("sdiv", n, bv.SDiv, lambda a, b: a / b)
    check("smod", n, bv.SMod, lambda a, b: z3.SRem(a, b))
    check("shl", n, lambda x, y: x << y, lambda a, b: a << b)
    check("lshr", n, bv.LShR, lambda a, b: z3.LShR(a, b))
    check("ashr", n, lambda x, y: x >> y, lambda a, b: a >> b)
    check("slt", n, bv.SLT, lambda a, b: a < b)
    check("ule", n, bv.ULE, lambda a, b: z3.ULE(a, b))
