"""Prototype: symbolic floats (float subclass over z3 Float64) through backend_concrete/fp.py."""
import time, z3, symint
from symint import SInt, explore, ENG
symint.W = 80
W = 80
import claripy
from claripy.backends.backend_concrete import fp as cfp
from claripy.fp import FSORT_DOUBLE, FSORT_FLOAT, RM

F64 = z3.Float64()
RNE = z3.RNE()


def ft(x):
    if isinstance(x, SFloat):
        return x.t
    if isinstance(x, float):
        return z3.FPVal(x, F64)
    if isinstance(x, int) and not isinstance(x, SInt):
        return z3.FPVal(float(x), F64)
    raise TypeError(type(x))


class SFloat(float):
    def __new__(cls, t):
        o = float.__new__(cls, 0.0)
        o.t = t
        return o
    def __add__(s, o): return SFloat(z3.fpAdd(RNE, ft(s), ft(o)))
    def __radd__(s, o): return SFloat(z3.fpAdd(RNE, ft(o), ft(s)))
    def __sub__(s, o): return SFloat(z3.fpSub(RNE, ft(s), ft(o)))
    def __rsub__(s, o): return SFloat(z3.fpSub(RNE, ft(o), ft(s)))
    def __mul__(s, o): return SFloat(z3.fpMul(RNE, ft(s), ft(o)))
    def __rmul__(s, o): return SFloat(z3.fpMul(RNE, ft(o), ft(s)))
    def __truediv__(s, o):
        if ENG.branch(z3.fpIsZero(ft(o))):
            raise ZeroDivisionError("float division by zero")
        return SFloat(z3.fpDiv(RNE, ft(s), ft(o)))
    def __rtruediv__(s, o):
        if ENG.branch(z3.fpIsZero(ft(s))):
            raise ZeroDivisionError("float division by zero")
        return SFloat(z3.fpDiv(RNE, ft(o), ft(s)))
    def __neg__(s): return SFloat(z3.fpNeg(ft(s)))
    def __abs__(s): return SFloat(z3.fpAbs(ft(s)))
    def __eq__(s, o): return ENG.branch(z3.fpEQ(ft(s), ft(o)))
    def __ne__(s, o): return ENG.branch(z3.Not(z3.fpEQ(ft(s), ft(o))))
    def __lt__(s, o): return ENG.branch(z3.fpLT(ft(s), ft(o)))
    def __le__(s, o): return ENG.branch(z3.fpLEQ(ft(s), ft(o)))
    def __gt__(s, o): return ENG.branch(z3.fpGT(ft(s), ft(o)))
    def __ge__(s, o): return ENG.branch(z3.fpGEQ(ft(s), ft(o)))
    def __hash__(s): return id(s)
    def __str__(s):
        return _SignStr(s)
    __repr__ = lambda s: f"SFloat({s.t})"


class _SignStr(str):
    """str(x) of a symbolic float; only [0] == '-' is supported (sign test; 'nan' never starts with '-')."""
    def __new__(cls, f):
        o = str.__new__(cls, "?")
        o.f = f
        return o
    def __getitem__(s, i):
        assert i == 0
        return _SignChar(s.f)


class _SignChar(str):
    def __new__(cls, f):
        o = str.__new__(cls, "?")
        o.f = f
        return o
    def __eq__(s, o):
        assert o == "-"
        return ENG.branch(z3.And(z3.fpIsNegative(ft(s.f)), z3.Not(z3.fpIsNaN(ft(s.f)))))
    __hash__ = str.__hash__


class MathShim:
    @staticmethod
    def isnan(x): return ENG.branch(z3.fpIsNaN(ft(x))) if isinstance(x, SFloat) else __import__("math").isnan(x)
    @staticmethod
    def isinf(x): return ENG.branch(z3.fpIsInf(ft(x))) if isinstance(x, SFloat) else __import__("math").isinf(x)
    @staticmethod
    def sqrt(x):
        if ENG.branch(z3.fpLT(ft(x), z3.FPVal(0.0, F64))):
            raise ValueError("math domain error")
        return SFloat(z3.fpSqrt(RNE, ft(x)))


cfp.math = MathShim()

a = z3.FP("a", F64); b = z3.FP("b", F64)
rm = z3.Const("rm", z3.RoundingModeSort(z3.main_ctx())) if hasattr(z3, "RoundingModeSort") else None
RMS = {RM.RM_NearestTiesEven: z3.RNE(), RM.RM_TowardsZero: z3.RTZ(), RM.RM_TowardsPositiveInf: z3.RTP(), RM.RM_TowardsNegativeInf: z3.RTN(), RM.RM_NearestTiesAwayFromZero: z3.RNA()}


def same(x, y):
    """IEEE value identity with NaN == NaN (bit patterns of NaN unspecified)."""
    return z3.Or(z3.And(z3.fpIsNaN(x), z3.fpIsNaN(y)), x == y)   # z3 '==' on FP is structural (smt-lib =)


def check(name, impl, ref, boolres=False, timeout=30000):
    def run():
        return impl(cfp.FPV(SFloat(a), FSORT_DOUBLE), cfp.FPV(SFloat(b), FSORT_DOUBLE))
    t0 = time.time(); paths = 0; bad = None; unk = 0
    for pc, obl, (kind, r) in explore(run):
        paths += 1
        s = z3.Solver(); s.set("timeout", timeout); s.add(*pc)
        if kind == "exc":
            if s.check() == z3.sat:
                bad = ("EXC", repr(r), s.model()); break
            continue
        if boolres:
            s.add(z3.BoolVal(r) != ref(a, b))
        else:
            s.add(z3.Not(same(ft(r.value), ref(a, b))))
        res = s.check()
        if res == z3.sat:
            m = s.model(); bad = {str(d): m[d] for d in m.decls()}; break
        if res == z3.unknown:
            unk += 1
    print(f"{name:14s} paths={paths:3d} unknown={unk} {'HOLDS' if bad is None and not unk else ('INCONCLUSIVE' if bad is None else 'CEX ' + str(bad))} {time.time()-t0:.1f}s", flush=True)


check("fpLT", cfp.fpLT, lambda x, y: z3.fpLT(x, y), True)
check("fpEQ", cfp.fpEQ, lambda x, y: z3.fpEQ(x, y), True)
check("fpNeg", lambda x, y: cfp.fpNeg(x), lambda x, y: z3.fpNeg(x))
check("fpAbs", lambda x, y: cfp.fpAbs(x), lambda x, y: z3.fpAbs(x))
check("fpIsNaN", lambda x, y: cfp.fpIsNaN(x), lambda x, y: z3.fpIsNaN(x), True)
check("fpAdd RNE", lambda x, y: cfp.fpAdd(RM.RM_NearestTiesEven, x, y), lambda x, y: z3.fpAdd(z3.RNE(), x, y))
check("fpAdd RTZ", lambda x, y: cfp.fpAdd(RM.RM_TowardsZero, x, y), lambda x, y: z3.fpAdd(z3.RTZ(), x, y))
check("fpDiv RNE", lambda x, y: cfp.fpDiv(RM.RM_NearestTiesEven, x, y), lambda x, y: z3.fpDiv(z3.RNE(), x, y))
check("fpSqrt RNE", lambda x, y: cfp.fpSqrt(RM.RM_NearestTiesEven, x), lambda x, y: z3.fpSqrt(z3.RNE(), x))
check("fpMul RNE", lambda x, y: cfp.fpMul(RM.RM_NearestTiesEven, x, y), lambda x, y: z3.fpMul(z3.RNE(), x, y))
