"""Probe: partial-order (event/clock) SMT encoding of the GC guard, generated from the current source.

Each thread's loop-free program is unfolded into events (one per source line executed); every event gets an
integer clock; shared variables are linked by reads-from constraints.  The schedule is the clock assignment.
"""
import ast, inspect, sys, time, itertools
import z3
import claripy.backends.backend_z3 as bz3
from t8 import compile_fn
from t9 import flatten

SHARED = {"_active_z3_calls": "int", "_gc_was_enabled": "bool", "gc": "bool", "lock": "int"}


def reads_of(ins):
    if ins[0] == "acquire": return ["lock"]
    if ins[0] == "if": return names(ins[1])
    if ins[0] == "assign": return names(ins[2])
    if ins[0] == "zcall": return ["gc"]
    return []


def names(e):
    out = []
    for n in ast.walk(e):
        if isinstance(n, ast.Name) and n.id in SHARED: out.append(n.id)
        if isinstance(n, ast.Call) and ast.unparse(n.func) == "gc.isenabled": out.append("gc")
    return list(dict.fromkeys(out))


def ev(e, env):
    if isinstance(e, ast.Constant):
        return z3.BoolVal(e.value) if isinstance(e.value, bool) else z3.IntVal(e.value)
    if isinstance(e, ast.Name): return env[e.id]
    if isinstance(e, ast.Compare):
        a, b = ev(e.left, env), ev(e.comparators[0], env); op = e.ops[0]
        return {ast.Eq: a == b, ast.NotEq: a != b, ast.Lt: a < b, ast.LtE: a <= b, ast.Gt: a > b, ast.GtE: a >= b}[type(op)]
    if isinstance(e, ast.BinOp):
        a, b = ev(e.left, env), ev(e.right, env)
        return a + b if isinstance(e.op, ast.Add) else a - b
    if isinstance(e, ast.UnaryOp) and isinstance(e.op, ast.Not): return z3.Not(ev(e.operand, env))
    if isinstance(e, ast.Call) and ast.unparse(e.func) == "gc.isenabled": return env["gc"]
    raise NotImplementedError(ast.dump(e))


def po(progs, enter_src=None, exit_src=None, timeout=100000, witness=False):
    enter = compile_fn(bz3._enter_z3, enter_src); exit_ = compile_fn(bz3._exit_z3, exit_src)
    s = z3.Solver(); s.set("timeout", timeout)
    gc0 = z3.Bool("gc0")
    writes = {v: [] for v in SHARED}     # (exec, clock, value)
    init = {"_active_z3_calls": z3.IntVal(0), "_gc_was_enabled": z3.BoolVal(False), "gc": gc0, "lock": z3.IntVal(-1)}
    for v in SHARED: writes[v].append((z3.BoolVal(True), z3.IntVal(0), init[v]))
    reads = []                           # (exec, clock, var, valuevar)
    bad = []; clocks = []; fin = []
    for i, p in enumerate(progs):
        flat, inprog = flatten(p, enter, exit_)
        n = len(flat)
        g = [z3.Bool(f"g_{i}_{k}") for k in range(n + 1)]       # control reaches instr k
        lim = z3.Int(f"lim_{i}")                                   # prefix length actually executed
        s.add(lim >= 0, lim <= n)
        s.add(g[0])
        inc = {k: [] for k in range(n + 1)}                        # incoming control edges
        prevc = z3.IntVal(0)
        for k, ins in enumerate(flat):
            c = z3.Int(f"c_{i}_{k}"); clocks.append(c)
            s.add(c > 0)
            ex = z3.And(g[k], lim > k)
            # program order (clocks increase along the flat order; good enough because code is forward-jumping)
            s.add(c > prevc); prevc = c
            env = {}
            for v in reads_of(ins):
                rv = z3.Const(f"r_{i}_{k}_{v}", z3.IntSort() if SHARED[v] == "int" else z3.BoolSort())
                env[v] = rv; reads.append((ex, c, v, rv))
            nxt_true = k + 1
            if ins[0] == "acquire":
                s.add(z3.Implies(ex, env["lock"] == -1)); writes["lock"].append((ex, c, z3.IntVal(i)))
            elif ins[0] == "release":
                writes["lock"].append((ex, c, z3.IntVal(-1)))
            elif ins[0] == "assign":
                writes[ins[1]].append((ex, c, ev(ins[2], env)))
                if ins[1] == "_active_z3_calls": bad.append(z3.And(ex, ev(ins[2], env) < 0))
            elif ins[0] == "call":
                if ins[1] == "gc.disable": writes["gc"].append((ex, c, z3.BoolVal(False)))
                elif ins[1] == "gc.enable": writes["gc"].append((ex, c, z3.BoolVal(True)))
                elif ins[1] == "log.error": bad.append(ex)
                else: raise NotImplementedError(ins[1])
            elif ins[0] == "zcall":
                if inprog[k]: bad.append(z3.And(ex, env["gc"]))
            if ins[0] == "if":
                cond = ev(ins[1], env)
                inc[k + 1].append(z3.And(g[k], cond)); inc[ins[2]].append(z3.And(g[k], z3.Not(cond)))
            elif ins[0] == "goto":
                inc[ins[1]].append(g[k])
            else:
                inc[k + 1].append(g[k])
        for k in range(1, n + 1):
            s.add(g[k] == (z3.Or(*inc[k]) if inc[k] else z3.BoolVal(False)))
        fin.append(lim == n)
    s.add(z3.Distinct(*clocks))
    # reads-from
    for (ex, c, v, rv) in reads:
        opts = []
        for wi, (wex, wc, wv) in enumerate(writes[v]):
            nobetween = z3.And(*[z3.Or(z3.Not(oex), oc < wc, oc >= c) for oj, (oex, oc, ov) in enumerate(writes[v]) if oj != wi and oc is not c] or [z3.BoolVal(True)])
            if wc is c:
                continue   # an event never reads its own write
            opts.append(z3.And(wex, wc < c, rv == wv, nobetween))
        s.add(z3.Implies(ex, z3.Or(*opts)))
    # final state when everything ran: last write to gc / count
    def final(v):
        r = init[v]
        cands = writes[v]
        terms = []
        for wi, (wex, wc, wv) in enumerate(cands):
            last = z3.And(wex, *[z3.Or(z3.Not(oex), oc <= wc) for oj, (oex, oc, ov) in enumerate(cands) if oj != wi])
            terms.append((last, wv))
        return terms
    alldone = z3.And(*fin)
    bad.append(z3.And(alldone, z3.Or(*[z3.And(l, wv != gc0) for l, wv in final("gc")])))
    bad.append(z3.And(alldone, z3.Or(*[z3.And(l, wv != 0) for l, wv in final("_active_z3_calls")])))
    s.add(alldone if witness else z3.Or(*bad))
    t0 = time.time(); r = s.check()
    return r, time.time() - t0, len(clocks)


if __name__ == "__main__":
    nt = int(sys.argv[1]); plist = sys.argv[2].split(",")
    for combo in itertools.combinations_with_replacement(plist, nt):
        r, dt, ne = po(combo)
        w = po(combo, witness=True)[0]
        print(f"real source {combo} events={ne}: {r} {dt:.1f}s   reachability-witness(all done)={w}", flush=True)
    mut = inspect.getsource(bz3._enter_z3).replace("with _gc_lock:", "if True:")
    r, dt, ne = po(tuple(plist[:1] * nt), enter_src=mut); print(f"mutant no-lock-enter: {r} {dt:.1f}s", flush=True)
    mut = inspect.getsource(bz3._exit_z3).replace("_gc_was_enabled = False", "pass")
    r, dt, ne = po(tuple(plist[:1] * nt), exit_src=mut); print(f"mutant keep-flag (benign?): {r} {dt:.1f}s", flush=True)
    mut = inspect.getsource(bz3._exit_z3).replace("if _gc_was_enabled:\n                gc.enable()", "gc.enable()")
    r, dt, ne = po(tuple(plist[:1] * nt), exit_src=mut); print(f"mutant always-enable: {r} {dt:.1f}s", flush=True)
    # vacuity witness: replace bad by "all threads done" -> must be sat
