"""Probe: SMT bounded model checking of _enter_z3/_exit_z3, encoding generated from the current source."""
import ast, inspect, sys, time, textwrap
import z3
import claripy.backends.backend_z3 as bz3

SRC_OVERRIDE = None


def compile_fn(fn, src=None):
    """-> list of instrs; each instr is a tuple. Line granularity: one simple statement / one test per step."""
    src = textwrap.dedent(src or inspect.getsource(fn))
    f = ast.parse(src).body[0]
    code = []

    def emit(*i):
        code.append(list(i)); return len(code) - 1

    def stmts(body, locks):
        for s in body:
            if isinstance(s, ast.Global) or isinstance(s, ast.Pass):
                continue
            if isinstance(s, ast.With):
                assert len(s.items) == 1 and isinstance(s.items[0].context_expr, ast.Name)
                lk = s.items[0].context_expr.id
                emit("acquire", lk)
                stmts(s.body, [*locks, lk])
                emit("release", lk)
            elif isinstance(s, ast.If):
                j = emit("if", s.test, None)
                stmts(s.body, locks)
                if s.orelse:
                    g = emit("goto", None)
                    code[j][2] = len(code)
                    stmts(s.orelse, locks)
                    code[g][1] = len(code)
                else:
                    code[j][2] = len(code)
            elif isinstance(s, ast.Assign):
                assert len(s.targets) == 1 and isinstance(s.targets[0], ast.Name)
                emit("assign", s.targets[0].id, s.value)
            elif isinstance(s, ast.AugAssign):
                emit("assign", s.target.id, ast.BinOp(left=ast.Name(id=s.target.id), op=s.op, right=s.value))
            elif isinstance(s, ast.Expr) and isinstance(s.value, ast.Call):
                emit("call", ast.unparse(s.value.func))
            elif isinstance(s, ast.Return):
                for lk in reversed(locks):
                    emit("release", lk)
                emit("ret")
            else:
                raise NotImplementedError(ast.dump(s))

    stmts(f.body, [])
    emit("ret")
    return code


GLOBALS = {"_active_z3_calls": "int", "_gc_was_enabled": "bool"}


def ev(e, st):
    if isinstance(e, ast.Constant):
        return z3.BoolVal(e.value) if isinstance(e.value, bool) else z3.IntVal(e.value)
    if isinstance(e, ast.Name):
        return st[e.id]
    if isinstance(e, ast.Compare):
        a, b = ev(e.left, st), ev(e.comparators[0], st)
        op = e.ops[0]
        return {ast.Eq: a == b, ast.NotEq: a != b, ast.Lt: a < b, ast.LtE: a <= b, ast.Gt: a > b, ast.GtE: a >= b}[type(op)]
    if isinstance(e, ast.BinOp):
        a, b = ev(e.left, st), ev(e.right, st)
        return a + b if isinstance(e.op, ast.Add) else a - b
    if isinstance(e, ast.UnaryOp) and isinstance(e.op, ast.Not):
        return z3.Not(ev(e.operand, st))
    if isinstance(e, ast.Call) and ast.unparse(e.func) == "gc.isenabled":
        return st["gc"]
    raise NotImplementedError(ast.dump(e))


def bmc(enter_src=None, exit_src=None, nthreads=2, programs=("EX", "EEXX", "EXEX")):
    enter = compile_fn(bz3._enter_z3, enter_src)
    exit_ = compile_fn(bz3._exit_z3, exit_src)
    # per program: flat code with a ZCALL marker where the wrapped z3 call runs
    progs = []
    for p in programs:
        flat = []; depth = 0; inprog = []
        for ch in p:
            body = enter if ch == "E" else exit_
            base = len(flat)
            for ins in body:
                ins = list(ins)
                if ins[0] == "if": ins[2] += base
                if ins[0] == "goto": ins[1] += base
                if ins[0] == "ret": ins = ["nop"]
                flat.append(ins); inprog.append(depth > 0)
            if ch == "E":
                depth += 1
            else:
                depth -= 1
            flat.append(["zcall"]); inprog.append(depth > 0)
        progs.append((flat, inprog))
    maxlen = max(len(f) for f, _ in progs)
    K = nthreads * maxlen + 1
    s = z3.Solver()
    T = range(nthreads)
    sel = [z3.Int(f"prog_{i}") for i in T]
    for i in T:
        s.add(sel[i] >= 0, sel[i] < len(progs))
    gc0 = z3.Bool("gc0")

    def mkstate(t):
        return {"pc": [z3.Int(f"pc_{i}_{t}") for i in T], "_active_z3_calls": z3.Int(f"cnt_{t}"),
                "_gc_was_enabled": z3.Bool(f"was_{t}"), "gc": z3.Bool(f"gc_{t}"), "lock": z3.Int(f"lock_{t}"),
                "under": z3.Bool(f"under_{t}")}

    st = mkstate(0)
    s.add(*[st["pc"][i] == 0 for i in T], st["_active_z3_calls"] == 0, st["_gc_was_enabled"] == z3.BoolVal(False),
          st["gc"] == gc0, st["lock"] == -1, z3.Not(st["under"]))
    bad = []
    states = [st]
    for t in range(K):
        nx = mkstate(t + 1)
        sched = z3.Int(f"sched_{t}")
        s.add(sched >= 0, sched < nthreads)
        cases = []
        for i in T:
            for pi, (flat, inprog) in enumerate(progs):
                for pc, ins in enumerate(flat):
                    guard = z3.And(sched == i, sel[i] == pi, st["pc"][i] == pc)
                    upd = {k: st[k] for k in ("_active_z3_calls", "_gc_was_enabled", "gc", "lock", "under")}
                    npc = pc + 1
                    enabled = z3.BoolVal(True)
                    if ins[0] == "acquire":
                        enabled = st["lock"] == -1; upd["lock"] = z3.IntVal(i)
                    elif ins[0] == "release":
                        upd["lock"] = z3.IntVal(-1)
                    elif ins[0] == "assign":
                        upd[ins[1]] = ev(ins[2], st)
                    elif ins[0] == "if":
                        npc = z3.If(ev(ins[1], st), pc + 1, ins[2])
                    elif ins[0] == "goto":
                        npc = ins[1]
                    elif ins[0] == "call":
                        if ins[1] == "gc.disable": upd["gc"] = z3.BoolVal(False)
                        elif ins[1] == "gc.enable": upd["gc"] = z3.BoolVal(True)
                        elif ins[1] == "log.error": upd["under"] = z3.BoolVal(True)
                        else: raise NotImplementedError(ins[1])
                    eff = z3.And(*[nx[k] == upd[k] for k in upd], nx["pc"][i] == npc,
                                 *[nx["pc"][j] == st["pc"][j] for j in T if j != i])
                    cases.append(z3.And(guard, enabled, eff))
                # finished thread / stutter
                guard = z3.And(sched == i, sel[i] == pi, st["pc"][i] == len(flat))
                cases.append(z3.And(guard, *[nx[k] == st[k] for k in ("_active_z3_calls", "_gc_was_enabled", "gc", "lock", "under")],
                                    *[nx["pc"][j] == st["pc"][j] for j in T]))
        s.add(z3.Or(*cases))
        # safety at state t+1: some thread inside its wrapped call => gc disabled ; count >= 0 ; no underflow
        inside = z3.Or(*[z3.And(sel[i] == pi, nx["pc"][i] == pc)
                         for i in T for pi, (flat, inprog) in enumerate(progs) for pc, ins in enumerate(flat)
                         if ins[0] == "zcall" and inprog[pc]])
        bad.append(z3.And(inside, nx["gc"]))
        bad.append(nx["_active_z3_calls"] < 0)
        bad.append(nx["under"])
        alldone = z3.And(*[z3.Or(*[z3.And(sel[i] == pi, nx["pc"][i] == len(flat)) for pi, (flat, _) in enumerate(progs)]) for i in T])
        bad.append(z3.And(alldone, z3.Or(nx["gc"] != gc0, nx["_active_z3_calls"] != 0)))
        st = nx; states.append(st)
    s.add(z3.Or(*bad))
    t0 = time.time()
    r = s.check()
    return r, time.time() - t0, K, (s.model() if r == z3.sat else None)


if __name__ == "__main__":
    nt = int(sys.argv[1]) if len(sys.argv) > 1 else 2
    r, dt, K, m = bmc(nthreads=nt)
    print(f"real source: threads={nt} steps={K} -> {r} ({'no violating schedule' if r == z3.unsat else 'VIOLATION'}) {dt:.1f}s")
    # mutant: lock removed from _enter_z3
    mut = inspect.getsource(bz3._enter_z3).replace("with _gc_lock:", "if True:")
    r, dt, K, m = bmc(enter_src=mut, nthreads=nt)
    print(f"mutant (no lock in enter): -> {r} {dt:.1f}s")
    if m is not None:
        print("  schedule:", [m.eval(z3.Int(f"sched_{t}")).as_long() for t in range(K)][:40], "progs", [m.eval(z3.Int(f"prog_{i}")) for i in range(nt)], "gc0", m.eval(z3.Bool("gc0")))
