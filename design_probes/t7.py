"""Probe: BackendZ3._extrema (real code) against a symbolic feasible set; z3_solver_sat stubbed as oracle."""
import time, sys, z3
import symint
from symint import explore, ENG
import claripy
import claripy.backends.backend_z3 as bz3

N = int(sys.argv[1]) if len(sys.argv) > 1 else 4
S = z3.BitVec("S", 1 << N)          # bit v set  <=>  value v of expr is feasible
e = z3.BitVec("e", N)


def mask_of(constraints):
    """Set of values of e allowed by the (concrete-shaped) query constraints, as a (1<<N)-bit constant."""
    m = 0
    f = z3.And(*constraints) if constraints else z3.BoolVal(True)
    for v in range(1 << N):
        if z3.is_true(z3.simplify(z3.substitute(f, (e, z3.BitVecVal(v, N))))):
            m |= 1 << v
    return z3.BitVecVal(m, 1 << N)


class FakeSolver:
    def model(self):
        return None


def oracle(solver, extra_constraints, occasion):
    return ENG.branch((S & mask_of(list(extra_constraints))) != 0)


bz3.z3_solver_sat = oracle


def true_ext(is_max, signed):
    order = list(range(1 << N))
    if signed:
        order.sort(key=lambda v: v - (1 << N) if v >= (1 << (N - 1)) else v)
    if is_max:
        order.reverse()
    r = z3.BitVecVal(order[-1], N)
    for v in reversed(order):
        r = z3.If(z3.Extract(v, v, S) == 1, z3.BitVecVal(v, N), r)
    return r


for is_max in (False, True):
    for signed in (False, True):
        t0 = time.time(); paths = 0; bad = None
        def run():
            return claripy.backends.z3._extrema(is_max, e, (), signed, FakeSolver(), None)
        for pc, obl, (kind, r) in explore(run):
            paths += 1
            s = z3.Solver(); s.add(*pc); s.add(S != 0)
            if kind == "exc":
                bad = ("EXC", repr(r)); break
            s.add(z3.BitVecVal(r, N) != true_ext(is_max, signed))
            if s.check() == z3.sat:
                bad = (r, s.model()); break
        print(f"_extrema max={is_max} signed={signed} N={N} paths={paths} {'HOLDS' if bad is None else 'CEX ' + str(bad)} {time.time()-t0:.1f}s")
