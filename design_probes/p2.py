from claripy.backends.backend_concrete import bv

def ref_sdiv(a: int, b: int, n: int) -> int:
    m = 1 << n
    sa = a - m if a >= m // 2 else a
    sb = b - m if b >= m // 2 else b
    q = abs(sa) // abs(sb)
    if (sa < 0) != (sb < 0):
        q = -q
    return q % m

def ref_srem(a: int, b: int, n: int) -> int:
    m = 1 << n
    sa = a - m if a >= m // 2 else a
    sb = b - m if b >= m // 2 else b
    r = abs(sa) % abs(sb)
    if sa < 0:
        r = -r
    return r % m

def check_sdiv64(a: int, b: int) -> bool:
    """
    pre: 0 <= a < 2**64 and 0 < b < 2**64
    post: _
    """
    r = bv.SDiv(bv.BVV(a, 64), bv.BVV(b, 64))
    return r.value == ref_sdiv(a, b, 64)

def check_smod64(a: int, b: int) -> bool:
    """
    pre: 0 <= a < 2**64 and 0 < b < 2**64
    post: _
    """
    r = bv.SMod(bv.BVV(a, 64), bv.BVV(b, 64))
    return r.value == ref_srem(a, b, 64)

def check_bad(a: int, b: int) -> bool:
    """
    pre: 0 <= a < 2**64 and 0 < b < 2**64
    post: _
    """
    r = bv.SDiv(bv.BVV(a, 64), bv.BVV(b, 64))
    m = 2**64
    sa = a - m if a >= m // 2 else a
    sb = b - m if b >= m // 2 else b
    return r.value == (sa // sb) % m
