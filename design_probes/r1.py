import claripy
x = claripy.BVS("x", 3)
s = claripy.Solver()
s.add(claripy.ULE(x, 4))
print("max", s.max(x), "smax", s.max(x, signed=True), "(expect 4, 3)")
s = claripy.Solver(); y = claripy.BVS("y", 8)
s.add(claripy.Or(y == 0, y == 255, y==1)); print(s.eval(y, 5)); print("smin", s.min(y, signed=True), "expect 255")
s = claripy.Solver(); s.add(claripy.ULE(y, 200)); s.add(claripy.UGE(y, 6)); print(s.min(y)); print(s.min(y, extra_constraints=(y >= 10,)), "expect 10")
