import sys, time
sys.argv = ["t5.py", "2"]
src = open("t5.py").read().split("ule = lambda")[0]
exec(src)
import forkmode, claripy.solvers as cs
x = claripy.BVS("x", N, explicit_name=True); y = claripy.BVS("y", N, explicit_name=True)
zx, zy = z3.BitVec("x", N), z3.BitVec("y", N)
ks = [z3.BitVec(f"k{i}", N) for i in range(2)]
be = SymBackend([("x", zx, N), ("y", zy, N)])
def run():
    symclaripy.reset_caches(); be.fresh = itertools.count()
    K = [BVV(mk(k, N), N) for k in ks]
    s = cs.SolverComposite(template_solver=cs.SolverCompositeChild(backend=be))
    c1 = claripy.ULE(x, K[0]); c2 = y == K[1]; c3 = x == y
    s.add(c1); s.add(c2); s.satisfiable(); s.add(c3)
    try: m = s.max(x)
    except UnsatError: m = "UNSAT"
    return z3.And(be.conv(c1), be.conv(c2), be.conv(c3)), zx, m
def finish(pc, kind, r):
    sol = z3.Solver(); sol.add(*pc)
    if kind == "exc": return ("exc", repr(r)[:200])
    F, t, m = r
    spec = z3.Not(be._exists(F)) if isinstance(m, str) else spec_max(F, t, z3.Extract(N - 1, 0, symint.term(m)), False, be)
    sol.add(z3.Not(spec))
    if sol.check() == z3.sat:
        mo = sol.model(); return ("cex", str(m), {str(k): str(mo.eval(k)) for k in ks})
    return ("ok",)
# make every module that imported ENG by name see the fork engine: symint.ENG is looked up via module attr in SInt methods
t0 = time.time()
outs = forkmode.explore_fork(run, finish)
from collections import Counter
print("paths", len(outs), Counter(o[0] for o in outs), f"{time.time()-t0:.1f}s")
for o in outs:
    if o[0] != "ok": print("  ", o); break
