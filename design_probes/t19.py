"""Probe: (a) double-rounding obligation for FLOAT sort; (b) division kernels with a narrow integer model."""
import z3, time, sys, subprocess, os
# (a) claripy computes float32 ops as: widen to double, op in double (RNE), round to float32 (RNE)
F32, F64 = z3.Float32(), z3.Float64()
a, b = z3.FP("a", F32), z3.FP("b", F32)
def via_double(op):
    da, db = z3.fpToFP(z3.RNE(), a, F64), z3.fpToFP(z3.RNE(), b, F64)
    return z3.fpToFP(z3.RNE(), op(z3.RNE(), da, db), F32)
def same(x, y): return z3.Or(z3.And(z3.fpIsNaN(x), z3.fpIsNaN(y)), x == y)
for name, op in (("add", z3.fpAdd), ("mul", z3.fpMul), ("div", z3.fpDiv)):
    s = z3.Solver(); s.set("timeout", 60000)
    s.add(z3.Not(same(via_double(op), op(z3.RNE(), a, b))))
    t0 = time.time(); r = s.check()
    print(f"float32 {name} via double == native float32 {name}: z3 {r} {time.time()-t0:.1f}s", flush=True)
    open(f"dr_{name}.smt2", "w").write("(set-logic QF_FP)\n" + s.to_smt2())
    t0 = time.time()
    try:
        out = subprocess.run(["cvc5", "--tlimit=60000", f"dr_{name}.smt2"], capture_output=True, text=True, timeout=70).stdout.strip()
    except subprocess.TimeoutExpired:
        out = "timeout"
    print(f"      cvc5: {out[:40]} {time.time()-t0:.1f}s", flush=True)
