"""Probe: constraint_to_si with symbolic constants (C25)."""
import sys, time, itertools, traceback, z3
import symint
from symint import SInt, explore, ENG
symint.W = 24
W = 24
import claripy, symclaripy
from symclaripy import mk, BVV
symclaripy.install(); symclaripy.stub_z3_simplify()
import claripy.backends.backend_vsa.strided_interval as simod
from claripy.backends.backend_vsa.strided_interval import StridedInterval
N = int(sys.argv[1]) if len(sys.argv) > 1 else 4

def member(z, s, lb, ub):
    d = z - lb; span = ub - lb
    return z3.And(z3.ULE(d, span), z3.If(s == 0, d == 0, z3.URem(d, s) == 0))
def low(v): return z3.Extract(N - 1, 0, symint.term(v)) if isinstance(v, SInt) else z3.BitVecVal(v, N)

def check(name, build):
    x = claripy.BVS("x", N, explicit_name=True); zx = z3.BitVec("x", N)
    ks = [z3.BitVec(f"k{i}", N) for i in range(2)]
    def run():
        symclaripy.reset_caches()
        K = [BVV(mk(k, N), N) for k in ks]
        c = build(x, *K)
        sat, repl = claripy.backends.vsa.constraint_to_si(c)
        out = []
        for old, new in repl:
            si = claripy.backends.vsa.convert(new)
            out.append((old, si))
        return c, sat, out
    t0 = time.time(); paths = 0; bad = None; excs = {}
    for pc, obl, (kind, r) in explore(run, max_paths=20000):
        paths += 1
        s = z3.Solver(); s.add(*pc)
        if kind == "exc":
            k = type(r).__name__ + ":" + str(r)[:60]; excs[k] = excs.get(k, 0) + 1; continue
        c, sat, out = r
        zc = claripy.backends.z3.convert(c)
        s.add(zc)   # an assignment satisfying c
        if not sat:
            if s.check() == z3.sat: bad = ("sat flag False", s.model()); break
            continue
        viol = []
        for old, si in out:
            zo = claripy.backends.z3.convert(old)
            if isinstance(si, StridedInterval):
                if si.is_empty: viol.append(z3.BoolVal(True))
                else: viol.append(z3.Not(member(zo, low(si.stride), low(si.lower_bound), low(si.upper_bound))))
        if viol:
            s.add(z3.Or(*viol))
            if s.check() == z3.sat:
                m = s.model(); bad = ([(str(o), str(si)) for o, si in out], {str(d): m[d] for d in m.decls() if not str(d).startswith("sk")}); break
    print(f"{name:22s} N={N} paths={paths:4d} excs={excs} {'HOLDS' if bad is None else 'CEX ' + str(bad)} {time.time()-t0:.1f}s", flush=True)

check("x <= k0", lambda x, k0, k1: claripy.ULE(x, k0))
check("x + k0 <= k1", lambda x, k0, k1: claripy.ULE(x + k0, k1))
check("x - k0 >= k1", lambda x, k0, k1: claripy.UGE(x - k0, k1))
check("x[2:0] >= k (ext)", lambda x, k0, k1: claripy.UGE(x[N-2:0], k0[N-2:0]))
check("x s< k0", lambda x, k0, k1: claripy.SLT(x, k0))
check("x != k0", lambda x, k0, k1: x != k0)
