import time, z3, sys
sys.path.insert(0, "/verif/design_probes")   # original non-incremental engine is fine here
import importlib
import symint
from symint import SInt, explore
from claripy.backends.backend_concrete import bv
def check(name, n, W, impl, ref, cap=60000):
    symint.W = W
    a = z3.BitVec("a", n); b = z3.BitVec("b", n)
    def run():
        return impl(bv.BVV(SInt(z3.ZeroExt(W - n, a)), n), bv.BVV(SInt(z3.ZeroExt(W - n, b)), n))
    t0 = time.time(); paths = 0; bad = None; unk = 0; incon = 0
    for pc, obl, (kind, r) in explore(run):
        paths += 1
        s = z3.Solver(); s.set("timeout", cap); s.add(*pc)
        for o in obl:
            if s.check(z3.Not(o)) != z3.unsat: incon += 1
        if kind == "exc":
            s.add(b != 0)
            if s.check() == z3.sat: bad = "exc on nonzero divisor"
            continue
        got = z3.Extract(n - 1, 0, symint.term(r.value))
        s.add(got != ref(a, b))
        res = s.check()
        if res == z3.sat: bad = s.model(); break
        if res == z3.unknown: unk += 1
    print(f"{name:5s} n={n:2d} W={W:3d} paths={paths} unknown={unk} fits-failures={incon} {'OK' if bad is None and not unk else bad} {time.time()-t0:.1f}s", flush=True)
for n in (8, 16, 32):
    W = 2 * n + 2
    check("sdiv", n, W, bv.SDiv, lambda a, b: a / b)
    check("smod", n, W, bv.SMod, lambda a, b: z3.SRem(a, b))
    check("udiv", n, n + 2, lambda x, y: x // y, lambda a, b: z3.UDiv(a, b))
